//go:build verif

package main

// C12 — AppendObject extends the object without losing concurrent appends.
//
// Two kinds of cases, both expressed as M-META history lines (coq/Model/Meta.v run_line):
//  (1) sequential append-heavy histories, executed by the M-META engine (harness/meta.go);
//  (2) concurrent runs: k goroutines x 1..3 operations (appends with/without write offset, some offsets taken
//      from a head at run time, some stale; occasional put/delete) on ONE key of a real storage. The recorded
//      history (invocation/response times, results) is linearized by a search against a by-key reference
//      (written here, independent of the Gallina model); the case line is the equivalent SEQUENTIAL history in
//      that order, the implementation output the results observed in the concurrent run. A history without a
//      consistent order is an oracle failure (not linearizable).
//
// The direct oracle (c12Oracle) works on (case line, implementation output) only: a by-key reference of
// put/append/delete/multipart — every acknowledged chunk exactly once, at the accepted offset, nothing else.

import (
	"bytes"
	"context"
	"crypto/md5"
	"encoding/hex"
	"errors"
	"fmt"
	"hash/crc32"
	"io"
	"os"
	"runtime"
	"sort"
	"strconv"
	"strings"
	"sync"
	"time"

	"github.com/jdillenkofer/pithos/internal/storage"
)

type c12Prop struct{}

func init() { register("C12", &c12Prop{}) }

func (p *c12Prop) Parallel() bool { return true }

var c12Cache sync.Map // case line -> Result (concurrent runs are executed by Gen)

var c12Base = time.Now()

// monotonic nanoseconds (invocation/response order of concurrent operations)
func c12Mono() int64 { return int64(time.Since(c12Base)) }

// ---------------------------------------------------------------- by-key reference + oracle

type c12Key struct {
	exists bool
	chunks [][]byte // part structure (decides the ETag)
	multi  bool     // ETag is multipart-style
}

func (k *c12Key) content() []byte {
	var b []byte
	for _, c := range k.chunks {
		b = append(b, c...)
	}
	return b
}
func (k *c12Key) size() int64 {
	if !k.exists {
		return 0
	}
	n := 0
	for _, c := range k.chunks {
		n += len(c)
	}
	return int64(n)
}

func c12MultiETag(chunks [][]byte) string {
	var all []byte
	for _, c := range chunks {
		d := md5.Sum(c)
		all = append(all, d[:]...)
	}
	d := md5.Sum(all)
	return "\"" + hex.EncodeToString(d[:]) + "-" + strconv.Itoa(len(chunks)) + "\""
}
func c12MD5ETag(c []byte) string { d := md5.Sum(c); return "\"" + hex.EncodeToString(d[:]) + "\"" }

type c12Upload struct {
	bucket, key string
	parts       map[int][]byte
}

// c12Oracle evaluates the property on a history and the implementation's results. Supported operations: mb, ver,
// put/del without conditions and by key, app, get/head by key, cmu/up/cpl(no manifest)/abt. Returns "-" for other lines.
func c12Oracle(line, out string) (string, []string) {
	ops := strings.Split(line, " ")
	outs := strings.Split(out, " ")
	if len(ops) != len(outs) {
		return "FAIL:result count differs from operation count", nil
	}
	buckets := map[string]map[string]*c12Key{}
	uploads := map[int]*c12Upload{}
	tags := map[string]bool{}
	get := func(b, k string) *c12Key {
		if buckets[b][k] == nil {
			buckets[b][k] = &c12Key{}
		}
		return buckets[b][k]
	}
	fail := func(i int, msg string) (string, []string) {
		return fmt.Sprintf("FAIL:op %d (%s): %s", i, strings.SplitN(ops[i], ":", 2)[0], msg), c12TagList(tags)
	}
	for i, tok := range ops {
		f := strings.Split(tok, ":")
		o := outs[i]
		of := strings.Split(o, ":")
		switch f[0] {
		case "mb":
			if o == "ok" {
				buckets[f[1]] = map[string]*c12Key{}
			}
		case "ver":
			if buckets[f[1]] != nil && o != "ok" {
				return fail(i, "versioning change failed: "+o)
			}
		case "put":
			if f[4] != "-" {
				return "-", nil
			}
			if buckets[f[1]] == nil {
				continue
			}
			c := []byte(untokBytes(f[3]))
			if of[0] != "put" {
				return fail(i, "unconditional put failed: "+o)
			}
			if untokBytes(of[2]) != c12MD5ETag(c) {
				return fail(i, "put ETag is not the MD5 of the body")
			}
			k := get(f[1], f[2])
			k.exists, k.chunks, k.multi = true, [][]byte{c}, false
		case "del":
			if f[3] != "-" || f[4] != "-" {
				return "-", nil
			}
			if buckets[f[1]] == nil {
				continue
			}
			if of[0] != "del" {
				return fail(i, "key-only delete failed: "+o)
			}
			k := get(f[1], f[2])
			k.exists, k.chunks = false, nil
		case "app":
			if buckets[f[1]] == nil {
				continue
			}
			c := []byte(untokBytes(f[3]))
			k := get(f[1], f[2])
			cur := k.size()
			hasOff := f[4] != "-"
			var off int64
			if hasOff {
				off, _ = strconv.ParseInt(f[4], 10, 64)
			}
			if of[0] == "app" {
				tags["ack"] = true
				if hasOff {
					tags["ack-offset"] = true
				}
				if hasOff && off != cur {
					return fail(i, fmt.Sprintf("append acknowledged with write offset %d but the object has %d bytes", off, cur))
				}
				sz, _ := strconv.ParseInt(of[2], 10, 64)
				if sz != cur+int64(len(c)) {
					return fail(i, fmt.Sprintf("append reports size %d, previous size %d + %d appended", sz, cur, len(c)))
				}
				if !k.exists {
					k.chunks = nil
				}
				k.exists = true
				k.chunks = append(k.chunks, c)
				k.multi = true
				if untokBytes(of[1]) != c12MultiETag(k.chunks) {
					return fail(i, "append ETag is not md5(part md5s)-n over previous parts + appended chunk")
				}
				if len(k.chunks) > 1 {
					tags["extends"] = true
				}
			} else if o == "InvalidWriteOffset" {
				tags["rejected-offset"] = true
				if !hasOff || off == cur {
					return fail(i, fmt.Sprintf("append rejected with InvalidWriteOffset although offset %v matches size %d", f[4], cur))
				}
			} else {
				return fail(i, fmt.Sprintf("append failed with %s (offset %s, size %d)", o, f[4], cur))
			}
		case "get", "head":
			if f[3] != "-" {
				return "-", nil
			}
			if buckets[f[1]] == nil {
				continue
			}
			k := get(f[1], f[2])
			if !k.exists {
				if of[0] == "obj" {
					return fail(i, "read of a deleted/absent key succeeded")
				}
				continue
			}
			if of[0] != "obj" {
				return fail(i, fmt.Sprintf("read of an existing object (%d bytes) failed: %s", k.size(), o))
			}
			sz, _ := strconv.ParseInt(of[3], 10, 64)
			if sz != k.size() {
				return fail(i, fmt.Sprintf("size %d, expected %d", sz, k.size()))
			}
			if f[0] == "get" {
				body := []byte(untokBytes(of[6]))
				if !bytes.Equal(body, k.content()) {
					return fail(i, c12Diff(body, k))
				}
				if len(k.chunks) > 1 {
					tags["read-appended"] = true
				}
			}
		case "cmu":
			if of[0] == "upl" {
				uploads[i] = &c12Upload{bucket: f[1], key: f[2], parts: map[int][]byte{}}
			}
		case "up":
			u, _ := strconv.Atoi(strings.TrimPrefix(f[3], "#"))
			if up := uploads[u]; up != nil && up.bucket == f[1] && up.key == f[2] && of[0] == "etag" {
				pn, _ := strconv.Atoi(f[4])
				up.parts[pn] = []byte(untokBytes(f[5]))
			}
		case "cpl":
			if f[4] != "-" || f[5] != "-" {
				return "-", nil
			}
			u, _ := strconv.Atoi(strings.TrimPrefix(f[3], "#"))
			up := uploads[u]
			if of[0] == "put" && up != nil && buckets[f[1]] != nil {
				var nums []int
				for n := range up.parts {
					nums = append(nums, n)
				}
				sort.Ints(nums)
				k := get(f[1], f[2])
				k.exists, k.multi, k.chunks = true, true, nil
				for _, n := range nums {
					k.chunks = append(k.chunks, up.parts[n])
				}
				delete(uploads, u)
				tags["multipart"] = true
			}
		case "abt":
			u, _ := strconv.Atoi(strings.TrimPrefix(f[3], "#"))
			if o == "ok" {
				delete(uploads, u)
			}
		default:
			return "-", nil
		}
	}
	return "OK", c12TagList(tags)
}

func c12TagList(m map[string]bool) []string {
	var l []string
	for t := range m {
		l = append(l, t)
	}
	sort.Strings(l)
	return l
}

// describes how a body differs from the reference in terms of chunks
func c12Diff(body []byte, k *c12Key) string {
	msg := fmt.Sprintf("body (%d bytes) differs from the acknowledged content (%d bytes):", len(body), len(k.content()))
	pos := 0
	for j, c := range k.chunks {
		n := bytes.Count(body, c)
		at := bytes.Index(body, c)
		if len(c) > 0 && (n != 1 || at != pos) {
			msg += fmt.Sprintf(" chunk %d occurs %d time(s), first at %d, expected once at %d;", j, n, at, pos)
		}
		pos += len(c)
	}
	return msg
}

// ---------------------------------------------------------------- sequential generator

func c12Chunk(r *Rng, seen *[][]byte) []byte {
	if len(*seen) > 0 && r.Chance(12) {
		return (*seen)[r.Intn(len(*seen))] // identical chunk: dedup / shared parts
	}
	var n int
	switch x := r.Intn(12); {
	case x == 0 && r.Chance(15):
		n = 0
	case x <= 1:
		n = 1
	case x == 2:
		n = 64
	case x == 3:
		n = 100 + r.Intn(300)
	default:
		n = 2 + r.Intn(24)
	}
	c := r.Bytes(n)
	*seen = append(*seen, c)
	return c
}

func c12GenSeq(r *Rng) string {
	hb := tokBytes
	var ops []string
	nb := 1 + r.Intn(2)
	bks := []string{"bkt1", "bkt2"}[:nb]
	keys := []string{"k1", "dir/k2"}
	size := map[string]int{} // generator's own guess of sizes, to aim offsets
	var seen [][]byte
	for _, b := range bks {
		ops = append(ops, "mb:"+hb(b))
		if r.Chance(55) {
			st := "E"
			if r.Chance(35) {
				st = "S"
			}
			ops = append(ops, "ver:"+hb(b)+":"+st)
		}
	}
	n := 14 + r.Intn(30)
	for len(ops) < n {
		b := bks[r.Intn(nb)]
		k := keys[0]
		if r.Chance(25) {
			k = keys[1]
		}
		if r.Chance(2) {
			b = "nobucket"
		}
		bk := b + "/" + k
		switch x := r.Intn(100); {
		case x < 46:
			c := c12Chunk(r, &seen)
			off := "-"
			switch y := r.Intn(10); {
			case y < 3:
				off = strconv.Itoa(size[bk])
			case y < 5:
				d := []int{-1, 1, 0, 7, 1000}[r.Intn(5)]
				o := size[bk] + d
				if d == 0 {
					o = 0
				}
				if o < 0 {
					o = 0
				}
				off = strconv.Itoa(o)
			}
			ops = append(ops, "app:"+hb(b)+":"+hb(k)+":"+hb(string(c))+":"+off)
			if off == "-" || off == strconv.Itoa(size[bk]) {
				size[bk] += len(c)
			}
		case x < 56:
			c := c12Chunk(r, &seen)
			ops = append(ops, "put:"+hb(b)+":"+hb(k)+":"+hb(string(c))+":-")
			size[bk] = len(c)
		case x < 63:
			ops = append(ops, "del:"+hb(b)+":"+hb(k)+":-:-")
			size[bk] = 0
		case x < 80:
			ops = append(ops, "get:"+hb(b)+":"+hb(k)+":-")
		case x < 85:
			ops = append(ops, "head:"+hb(b)+":"+hb(k)+":-")
		case x < 89:
			st := "E"
			if r.Chance(50) {
				st = "S"
			}
			ops = append(ops, "ver:"+hb(b)+":"+st)
		default:
			// a multipart upload completed as a block, so that appends to multipart objects happen
			u := len(ops)
			ops = append(ops, "cmu:"+hb(b)+":"+hb(k))
			np := 1 + r.Intn(3)
			tot := 0
			for pn := 1; pn <= np; pn++ {
				c := c12Chunk(r, &seen)
				tot += len(c)
				ops = append(ops, "up:"+hb(b)+":"+hb(k)+":#"+strconv.Itoa(u)+":"+strconv.Itoa(pn)+":"+hb(string(c)))
			}
			if r.Chance(90) {
				ops = append(ops, "cpl:"+hb(b)+":"+hb(k)+":#"+strconv.Itoa(u)+":-:-")
				size[bk] = tot
			} else {
				ops = append(ops, "abt:"+hb(b)+":"+hb(k)+":#"+strconv.Itoa(u))
			}
		}
	}
	for _, b := range bks {
		for _, k := range keys {
			ops = append(ops, "get:"+hb(b)+":"+hb(k)+":-")
		}
	}
	return strings.Join(ops, " ")
}

// ---------------------------------------------------------------- concurrent runs

type c12COp struct {
	kind     string // app | put | del
	chunk    []byte
	offMode  string // none | fixed | head
	off      int64
	thread   int
	start    int64
	end      int64
	acked    bool
	errName  string
	size     int64
	etag     string
	vid      string // real version id returned (put, delete marker)
	isDM     bool
	usedOff  bool
	idx      int // index in the linearized line
}

func c12ErrName(err error) string {
	switch {
	case errors.Is(err, storage.ErrInvalidWriteOffset):
		return "InvalidWriteOffset"
	case errors.Is(err, storage.ErrNoSuchKey):
		return "NoSuchKey"
	case errors.Is(err, storage.ErrNoSuchBucket):
		return "NoSuchBucket"
	case errors.Is(err, storage.ErrPreconditionFailed):
		return "PreconditionFailed"
	}
	return "Other"
}

func c12Exec(st storage.Storage, b storage.BucketName, k storage.ObjectKey, op *c12COp) {
	ctx := context.Background()
	op.start = c12Mono()
	defer func() { op.end = c12Mono() }()
	switch op.kind {
	case "app":
		var opts *storage.AppendObjectOptions
		switch op.offMode {
		case "fixed":
			o := op.off
			opts = &storage.AppendObjectOptions{WriteOffset: &o}
			op.usedOff = true
		case "head":
			// a client that reads the size first and appends at it
			var o int64
			if obj, err := st.HeadObject(ctx, b, k, nil); err == nil {
				o = obj.Size
			}
			op.start = c12Mono() // the append itself starts here
			op.off = o
			opts = &storage.AppendObjectOptions{WriteOffset: &o}
			op.usedOff = true
		}
		res, err := st.AppendObject(ctx, b, k, bytes.NewReader(op.chunk), nil, opts)
		if err != nil {
			op.errName = c12ErrName(err)
			return
		}
		op.acked, op.size, op.etag = true, res.Size, res.ETag
	case "put":
		res, err := st.PutObject(ctx, b, k, nil, bytes.NewReader(op.chunk), nil, nil)
		if err != nil {
			op.errName = c12ErrName(err)
			return
		}
		op.acked, op.etag = true, *res.ETag
		if res.VersionID != nil && *res.VersionID != "null" {
			op.vid = *res.VersionID
		}
	case "del":
		res, err := st.DeleteObject(ctx, b, k, nil)
		if err != nil {
			op.errName = c12ErrName(err)
			return
		}
		op.acked = true
		if res.VersionID != nil && *res.VersionID != "null" {
			op.vid, op.isDM = *res.VersionID, res.IsDeleteMarker
		}
	}
}

// c12Linearize searches an order of ops consistent with program order, real time and the by-key reference, ending
// in the observed final state. ops[i].thread < 0 marks setup operations (already ordered, all before the rest).
//
// The reference also tracks WHICH row the key resolves to (tag: index of the operation that created it, -1 the null
// version, -2 no row), because concurrent deletes/puts with identical results are only ordered by the version id the
// final GET reports. mode: U, E, S, ES. finalTag: -3 = unknown/not checked.
func c12Linearize(ops []*c12COp, mode string, finalExists bool, finalBody []byte, finalVid string, finalETag string) ([]int, bool) {
	n := len(ops)
	pred := make([]uint64, n)
	for i := range ops {
		for j := range ops {
			if i == j {
				continue
			}
			if ops[j].end < ops[i].start || (ops[j].thread == ops[i].thread && j < i) {
				pred[i] |= 1 << uint(j)
			}
		}
	}
	type st struct {
		exists bool
		chunks [][]byte
		tag    int
	}
	enabled := mode == "E"
	versioned := mode != "U"
	tagOK := func(tag int) bool {
		if finalVid == "" { // NoSuchKey: nothing to compare
			return true
		}
		if finalVid == "null" {
			return tag == -1
		}
		if tag < 0 {
			return false
		}
		if ops[tag].vid != "" {
			return ops[tag].vid == finalVid
		}
		// a version created by an append carries no id in its result: recognised by its ETag
		for _, o := range ops {
			if o.vid == finalVid {
				return false
			}
		}
		return ops[tag].kind == "app" && ops[tag].etag == finalETag
	}
	seen := map[string]bool{}
	var order []int
	var rec func(done uint64, s st) bool
	rec = func(done uint64, s st) bool {
		if bitsCount(done) == n {
			if s.exists != finalExists || !tagOK(s.tag) {
				return false
			}
			var b []byte
			for _, c := range s.chunks {
				b = append(b, c...)
			}
			return !s.exists || bytes.Equal(b, finalBody)
		}
		key := strconv.FormatUint(done, 16) + "/" + strconv.FormatBool(s.exists) + "/" + strconv.Itoa(s.tag) + "/" + c12MultiETag(s.chunks)
		if seen[key] {
			return false
		}
		seen[key] = true
		for i := 0; i < n; i++ {
			if done&(1<<uint(i)) != 0 || pred[i]&^done != 0 {
				continue
			}
			op := ops[i]
			ns := s
			var cur int64
			if s.exists {
				for _, c := range s.chunks {
					cur += int64(len(c))
				}
			}
			switch op.kind {
			case "app":
				if op.acked {
					if op.usedOff && op.off != cur {
						continue
					}
					if op.size != cur+int64(len(op.chunk)) {
						continue
					}
					var base [][]byte
					if s.exists {
						base = s.chunks
					}
					nc := append(append([][]byte{}, base...), op.chunk)
					if op.etag != c12MultiETag(nc) {
						continue
					}
					tag := s.tag
					if enabled {
						tag = i
					} else if s.tag == -2 {
						tag = -1
					}
					ns = st{true, nc, tag}
				} else {
					if op.errName != "InvalidWriteOffset" || !op.usedOff || op.off == cur {
						continue
					}
				}
			case "put":
				if !op.acked {
					continue
				}
				tag := -1
				if op.vid != "" { // the bucket's versioning state at that moment decides; the result tells
					tag = i
				}
				ns = st{true, [][]byte{op.chunk}, tag}
			case "del":
				if !op.acked {
					continue
				}
				if versioned {
					ns = st{false, nil, i}
				} else {
					ns = st{false, nil, -2}
				}
			}
			order = append(order, i)
			if rec(done|1<<uint(i), ns) {
				return true
			}
			order = order[:len(order)-1]
		}
		return false
	}
	if rec(0, st{tag: -2}) {
		return append([]int{}, order...), true
	}
	return nil, false
}

func bitsCount(x uint64) int {
	n := 0
	for x != 0 {
		x &= x - 1
		n++
	}
	return n
}

// one concurrent run; returns the sequential case line and the Result
func c12RunConcurrent(r *Rng, dir string) (string, Result) {
	stack := "fs"
	if r.Chance(35) {
		stack = "sql"
	}
	mode := []string{"U", "E", "S", "ES"}[r.Intn(4)]
	env, err := metaOpen(dir, stack)
	if err != nil {
		return "mb:" + tokBytes("setup-error"), Result{Out: "SETUP-ERROR", Oracle: "FAIL:setup " + err.Error()}
	}
	defer env.close()
	st := env.st
	ctx := context.Background()
	bname, kname := "bkt1", "k1"
	b, k := storage.MustNewBucketName(bname), storage.MustNewObjectKey(kname)
	hb, hk := tokBytes(bname), tokBytes(kname)

	var line, outs []string
	vidIdx := map[string]int{}
	emit := func(l, o string) { line = append(line, l); outs = append(outs, o) }
	setVer := func(s string) {
		var cfg storage.BucketVersioningConfiguration
		v := storage.BucketVersioningStatusEnabled
		if s == "S" {
			v = storage.BucketVersioningStatusSuspended
		}
		cfg.Status = &v
		o := "ok"
		if err := st.PutBucketVersioningConfiguration(ctx, b, &cfg); err != nil {
			o = c12ErrName(err)
		}
		emit("ver:"+hb+":"+s, o)
	}
	fmtOp := func(op *c12COp, idx int) (string, string) {
		op.idx = idx
		switch op.kind {
		case "app":
			off := "-"
			if op.usedOff {
				off = strconv.FormatInt(op.off, 10)
			}
			l := "app:" + hb + ":" + hk + ":" + tokBytes(string(op.chunk)) + ":" + off
			if op.acked {
				return l, "app:" + tokBytes(op.etag) + ":" + strconv.FormatInt(op.size, 10)
			}
			return l, op.errName
		case "put":
			l := "put:" + hb + ":" + hk + ":" + tokBytes(string(op.chunk)) + ":-"
			if op.acked {
				v := "null"
				if op.vid != "" {
					v = "v" + strconv.Itoa(idx)
					vidIdx[op.vid] = idx
				}
				return l, "put:" + v + ":" + tokBytes(op.etag)
			}
			return l, op.errName
		default:
			l := "del:" + hb + ":" + hk + ":-:-"
			if op.acked {
				if op.vid != "" {
					vidIdx[op.vid] = idx
					dm := "0"
					if op.isDM {
						dm = "1"
					}
					return l, "del:v" + strconv.Itoa(idx) + ":" + dm
				}
				return l, "del:-:0"
			}
			return l, op.errName
		}
	}

	o := "ok"
	if err := st.CreateBucket(ctx, b); err != nil {
		o = c12ErrName(err)
	}
	emit("mb:"+hb, o)
	var all []*c12COp // setup ops first (thread -1), in order
	setup := func(op *c12COp) {
		op.thread = -1
		c12Exec(st, b, k, op)
		all = append(all, op)
		l, o := fmtOp(op, len(line))
		emit(l, o)
	}
	uniq := 0
	chunk := func() []byte {
		uniq++
		n := 1 + r.Intn(20)
		if r.Chance(10) {
			n = 64 + r.Intn(200)
		}
		c := r.Bytes(n + 4)
		c[0], c[1] = byte(uniq), byte(uniq>>8) // distinct chunks
		return c
	}
	switch mode {
	case "E":
		setVer("E")
	case "S":
		setVer("S")
	case "ES":
		setVer("E")
		setup(&c12COp{kind: "put", chunk: chunk()}) // a non-null latest version under a suspended bucket
		setVer("S")
	}
	var base int64
	if mode == "ES" {
		base = int64(len(all[0].chunk))
	}
	if r.Chance(60) {
		op := &c12COp{kind: "app", chunk: chunk(), offMode: "none"}
		if r.Chance(30) {
			op.kind = "put"
		}
		setup(op)
		if op.kind == "put" {
			base = int64(len(op.chunk))
		} else {
			base += int64(len(op.chunk))
		}
	}
	nThreads := 2 + r.Intn(5)
	if r.Chance(10) {
		nThreads = 8
	}
	threads := make([][]*c12COp, nThreads)
	appendOnly := true
	for t := range threads {
		own := base
		for j, m := 0, 1+r.Intn(3); j < m; j++ {
			op := &c12COp{kind: "app", chunk: chunk(), thread: t}
			switch x := r.Intn(100); {
			case x < 6:
				op.kind = "put"
				appendOnly = false
			case x < 11:
				op.kind = "del"
				op.chunk = nil
				appendOnly = false
			case x < 40:
				op.offMode = "none"
			case x < 65:
				op.offMode, op.off = "fixed", own // valid only if nobody else got in between
			case x < 85:
				op.offMode = "head"
			default:
				op.offMode, op.off = "fixed", []int64{0, base + 1, own + 3, base - 1}[r.Intn(4)]
				if op.off < 0 {
					op.off = 0
				}
			}
			own += int64(len(op.chunk))
			threads[t] = append(threads[t], op)
		}
	}
	var wg sync.WaitGroup
	gate := make(chan struct{})
	for t := range threads {
		wg.Add(1)
		go func(t int) {
			defer wg.Done()
			<-gate
			for _, op := range threads[t] {
				c12Exec(st, b, k, op)
			}
		}(t)
	}
	close(gate)
	wg.Wait()
	// final state
	obj, readers, gerr := st.GetObject(ctx, b, k, nil, nil)
	var body []byte
	if gerr == nil {
		for _, rd := range readers {
			bb, rerr := io.ReadAll(rd)
			rd.Close()
			if rerr != nil {
				gerr = rerr
			}
			body = append(body, bb...)
		}
	}
	var cdm *storage.CurrentDeleteMarkerError
	finalExists := gerr == nil
	finalReadable := gerr == nil || errors.Is(gerr, storage.ErrNoSuchKey) || errors.As(gerr, &cdm)

	nSetup := len(all)
	for t := range threads {
		all = append(all, threads[t]...)
	}
	// setup ops precede everything in real time already (they ended before the gate opened)
	tags := []string{"conc", "stack-" + stack, "mode-" + mode, "threads-" + strconv.Itoa(nThreads)}
	if appendOnly {
		tags = append(tags, "append-only")
	} else {
		tags = append(tags, "with-put-delete")
	}
	nAck, nRej := 0, 0
	for _, op := range all[nSetup:] {
		if op.kind == "app" {
			if op.acked {
				nAck++
			} else {
				nRej++
			}
		}
	}
	if nAck > 1 {
		tags = append(tags, "multi-ack")
	}
	if nRej > 0 {
		tags = append(tags, "rejected-offset")
	}
	oracle := "OK"
	// direct oracle for append-only runs: independent of the search
	if appendOnly && finalExists {
		pos := map[int]int{}
		var prefix []byte
		for _, op := range all[:nSetup] {
			if !op.acked {
				continue
			}
			if op.kind == "put" {
				prefix = append([]byte{}, op.chunk...)
			} else {
				prefix = append(prefix, op.chunk...)
			}
		}
		total := len(prefix)
		if !bytes.HasPrefix(body, prefix) {
			oracle = "FAIL:the content present before the concurrent appends is not a prefix of the final content"
		}
		for i, op := range all[nSetup:] {
			n := bytes.Count(body, op.chunk)
			if op.acked {
				total += len(op.chunk)
				at := bytes.Index(body, op.chunk)
				pos[i] = at
				if n != 1 {
					oracle = fmt.Sprintf("FAIL:acknowledged chunk of thread %d occurs %d times in the final content", op.thread, n)
				} else if op.usedOff && int64(at) != op.off {
					oracle = fmt.Sprintf("FAIL:chunk acknowledged for write offset %d sits at %d", op.off, at)
				} else if op.size != int64(at+len(op.chunk)) {
					oracle = fmt.Sprintf("FAIL:append reported size %d but its chunk ends at %d", op.size, at+len(op.chunk))
				}
			} else if n != 0 {
				oracle = fmt.Sprintf("FAIL:rejected chunk of thread %d is part of the final content", op.thread)
			}
		}
		if oracle == "OK" && total != len(body) {
			oracle = fmt.Sprintf("FAIL:final content has %d bytes, acknowledged content %d", len(body), total)
		}
	}
	if !finalReadable {
		oracle = "FAIL:final GET failed: " + gerr.Error()
	}
	finalVid, finalETag := "", ""
	if gerr == nil {
		finalVid, finalETag = "null", obj.ETag
		if obj.VersionID != nil && *obj.VersionID != "" {
			finalVid = *obj.VersionID
		}
	} else if errors.As(gerr, &cdm) {
		finalVid = cdm.VersionID
	}
	order, ok := c12Linearize(all, mode, finalExists, body, finalVid, finalETag)
	if !ok {
		if oracle == "OK" {
			oracle = "FAIL:not linearizable: no order of the operations consistent with program order, real time, the per-operation results and the final content"
		}
		order = make([]int, len(all))
		for i := range order {
			order[i] = i
		}
		sort.SliceStable(order, func(x, y int) bool { return all[order[x]].end < all[order[y]].end })
		tags = append(tags, "not-linearizable")
	}
	lastWrite := -1
	for _, i := range order {
		op := all[i]
		if i < nSetup {
			if op.acked && op.kind != "del" {
				lastWrite = op.idx
			}
			continue
		}
		l, o := fmtOp(op, len(line))
		emit(l, o)
		if op.acked && op.kind != "del" {
			lastWrite = op.idx
		}
	}
	// final get
	fo := "Other"
	switch {
	case gerr == nil:
		vn := "null"
		if obj.VersionID != nil && *obj.VersionID != "null" {
			if i, ok := vidIdx[*obj.VersionID]; ok {
				vn = "v" + strconv.Itoa(i)
			} else {
				vn = "v?"
				for _, i := range order { // version created by an append: recognised by its ETag
					if op := all[i]; op.kind == "app" && op.acked && op.etag == obj.ETag {
						vn = "v" + strconv.Itoa(op.idx)
					}
				}
			}
		}
		fo = strings.Join([]string{"obj", vn, tokBytes(obj.ETag), strconv.FormatInt(obj.Size, 10), strconv.Itoa(lastWrite), "N", tokBytes(string(body))}, ":")
	case errors.As(gerr, &cdm):
		fo = "CurrentDM:v?"
		if i, ok := vidIdx[cdm.VersionID]; ok {
			fo = "CurrentDM:v" + strconv.Itoa(i)
		}
	case errors.Is(gerr, storage.ErrNoSuchKey):
		fo = "NoSuchKey"
	}
	emit("get:"+hb+":"+hk+":-", fo)
	l, out := strings.Join(line, " "), strings.Join(outs, " ")
	if oracle == "OK" {
		// the by-key reference on the sequential history must agree as well
		if o2, _ := c12Oracle(l, out); strings.HasPrefix(o2, "FAIL") {
			oracle = o2
		}
	}
	return l, Result{Out: out, Oracle: oracle, Tags: tags}
}

// ---------------------------------------------------------------- Property

func (p *c12Prop) Gen(r *Rng, tier string, n int) []string {
	nConc := n * 45 / 100
	out := make([]string, 0, n)
	for i := 0; i < n-nConc; i++ {
		out = append(out, c12GenSeq(r.Fork()))
	}
	root, err := os.MkdirTemp("", "b-conc-c12-")
	if err != nil {
		return out
	}
	defer os.RemoveAll(root)
	os.MkdirAll(root+"/t", 0o755)
	lines := make([]string, nConc)
	rngs := make([]*Rng, nConc)
	for i := range rngs {
		rngs[i] = r.Fork()
	}
	var wg sync.WaitGroup
	jobs := make(chan int)
	workers := runtime.NumCPU() / 2
	if workers < 1 {
		workers = 1
	}
	for w := 0; w < workers; w++ {
		wg.Add(1)
		go func() {
			defer wg.Done()
			for i := range jobs {
				dir := fmt.Sprintf("%s/t/c%d", root, i)
				os.MkdirAll(dir, 0o755)
				l, res := c12RunConcurrent(rngs[i], dir)
				os.RemoveAll(dir)
				c12Cache.Store(l, res)
				lines[i] = l
			}
		}()
	}
	for i := 0; i < nConc; i++ {
		jobs <- i
	}
	close(jobs)
	wg.Wait()
	out = append(out, lines...)
	// READ COMMITTED emulation (harness/ip*.go): all statement boundaries of append victims x rivals
	return append(out, ipGen(r.Fork(), "C12", 8+n/40)...)
}

func (p *c12Prop) Run(in string, scratch string) Result {
	if v, ok := c12Cache.Load(in); ok {
		return v.(Result)
	}
	if strings.HasPrefix(in, "IP ") {
		return ipRunProp(in, scratch, "C12")
	}
	stack := "fs"
	if crc32.ChecksumIEEE([]byte(in))%3 == 0 {
		stack = "sql"
	}
	if crc32.ChecksumIEEE([]byte(in+"#http"))%4 == 0 { // the sequential histories also go through the HTTP handlers
		stack = "http"
	}
	emptyChunk := false
	for _, tok := range strings.Split(in, " ") {
		f := strings.Split(tok, ":")
		if (f[0] == "app" && len(f) == 5 && f[3] == "-") || (f[0] == "up" && len(f) == 6 && f[5] == "-") {
			emptyChunk = true
		}
	}
	if v := os.Getenv("VERIF_C12_STACK"); v != "" { // developer aid: force the part store
		stack = v
	}
	m, err := metaNewRun(scratch, stack)
	if err != nil {
		return Result{Out: "SETUP-ERROR " + err.Error(), Oracle: "FAIL:setup " + err.Error()}
	}
	defer m.env.close()
	out := m.exec(in)
	oracle, tags := c12Oracle(in, out)
	tags = append([]string{"seq", "stack-" + stack}, tags...)
	if emptyChunk {
		tags = append(tags, "empty-chunk")
	}
	if strings.Contains(in, ":E ") || strings.Contains(in, ":S ") {
		tags = append(tags, "versioned")
	}
	return Result{Out: out, Oracle: oracle, Tags: tags}
}
