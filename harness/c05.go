//go:build verif

package main

import (
	"bytes"
	"context"
	"crypto/sha1"
	"encoding/hex"
	"fmt"
	"io"
	"log/slog"
	"math/big"
	"mime"
	"mime/multipart"
	"net/http"
	"net/http/httptest"
	"os"
	"path/filepath"
	"regexp"
	"strconv"
	"strings"
	"sync"

	"github.com/jdillenkofer/pithos/internal/http/server"
	luaauth "github.com/jdillenkofer/pithos/internal/http/server/authorization/lua"
	"github.com/jdillenkofer/pithos/internal/storage"
	repositoryFactory "github.com/jdillenkofer/pithos/internal/storage/database/repository"
	"github.com/jdillenkofer/pithos/internal/storage/database/sqlite"
	"github.com/jdillenkofer/pithos/internal/storage/metadatapart"
	sqlMetadataStore "github.com/jdillenkofer/pithos/internal/storage/metadatapart/metadatastore/sql"
	"github.com/jdillenkofer/pithos/internal/storage/metadatapart/partstore"
	filesystemPartStore "github.com/jdillenkofer/pithos/internal/storage/metadatapart/partstore/filesystem"
	"github.com/jdillenkofer/pithos/internal/storage/metadatapart/partstore/middlewares/compression"
	"github.com/jdillenkofer/pithos/internal/storage/metadatapart/partstore/middlewares/encryption/tink"
	sqlPartStore "github.com/jdillenkofer/pithos/internal/storage/metadatapart/partstore/sql"
)

// C05 — range reads. Case line: <kind> <hdr hex> <parts tok_list> <opt>  (see coq/Model/Range.v)
//   kind P: pure functions (parseRangeHeader, normalizeAndValidateRanges, createRangeReader over an
//           in-memory part store, generateContentRangeValue); opt = s|n (seekable part readers or not)
//   kind H: GET through server.SetupServer over a real metadatapart storage; opt = stack name
type c05 struct{}

func init() { register("C05", c05{}) }

func (c05) Parallel() bool { return true }

// ---------------------------------------------------------------------------------------------
// independent RFC 7233 reading of a Range header (the oracle's own parser; big integers)
type c05Spec struct {
	first, last *big.Int // last == nil: open ended
	suffix      *big.Int // non-nil: suffix range
}

var c05ItemRe = regexp.MustCompile(`^(?:([0-9]+)-([0-9]*)|-([0-9]+))$`)

// returns (specs, unitExact, valid). valid = the sender grammar of RFC 7233 §2.1 / RFC 7230 §7:
// bytes-unit "=" item *( OWS "," OWS item ), unit case-insensitive, last >= first when present.
func c05ParseRFC(h string) ([]c05Spec, bool, bool) {
	eq := strings.IndexByte(h, '=')
	if eq < 0 {
		return nil, false, false
	}
	unit := h[:eq]
	if !strings.EqualFold(unit, "bytes") {
		return nil, false, false
	}
	var specs []c05Spec
	for _, it := range strings.Split(h[eq+1:], ",") {
		it = strings.Trim(it, " \t")
		m := c05ItemRe.FindStringSubmatch(it)
		if m == nil {
			return nil, false, false
		}
		if m[3] != "" {
			n, _ := new(big.Int).SetString(m[3], 10)
			specs = append(specs, c05Spec{suffix: n})
			continue
		}
		f, _ := new(big.Int).SetString(m[1], 10)
		var l *big.Int
		if m[2] != "" {
			l, _ = new(big.Int).SetString(m[2], 10)
			if l.Cmp(f) < 0 {
				return nil, false, false
			}
		}
		specs = append(specs, c05Spec{first: f, last: l})
	}
	return specs, unit == "bytes", true
}

// satisfiable + resolved inclusive positions against a representation of the given size
func (s c05Spec) resolve(size int64) (int64, int64, bool) {
	if size == 0 {
		return 0, 0, false
	}
	sz := big.NewInt(size)
	if s.suffix != nil {
		if s.suffix.Sign() == 0 {
			return 0, 0, false
		}
		n := size
		if s.suffix.Cmp(sz) < 0 {
			n = s.suffix.Int64()
		}
		return size - n, size - 1, true
	}
	if s.first.Cmp(sz) >= 0 {
		return 0, 0, false
	}
	last := size - 1
	if s.last != nil && s.last.Cmp(sz) < 0 {
		last = s.last.Int64()
	}
	return s.first.Int64(), last, true
}

var c05MaxInt64 = new(big.Int).SetUint64(1<<63 - 1)

// known-finding regions, computed from the input alone
func c05Regions(h string, size int64, kind string) (tags []string) {
	if h == "" {
		return
	}
	specs, exact, valid := c05ParseRFC(h)
	if !valid {
		return
	}
	sat, unsat, huge := 0, 0, false
	for _, s := range specs {
		if _, _, ok := s.resolve(size); ok {
			sat++
		} else {
			unsat++
		}
		for _, n := range []*big.Int{s.first, s.suffix} {
			if n != nil && n.Cmp(c05MaxInt64) > 0 {
				huge = true
			}
		}
		if s.last != nil && s.last.Cmp(c05MaxInt64) >= 0 {
			huge = true
		}
	}
	if sat > 0 && !exact {
		tags = append(tags, "kf:C05-range-unit-case-416")
	}
	if sat > 0 && huge {
		tags = append(tags, "kf:C05-int64-extreme-416")
	}
	if sat > 0 && unsat > 0 {
		tags = append(tags, "kf:C05-multirange-one-unsatisfiable-416")
	}
	return
}

// ---------------------------------------------------------------------------------------------
func c05ShowOpt(p *int64) string {
	if p == nil {
		return "N"
	}
	return strconv.FormatInt(*p, 10)
}
func c05ShowRanges(rs []storage.ByteRange) string {
	if len(rs) == 0 {
		return "_"
	}
	out := make([]string, len(rs))
	for i, r := range rs {
		out[i] = c05ShowOpt(r.Start) + ".." + c05ShowOpt(r.End)
	}
	return strings.Join(out, ";")
}

func c05Tags(kind, h string, parts []string, size int64) []string {
	tags := []string{"kind:" + kind}
	specs, _, valid := c05ParseRFC(h)
	switch {
	case h == "":
		tags = append(tags, "no-range")
	case !valid:
		tags = append(tags, "malformed")
	default:
		if len(specs) > 1 {
			tags = append(tags, "multi")
		} else {
			tags = append(tags, "single")
		}
		cross := false
		for _, s := range specs {
			if s.suffix != nil {
				tags = append(tags, "suffix")
			} else if s.last == nil {
				tags = append(tags, "open")
			}
			if f, l, ok := s.resolve(size); ok {
				// does the slice cross a part boundary?
				off := int64(0)
				for _, p := range parts {
					end := off + int64(len(p))
					if f < end && l >= end && end < size {
						cross = true
					}
					off = end
				}
			} else {
				tags = append(tags, "unsat")
			}
		}
		if cross {
			tags = append(tags, "cross-part")
		}
	}
	if size == 0 {
		tags = append(tags, "size0")
	}
	if len(parts) > 1 {
		tags = append(tags, "multipart-object")
	}
	return c05Dedup(append(tags, c05Regions(h, size, kind)...))
}

func c05Dedup(in []string) []string {
	seen := map[string]bool{}
	var out []string
	for _, t := range in {
		if !seen[t] {
			seen[t] = true
			out = append(out, t)
		}
	}
	return out
}

func (c05) Run(in string, scratch string) Result {
	tok := strings.Split(in, " ")
	if len(tok) != 4 {
		return Result{Out: "PARSE-ERROR", Tags: []string{"bad-line"}}
	}
	kind, h, parts, opt := tok[0], untokBytes(tok[1]), untokList(tok[2]), tok[3]
	content := strings.Join(parts, "")
	size := int64(len(content))
	tags := c05Tags(kind, h, parts, size)
	switch kind {
	case "P":
		out, oracle := c05RunPure(h, parts, content, opt == "s")
		return Result{Out: out, Oracle: oracle, Tags: tags}
	case "H":
		out, oracle := c05RunHTTP(h, parts, content, opt, scratch)
		return Result{Out: out, Oracle: oracle, Tags: tags}
	}
	return Result{Out: "PARSE-ERROR", Tags: []string{"bad-line"}}
}

// ---- kind P -----------------------------------------------------------------------------------
func c05RunPure(h string, parts []string, content string, seekable bool) (string, string) {
	size := int64(len(content))
	specs, _, valid := c05ParseRFC(h)
	anySat := false
	for _, s := range specs {
		if _, _, ok := s.resolve(size); ok {
			anySat = true
		}
	}
	rejected := func(why string) string { // the pipeline refused the header
		if valid && anySat {
			return "FAIL:" + why + " although a requested range is satisfiable"
		}
		if valid {
			return "OK"
		}
		return "-"
	}
	rs, err := server.VerifC05ParseRangeHeader(h)
	if err != nil {
		return "PARSE_ERR", rejected("parse error")
	}
	nrs, err := metadatapart.VerifC05NormalizeAndValidateRanges(rs, size)
	if err != nil {
		return c05ShowRanges(rs) + " NORM_ERR", rejected("InvalidRange")
	}
	bparts := make([][]byte, len(parts))
	for i, p := range parts {
		bparts[i] = []byte(p)
	}
	readers := make([]string, len(nrs))
	datas := make([][]byte, len(nrs))
	allOK := true
	for i, r := range nrs {
		plan, empty, data, err := metadatapart.VerifC05CreateRangeReader(bparts, size, r, seekable)
		switch {
		case err == storage.ErrInvalidRange:
			readers[i] = "INVALID"
			allOK = false
		case err != nil:
			readers[i] = "INTERNAL"
			allOK = false
		case empty:
			readers[i] = "E"
		default:
			segs := make([]string, len(plan))
			for k, s := range plan {
				segs[k] = fmt.Sprintf("%d/%d/%d", s.Index, s.Skip, s.Limit)
			}
			readers[i] = strings.Join(segs, "+") + ":" + tokBytes(string(data))
		}
		datas[i] = data
	}
	rd := "_"
	if len(readers) > 0 {
		rd = strings.Join(readers, ";")
	}
	out := []string{c05ShowRanges(rs), c05ShowRanges(nrs), rd}
	if !allOK {
		return strings.Join(out, " "), rejected("InvalidRange from createRangeReader")
	}
	crs := make([]string, len(rs))
	for i, r := range rs {
		crs[i] = server.VerifC05GenerateContentRangeValue(r, size)
	}
	out = append(out, tokList(crs))
	// direct oracle: every reader delivers exactly the RFC slice and the Content-Range names it
	oracle := "-"
	if valid {
		oracle = "OK"
		if len(specs) != len(nrs) {
			oracle = fmt.Sprintf("FAIL:%d ranges requested, %d readers", len(specs), len(nrs))
		}
		for i, s := range specs {
			if i >= len(nrs) {
				break
			}
			f, l, ok := s.resolve(size)
			if !ok {
				oracle = fmt.Sprintf("FAIL:range %d is unsatisfiable but a reader was opened", i)
				break
			}
			if string(datas[i]) != content[f:l+1] {
				oracle = fmt.Sprintf("FAIL:range %d: reader delivered %x, RFC slice [%d,%d] is %x", i, datas[i], f, l, content[f:l+1])
				break
			}
			if want := fmt.Sprintf("bytes %d-%d/%d", f, l, size); crs[i] != want {
				oracle = fmt.Sprintf("FAIL:range %d: Content-Range %q, want %q", i, crs[i], want)
				break
			}
		}
	}
	return strings.Join(out, " "), oracle
}

// ---- kind H -----------------------------------------------------------------------------------
type c05Stack struct {
	mu      sync.Mutex
	store   storage.Storage
	handler http.Handler
	objects map[string]bool
	err     error
}

var c05Stacks = map[string]*c05Stack{}
var c05StacksMu sync.Mutex

const c05Bucket = "c05bucket"

func c05GetStack(name string, scratch string) *c05Stack {
	c05StacksMu.Lock()
	defer c05StacksMu.Unlock()
	if s, ok := c05Stacks[name]; ok {
		return s
	}
	s := &c05Stack{objects: map[string]bool{}}
	c05Stacks[name] = s
	slog.SetDefault(slog.New(slog.NewTextHandler(io.Discard, nil))) // the server logs every request
	// lives for the whole harness process; the root scratch directory is removed by the caller of the harness
	dir, err := os.MkdirTemp(filepath.Dir(scratch), "c05-"+name+"-")
	if err != nil {
		s.err = err
		return s
	}
	s.store, s.err = c05BuildStorage(name, dir)
	if s.err != nil {
		return s
	}
	ctx := context.Background()
	if s.err = s.store.Start(ctx); s.err != nil {
		return s
	}
	if s.err = s.store.CreateBucket(ctx, storage.MustNewBucketName(c05Bucket)); s.err != nil {
		return s
	}
	authz, err := luaauth.NewLuaAuthorizer("function authorizeRequest(request)\n return true\nend\n")
	if err != nil {
		s.err = err
		return s
	}
	s.handler = server.SetupServer(nil, "eu-central-1", "s3.localhost", "s3-website.localhost", authz, s.store)
	return s
}

func c05BuildStorage(stack string, dir string) (storage.Storage, error) {
	db, err := sqlite.OpenDatabase(filepath.Join(dir, "pithos.db"))
	if err != nil {
		return nil, err
	}
	var ps partstore.PartStore
	switch stack {
	case "sql":
		repo, err := repositoryFactory.NewPartContentRepository(db)
		if err != nil {
			return nil, err
		}
		ps, err = sqlPartStore.New(db, repo)
		if err != nil {
			return nil, err
		}
	default:
		ps, err = filesystemPartStore.New(filepath.Join(dir, "parts"))
		if err != nil {
			return nil, err
		}
		switch stack {
		case "tink":
			ps, err = tink.NewWithLocalKMS("c05-password", ps, nil)
		case "zstd":
			ps, err = compression.New(ps)
		}
		if err != nil {
			return nil, err
		}
	}
	bucketRepository, err := repositoryFactory.NewBucketRepository(db)
	if err != nil {
		return nil, err
	}
	objectRepository, err := repositoryFactory.NewObjectRepository(db)
	if err != nil {
		return nil, err
	}
	partRepository, err := repositoryFactory.NewPartRepository(db)
	if err != nil {
		return nil, err
	}
	tagRepository, err := repositoryFactory.NewTagRepository(db)
	if err != nil {
		return nil, err
	}
	userMetadataRepository, err := repositoryFactory.NewUserMetadataRepository(db)
	if err != nil {
		return nil, err
	}
	ms, err := sqlMetadataStore.New(db, bucketRepository, objectRepository, partRepository, tagRepository, userMetadataRepository)
	if err != nil {
		return nil, err
	}
	return metadatapart.NewStorage(db, ms, ps)
}

// the object for a part list is created once per stack: one PutObject for a single part (or none),
// otherwise a multipart upload with exactly these parts
func (s *c05Stack) ensureObject(parts []string) (string, error) {
	sum := sha1.Sum([]byte(tokList(parts)))
	key := "o-" + hex.EncodeToString(sum[:8])
	s.mu.Lock()
	defer s.mu.Unlock()
	if s.objects[key] {
		return key, nil
	}
	ctx := context.Background()
	b, k := storage.MustNewBucketName(c05Bucket), storage.MustNewObjectKey(key)
	if len(parts) <= 1 {
		if _, err := s.store.PutObject(ctx, b, k, nil, strings.NewReader(strings.Join(parts, "")), nil, nil); err != nil {
			return "", err
		}
	} else {
		up, err := s.store.CreateMultipartUpload(ctx, b, k, nil, nil, nil)
		if err != nil {
			return "", err
		}
		for i, p := range parts {
			if _, err := s.store.UploadPart(ctx, b, k, up.UploadId, int32(i+1), strings.NewReader(p), nil); err != nil {
				return "", err
			}
		}
		if _, err := s.store.CompleteMultipartUpload(ctx, b, k, up.UploadId, nil, nil); err != nil {
			return "", err
		}
	}
	s.objects[key] = true
	return key, nil
}

func c05RunHTTP(h string, parts []string, content string, stack string, scratch string) (string, string) {
	s := c05GetStack(stack, scratch)
	if s.err != nil {
		return "SETUP-ERROR", "FAIL:setup: " + s.err.Error()
	}
	key, err := s.ensureObject(parts)
	if err != nil {
		return "SETUP-ERROR", "FAIL:object creation: " + err.Error()
	}
	req := httptest.NewRequest("GET", "http://s3.localhost/"+c05Bucket+"/"+key, nil)
	req.Host = "s3.localhost"
	if h != "" {
		req.Header["Range"] = []string{h}
	}
	rec := httptest.NewRecorder()
	s.handler.ServeHTTP(rec, req)
	res := rec.Result()
	body, _ := io.ReadAll(res.Body)
	size := int64(len(content))
	cl := res.Header.Get("Content-Length")
	cr := res.Header.Get("Content-Range")

	// ---- observable line
	var out string
	type gotPart struct{ cr, data string }
	var got []gotPart
	multipartOK := true
	switch res.StatusCode {
	case 416, 500:
		out = strconv.Itoa(res.StatusCode)
	case 200:
		out = fmt.Sprintf("200 %s %s", cl, tokBytes(string(body)))
	case 206:
		mt, params, _ := mime.ParseMediaType(res.Header.Get("Content-Type"))
		if mt == "multipart/byteranges" {
			mr := multipart.NewReader(bytes.NewReader(body), params["boundary"])
			var canon bytes.Buffer
			for i := 0; ; i++ {
				p, err := mr.NextRawPart()
				if err != nil {
					break
				}
				d, _ := io.ReadAll(p)
				got = append(got, gotPart{p.Header.Get("Content-Range"), string(d)})
				if i > 0 {
					canon.WriteString("\r\n")
				}
				fmt.Fprintf(&canon, "--%s\r\nContent-Range: %s\r\n\r\n%s", params["boundary"], p.Header.Get("Content-Range"), d)
			}
			fmt.Fprintf(&canon, "\r\n--%s--\r\n", params["boundary"])
			multipartOK = bytes.Equal(canon.Bytes(), body) && len(params["boundary"]) == 26
			items := make([]string, len(got))
			for i, g := range got {
				items[i] = tokBytes(g.cr) + ":" + tokBytes(g.data)
			}
			out = fmt.Sprintf("206M %s %s", cl, strings.Join(items, ","))
			if !multipartOK {
				out += " FRAMING"
			}
		} else {
			out = fmt.Sprintf("206 %s %s %s", cl, tokBytes(cr), tokBytes(string(body)))
		}
	default:
		out = fmt.Sprintf("STATUS%d", res.StatusCode)
	}

	// ---- direct oracle: RFC 7233 on the response, from the known content
	specs, _, valid := c05ParseRFC(h)
	if h != "" && !valid {
		return out, "-" // the property speaks about syntactically valid headers only
	}
	fail := func(f string, a ...any) (string, string) { return out, "FAIL:" + fmt.Sprintf(f, a...) }
	if cl != "" && cl != strconv.Itoa(len(body)) && res.StatusCode/100 == 2 {
		return fail("Content-Length %s but body has %d bytes", cl, len(body))
	}
	if h == "" {
		if res.StatusCode != 200 || string(body) != content || cl != strconv.FormatInt(size, 10) {
			return fail("GET without Range: status %d, %d body bytes, want 200 with the %d content bytes", res.StatusCode, len(body), size)
		}
		return out, "OK"
	}
	type want struct{ f, l int64 }
	var wants []want
	for _, sp := range specs {
		if f, l, ok := sp.resolve(size); ok {
			wants = append(wants, want{f, l})
		}
	}
	if len(wants) == 0 {
		if res.StatusCode != 416 {
			return fail("no range satisfiable but status %d", res.StatusCode)
		}
		return out, "OK"
	}
	if res.StatusCode != 206 {
		return fail("status %d although %d of %d ranges are satisfiable", res.StatusCode, len(wants), len(specs))
	}
	if got == nil {
		if len(wants) != 1 {
			return fail("single-part 206 for %d satisfiable ranges", len(wants))
		}
		got = []gotPart{{cr, string(body)}}
		if cl != strconv.FormatInt(wants[0].l-wants[0].f+1, 10) {
			return fail("Content-Length %s, want %d", cl, wants[0].l-wants[0].f+1)
		}
	} else if !multipartOK {
		return fail("multipart/byteranges framing is not canonical")
	}
	if len(got) != len(wants) {
		return fail("%d body parts for %d satisfiable ranges", len(got), len(wants))
	}
	for i, w := range wants {
		if wantCR := fmt.Sprintf("bytes %d-%d/%d", w.f, w.l, size); got[i].cr != wantCR {
			return fail("part %d: Content-Range %q, want %q", i, got[i].cr, wantCR)
		}
		if got[i].data != content[w.f:w.l+1] {
			return fail("part %d: body %x, want %x", i, got[i].data, content[w.f:w.l+1])
		}
	}
	return out, "OK"
}

// ---- generator ----------------------------------------------------------------------------------
var c05Alphabet = "abcdefghijklmnopqrstuvwxyzABCDEFGHIJKLMNOPQRSTUVWXYZ0123456789"

func c05GenParts(r *Rng, allowEmptyPart bool) []string {
	var n int
	switch k := r.Intn(100); {
	case k < 6:
		n = 0
	case k < 26:
		n = 1
	case k < 56:
		n = 2
	case k < 86:
		n = 3
	default:
		n = 4 + r.Intn(2)
	}
	parts := make([]string, n)
	pos := 0
	for i := range parts {
		l := 1 + r.Intn(4)
		if r.Chance(15) {
			l = 5 + r.Intn(8)
		}
		if allowEmptyPart && r.Chance(8) {
			l = 0
		}
		b := make([]byte, l)
		for k := range b {
			b[k] = c05Alphabet[(pos+k)%len(c05Alphabet)]
		}
		if r.Chance(10) { // identical parts (deduplicated by the storage)
			for k := range b {
				b[k] = 'x'
			}
		}
		pos += l
		parts[i] = string(b)
	}
	return parts
}

// boundary-biased position for an object with the given part sizes
func c05Pos(r *Rng, parts []string) string {
	size := 0
	var edges []int
	for _, p := range parts {
		size += len(p)
		edges = append(edges, size)
	}
	switch k := r.Intn(100); {
	case k < 40 && len(edges) > 0:
		e := edges[r.Intn(len(edges))] + r.Intn(3) - 1
		if e < 0 {
			e = 0
		}
		return strconv.Itoa(e)
	case k < 70:
		return strconv.Itoa(r.Intn(size + 3))
	case k < 78:
		return "0"
	case k < 84:
		return r.Pick([]string{"9223372036854775806", "9223372036854775807", "9223372036854775808", "18446744073709551615", "18446744073709551616", "99999999999999999999999"})
	case k < 88:
		return "00" + strconv.Itoa(r.Intn(size+2))
	default:
		return strconv.Itoa(size + r.Intn(1000))
	}
}

func c05GenItem(r *Rng, parts []string) string {
	switch k := r.Intn(100); {
	case k < 55:
		a := c05Pos(r, parts)
		b := c05Pos(r, parts)
		if x, e1 := strconv.ParseInt(a, 10, 64); e1 == nil {
			if y, e2 := strconv.ParseInt(b, 10, 64); e2 == nil && y < x && r.Chance(85) {
				a, b = b, a
			}
		}
		return a + "-" + b
	case k < 75:
		return c05Pos(r, parts) + "-"
	default:
		return "-" + c05Pos(r, parts)
	}
}

var c05Malformed = []string{"bytes", "bytes=", "bytes=-", "bytes=--1", "bytes=1--2", "bytes=a-b", "bytes=1-2-3", "bytes=,", "bytes=0-1,",
	",", "=", "=0-1", "items=0-1", "bytes =0-1", " bytes=0-1", "bytes= 0-1", "bytes=0 -1", "bytes=0- 1", "bytes=+1-2", "bytes=1-+2", "bytes=-+2",
	"bytes=0x1-2", "bytes=1_0-20", "bytes=0-1;2-3", "bytes=0-1=2", "bytes==0-1", "bytes=\t0-1\t", "bytes=0-1\n", "bytes=\v0-1", "bytes=0-1 , 2-3",
	"bytes=--9223372036854775808", "bytes=-9223372036854775808", "bytes=-9223372036854775809", "bytes=9223372036854775807-", "bytes=9223372036854775808-",
	"bytes=0--9223372036854775808", "bytes=-0", "bytes=-00", "bytes=5-2", "bytes=1-0", "bytes=0-0", "bytes=0-", "bytes=-1", "BYTES=0-1", "Bytes=0-", "bYtEs=-2"}

func c05GenHeader(r *Rng, parts []string) string {
	k := r.Intn(100)
	switch {
	case k < 4:
		return ""
	case k < 16:
		h := r.Pick(c05Malformed)
		if r.Chance(30) { // splice a malformed piece into a list
			h = "bytes=" + c05GenItem(r, parts) + "," + strings.TrimPrefix(h, "bytes=")
		}
		return h
	}
	n := 1
	if k >= 60 {
		n = 2 + r.Intn(3)
	}
	items := make([]string, n)
	for i := range items {
		it := c05GenItem(r, parts)
		if r.Chance(12) {
			it = r.Pick([]string{" ", "\t", "  "}) + it
		}
		if r.Chance(8) {
			it = it + r.Pick([]string{" ", "\t"})
		}
		items[i] = it
	}
	unit := "bytes"
	if r.Chance(3) {
		unit = r.Pick([]string{"Bytes", "BYTES", "byteS", "byte", "bytess", "none"})
	}
	return unit + "=" + strings.Join(items, ",")
}

var c05HTTPStacks = []string{"fs", "sql", "tink", "zstd"}

func (c05) Gen(r *Rng, tier string, n int) []string {
	// HTTP cases are ~100x more expensive than pure ones: a fixed share, on a small pool of objects
	nh := n / 12
	var pool [][]string
	for i := 0; i < 10+nh/40; i++ {
		pool = append(pool, c05GenParts(r, false))
	}
	cases := make([]string, 0, n)
	for i := 0; i < nh; i++ {
		parts := pool[r.Intn(len(pool))]
		cases = append(cases, strings.Join([]string{"H", tokBytes(c05GenHeader(r, parts)), tokList(parts), r.Pick(c05HTTPStacks)}, " "))
	}
	for len(cases) < n {
		parts := c05GenParts(r, true)
		cases = append(cases, strings.Join([]string{"P", tokBytes(c05GenHeader(r, parts)), tokList(parts), r.Pick([]string{"s", "n"})}, " "))
	}
	return cases
}
