//go:build verif

package main

import (
	"bytes"
	"context"
	"crypto/md5"
	"database/sql"
	"encoding/hex"
	"errors"
	"fmt"
	"io"
	"os"
	"path/filepath"
	"runtime/debug"
	"sort"
	"strconv"
	"strings"
	"sync"
	"sync/atomic"
	"time"

	"github.com/jdillenkofer/pithos/internal/storage"
	"github.com/jdillenkofer/pithos/internal/storage/database"
	repositoryFactory "github.com/jdillenkofer/pithos/internal/storage/database/repository"
	storageOutboxEntry "github.com/jdillenkofer/pithos/internal/storage/database/repository/storageoutboxentry"
	"github.com/jdillenkofer/pithos/internal/storage/database/sqlite"
	"github.com/jdillenkofer/pithos/internal/storage/metadatapart"
	"github.com/jdillenkofer/pithos/internal/storage/metadatapart/metadatastore"
	sqlMetadataStore "github.com/jdillenkofer/pithos/internal/storage/metadatapart/metadatastore/sql"
	filesystemPartStore "github.com/jdillenkofer/pithos/internal/storage/metadatapart/partstore/filesystem"
	"github.com/jdillenkofer/pithos/internal/storage/outbox"
	"github.com/prometheus/client_golang/prometheus"
)

// C21 — storage outbox: read-your-writes and convergence.
// Case line: <buckets> <keys> <op>...   (see coq/Model/StorageOutbox.v for the op syntax).
// The REAL outbox storage runs over a REAL MetadataPartStorage (own SQLite DB + filesystem part
// store); the worker is the real one (Start), stepped through a gate in an inner-storage double:
// calls without the client marker in their context are the worker's replays and each needs one
// permit ("W"). A repository double (pure delegation) reports when a client's polling loop has
// found an entry it must wait for, so "blocked" is observed without timing guesses.
type c21 struct{}

func init() { register("C21", c21{}) }

func (c21) Parallel() bool { return true }

// ---------------------------------------------------------------------------------- doubles

type c21CtxKey struct{}

type c21Trace struct {
	mu      sync.Mutex
	lastID  string
	blocked chan struct{}
	once    sync.Once
}

type c21Repo struct {
	storageOutboxEntry.Repository
	claimStarts atomic.Int64 // ClaimFirst calls begun (the worker claims again only after finalize committed)
}

func (r *c21Repo) sawLast(ctx context.Context, e *storageOutboxEntry.Entity) {
	if tr, ok := ctx.Value(c21CtxKey{}).(*c21Trace); ok && e != nil {
		tr.mu.Lock()
		tr.lastID = e.Id.String()
		tr.mu.Unlock()
	}
}
func (r *c21Repo) sawFirst(ctx context.Context, e *storageOutboxEntry.Entity) {
	if tr, ok := ctx.Value(c21CtxKey{}).(*c21Trace); ok && e != nil {
		tr.mu.Lock()
		last := tr.lastID
		tr.mu.Unlock()
		if last != "" && e.Id.String() <= last { // ULID strings order like the ids
			tr.once.Do(func() { close(tr.blocked) })
		}
	}
}
func (r *c21Repo) FindLastStorageOutboxEntryForBucket(ctx context.Context, tx *sql.Tx, id string, b storage.BucketName) (*storageOutboxEntry.Entity, error) {
	e, err := r.Repository.FindLastStorageOutboxEntryForBucket(ctx, tx, id, b)
	r.sawLast(ctx, e)
	return e, err
}
func (r *c21Repo) FindFirstStorageOutboxEntryForBucket(ctx context.Context, tx *sql.Tx, id string, b storage.BucketName) (*storageOutboxEntry.Entity, error) {
	e, err := r.Repository.FindFirstStorageOutboxEntryForBucket(ctx, tx, id, b)
	r.sawFirst(ctx, e)
	return e, err
}
func (r *c21Repo) FindLastStorageOutboxEntryForBucketAndKeyIncludingGlobal(ctx context.Context, tx *sql.Tx, id string, b storage.BucketName, k string) (*storageOutboxEntry.Entity, error) {
	e, err := r.Repository.FindLastStorageOutboxEntryForBucketAndKeyIncludingGlobal(ctx, tx, id, b, k)
	r.sawLast(ctx, e)
	return e, err
}
func (r *c21Repo) FindFirstStorageOutboxEntryForBucketAndKeyIncludingGlobal(ctx context.Context, tx *sql.Tx, id string, b storage.BucketName, k string) (*storageOutboxEntry.Entity, error) {
	e, err := r.Repository.FindFirstStorageOutboxEntryForBucketAndKeyIncludingGlobal(ctx, tx, id, b, k)
	r.sawFirst(ctx, e)
	return e, err
}
func (r *c21Repo) FindLastGlobalStorageOutboxEntry(ctx context.Context, tx *sql.Tx, id string) (*storageOutboxEntry.Entity, error) {
	e, err := r.Repository.FindLastGlobalStorageOutboxEntry(ctx, tx, id)
	r.sawLast(ctx, e)
	return e, err
}
func (r *c21Repo) FindFirstGlobalStorageOutboxEntry(ctx context.Context, tx *sql.Tx, id string) (*storageOutboxEntry.Entity, error) {
	e, err := r.Repository.FindFirstGlobalStorageOutboxEntry(ctx, tx, id)
	r.sawFirst(ctx, e)
	return e, err
}
func (r *c21Repo) FindLastGlobalStorageOutboxEntryForBucket(ctx context.Context, tx *sql.Tx, id string, b storage.BucketName) (*storageOutboxEntry.Entity, error) {
	e, err := r.Repository.FindLastGlobalStorageOutboxEntryForBucket(ctx, tx, id, b)
	r.sawLast(ctx, e)
	return e, err
}
func (r *c21Repo) FindFirstGlobalStorageOutboxEntryForBucket(ctx context.Context, tx *sql.Tx, id string, b storage.BucketName) (*storageOutboxEntry.Entity, error) {
	e, err := r.Repository.FindFirstGlobalStorageOutboxEntryForBucket(ctx, tx, id, b)
	r.sawFirst(ctx, e)
	return e, err
}
func (r *c21Repo) ClaimFirstStorageOutboxEntry(ctx context.Context, tx *sql.Tx, id string, owner string, now time.Time, until time.Time) (*storageOutboxEntry.Entity, bool, error) {
	r.claimStarts.Add(1)
	return r.Repository.ClaimFirstStorageOutboxEntry(ctx, tx, id, owner, now, until)
}

// inner-storage double: worker replays wait for a permit; everything else passes through
type c21Gate struct {
	storage.Storage
	permits chan struct{}
	done    chan error
}

func (g *c21Gate) isClient(ctx context.Context) bool { return ctx.Value(c21CtxKey{}) != nil }
func (g *c21Gate) wait(ctx context.Context) error {
	if os.Getenv("C21_DEBUG") != "" {
		fmt.Fprintf(os.Stderr, "   gate: worker arrived %s\n", time.Now().Format("05.000"))
		defer func() { fmt.Fprintf(os.Stderr, "   gate: worker passes %s\n", time.Now().Format("05.000")) }()
	}
	select {
	case <-g.permits:
		return nil
	case <-ctx.Done():
		return ctx.Err()
	}
}
func (g *c21Gate) CreateBucket(ctx context.Context, b storage.BucketName) error {
	if g.isClient(ctx) {
		return g.Storage.CreateBucket(ctx, b)
	}
	if err := g.wait(ctx); err != nil {
		return err
	}
	err := g.Storage.CreateBucket(ctx, b)
	g.done <- err
	return err
}
func (g *c21Gate) DeleteBucket(ctx context.Context, b storage.BucketName) error {
	if g.isClient(ctx) {
		return g.Storage.DeleteBucket(ctx, b)
	}
	if err := g.wait(ctx); err != nil {
		return err
	}
	err := g.Storage.DeleteBucket(ctx, b)
	g.done <- err
	return err
}
func (g *c21Gate) PutObject(ctx context.Context, b storage.BucketName, k storage.ObjectKey, ct *string, r io.Reader, ci *storage.ChecksumInput, o *storage.PutObjectOptions) (*storage.PutObjectResult, error) {
	if g.isClient(ctx) {
		return g.Storage.PutObject(ctx, b, k, ct, r, ci, o)
	}
	if err := g.wait(ctx); err != nil {
		return nil, err
	}
	res, err := g.Storage.PutObject(ctx, b, k, ct, r, ci, o)
	g.done <- err
	return res, err
}
func (g *c21Gate) DeleteObject(ctx context.Context, b storage.BucketName, k storage.ObjectKey, o *storage.DeleteObjectOptions) (*storage.DeleteObjectResult, error) {
	if g.isClient(ctx) {
		return g.Storage.DeleteObject(ctx, b, k, o)
	}
	if err := g.wait(ctx); err != nil {
		return nil, err
	}
	res, err := g.Storage.DeleteObject(ctx, b, k, o)
	g.done <- err
	return res, err
}

// ---------------------------------------------------------------------------------- environment

// A migrated, empty SQLite file is prepared once per run and copied for every database a case
// needs (76 migrations per fresh file would dominate the case cost).
var c21TemplateOnce sync.Once
var c21TemplateBytes []byte
var c21TemplateErr error

func c21OpenDB(scratch, path string) (database.Database, error) {
	c21TemplateOnce.Do(func() {
		tdir := filepath.Join(filepath.Dir(scratch), "c21-template")
		db, err := sqlite.OpenDatabase(filepath.Join(tdir, "pithos.db"))
		if err != nil {
			c21TemplateErr = err
			return
		}
		db.Close()
		c21TemplateBytes, c21TemplateErr = os.ReadFile(filepath.Join(tdir, "pithos.db"))
	})
	if c21TemplateErr != nil {
		return nil, c21TemplateErr
	}
	if err := os.MkdirAll(filepath.Dir(path), 0o755); err != nil {
		return nil, err
	}
	if err := os.WriteFile(path, c21TemplateBytes, 0o644); err != nil {
		return nil, err
	}
	return sqlite.OpenDatabase(path)
}

func c21NewInner(scratch, dir string) (storage.Storage, database.Database, error) {
	db, err := c21OpenDB(scratch, filepath.Join(dir, "pithos.db"))
	if err != nil {
		return nil, nil, err
	}
	ps, err := filesystemPartStore.New(dir)
	if err != nil {
		return nil, nil, err
	}
	br, err := repositoryFactory.NewBucketRepository(db)
	if err != nil {
		return nil, nil, err
	}
	or, err := repositoryFactory.NewObjectRepository(db)
	if err != nil {
		return nil, nil, err
	}
	pr, err := repositoryFactory.NewPartRepository(db)
	if err != nil {
		return nil, nil, err
	}
	tr, err := repositoryFactory.NewTagRepository(db)
	if err != nil {
		return nil, nil, err
	}
	ur, err := repositoryFactory.NewUserMetadataRepository(db)
	if err != nil {
		return nil, nil, err
	}
	ms, err := sqlMetadataStore.New(db, br, or, pr, tr, ur)
	if err != nil {
		return nil, nil, err
	}
	st, err := metadatapart.NewStorage(db, ms, ps)
	if err != nil {
		return nil, nil, err
	}
	return st, db, nil
}

// ---------------------------------------------------------------------------------- ops

type c21Op struct {
	kind    string // cb db put del dels ver get ls lb hb gv W J
	b, k    string
	keys    []string
	cid     int
	ctype   *string
	class   *string
	hasMeta bool
	sys     []*string
	user    map[string]string
	tags    map[string]string
	ifnone  bool
	ifmatch string // "N", "*", or cid
	vid     *string
	vers    string
	conds   []string // delsc: per-entry If-Match (N, *, cid), parallel to keys
	sub     string   // bad: put | app | up
	label   int    // multipart upload label
	pn      int    // part number
	db, dk  string // copy destination
}

func c21UntokOpt(t string) *string {
	if t == "N" {
		return nil
	}
	s := untokBytes(t[1:])
	return &s
}
func c21UntokKvs(t string) map[string]string {
	m := map[string]string{}
	if t == "_" {
		return m
	}
	for _, p := range strings.Split(t, ",") {
		kv := strings.SplitN(p, "=", 2)
		m[untokBytes(kv[0])] = untokBytes(kv[1])
	}
	return m
}
func c21TokKvs(m map[string]string) string {
	if len(m) == 0 {
		return "_"
	}
	ks := make([]string, 0, len(m))
	for k := range m {
		ks = append(ks, k)
	}
	sort.Strings(ks)
	out := make([]string, len(ks))
	for i, k := range ks {
		out[i] = tokBytes(k) + "=" + tokBytes(m[k])
	}
	return strings.Join(out, ",")
}

func c21ParseOp(t string) c21Op {
	f := strings.Split(t, "/")
	op := c21Op{kind: f[0]}
	switch f[0] {
	case "cb", "db", "ls", "hb", "gv":
		op.b = untokBytes(f[1])
	case "get", "gtag", "dtag":
		op.b, op.k = untokBytes(f[1]), untokBytes(f[2])
	case "delsc":
		op.b = untokBytes(f[1])
		for _, e := range strings.Split(f[2], ",") {
			kc := strings.SplitN(e, ":", 2)
			op.keys = append(op.keys, untokBytes(kc[0]))
			op.conds = append(op.conds, kc[1])
		}
	case "bad":
		op.sub, op.b, op.k = f[1], untokBytes(f[2]), untokBytes(f[3])
		if op.sub == "up" {
			op.label, _ = strconv.Atoi(f[4])
		}
	case "abt":
		op.b, op.k = untokBytes(f[1]), untokBytes(f[2])
		op.label, _ = strconv.Atoi(f[3])
	case "app":
		op.b, op.k = untokBytes(f[1]), untokBytes(f[2])
		op.cid, _ = strconv.Atoi(f[3])
	case "ptag":
		op.b, op.k, op.tags = untokBytes(f[1]), untokBytes(f[2]), c21UntokKvs(f[3])
	case "cp":
		op.b, op.k, op.db, op.dk = untokBytes(f[1]), untokBytes(f[2]), untokBytes(f[3]), untokBytes(f[4])
	case "up":
		op.b, op.k = untokBytes(f[1]), untokBytes(f[2])
		op.label, _ = strconv.Atoi(f[3])
		op.pn, _ = strconv.Atoi(f[4])
		op.cid, _ = strconv.Atoi(f[5])
	case "cpl":
		op.b, op.k = untokBytes(f[1]), untokBytes(f[2])
		op.label, _ = strconv.Atoi(f[3])
		op.ifnone = f[4] == "1"
		op.ifmatch = f[5]
	case "cmu":
		op.b, op.k = untokBytes(f[1]), untokBytes(f[2])
		op.label, _ = strconv.Atoi(f[3])
		op.ctype, op.class = c21UntokOpt(f[4]), c21UntokOpt(f[5])
		if f[6] != "N" {
			m := strings.Split(f[6], ":")
			op.hasMeta = true
			for _, s := range strings.Split(m[1], ",") {
				op.sys = append(op.sys, c21UntokOpt(s))
			}
			op.user = c21UntokKvs(m[2])
		}
		op.tags = c21UntokKvs(f[7])
		op.ifmatch = "N"
	case "dels":
		op.b, op.keys = untokBytes(f[1]), untokList(f[2])
	case "ver":
		op.b, op.vers = untokBytes(f[1]), f[2]
	case "del":
		op.b, op.k, op.vid, op.ifmatch = untokBytes(f[1]), untokBytes(f[2]), c21UntokOpt(f[3]), f[4]
	case "put":
		op.b, op.k = untokBytes(f[1]), untokBytes(f[2])
		op.cid, _ = strconv.Atoi(f[3])
		op.ctype, op.class = c21UntokOpt(f[4]), c21UntokOpt(f[5])
		if f[6] != "N" {
			m := strings.Split(f[6], ":")
			op.hasMeta = true
			for _, s := range strings.Split(m[1], ",") {
				op.sys = append(op.sys, c21UntokOpt(s))
			}
			op.user = c21UntokKvs(m[2])
		}
		op.tags = c21UntokKvs(f[7])
		op.ifnone = f[8] == "1"
		op.ifmatch = f[9]
	}
	return op
}

// content of id c: "<c>" followed by c dashes — its length identifies c, concatenations parse uniquely
func c21Content(cid int) []byte {
	return []byte("<" + strconv.Itoa(cid) + ">" + strings.Repeat("-", cid))
}
func c21ETag(cid int) string {
	s := md5.Sum(c21Content(cid))
	return "\"" + hex.EncodeToString(s[:]) + "\""
}

// the content ids of the parts an object's bytes consist of, "+"-joined ("BAD" if not ours)
func c21CidsOfContent(b []byte) string {
	var out []string
	for len(b) > 0 {
		i := bytes.IndexByte(b, '>')
		if b[0] != '<' || i < 0 {
			return "BAD"
		}
		n, err := strconv.Atoi(string(b[1:i]))
		if err != nil || len(b) < i+1+n || !bytes.Equal(b[:i+1+n], c21Content(n)) {
			return "BAD"
		}
		out = append(out, strconv.Itoa(n))
		b = b[i+1+n:]
	}
	return strings.Join(out, "+")
}

func c21Err(err error) string {
	var dm *storage.CurrentDeleteMarkerError
	switch {
	case err == nil:
		return "OK"
	case errors.Is(err, storage.ErrNoSuchBucket):
		return "E:NoSuchBucket"
	case errors.Is(err, storage.ErrNoSuchKey):
		return "E:NoSuchKey"
	case errors.Is(err, storage.ErrBucketAlreadyExists):
		return "E:BucketAlreadyExists"
	case errors.Is(err, storage.ErrBucketNotEmpty):
		return "E:BucketNotEmpty"
	case errors.Is(err, storage.ErrPreconditionFailed):
		return "E:PreconditionFailed"
	case errors.As(err, &dm):
		return "E:DeleteMarker"
	case errors.Is(err, storage.ErrBadDigest):
		return "E:BadDigest"
	case errors.Is(err, metadatastore.ErrUploadWithInvalidSequenceNumber), errors.Is(err, storage.ErrInvalidPart):
		return "E:InvalidPart"
	case errors.Is(err, context.Canceled):
		return "E:Canceled"
	}
	return "E:OTHER(" + strings.ReplaceAll(err.Error(), " ", "_") + ")"
}

func c21IfMatch(s string) *string {
	switch s {
	case "N":
		return nil
	case "*":
		v := "*"
		return &v
	}
	n, _ := strconv.Atoi(s)
	v := c21ETag(n)
	return &v
}

func c21PutOpts(op c21Op) *storage.PutObjectOptions {
	o := &storage.PutObjectOptions{IfNoneMatchStar: op.ifnone, IfMatchETag: c21IfMatch(op.ifmatch), StorageClass: op.class}
	if len(op.tags) > 0 {
		o.Tags = op.tags
	}
	if op.hasMeta {
		m := &storage.ObjectMetadata{}
		s := append([]*string{}, op.sys...)
		for len(s) < 6 {
			s = append(s, nil)
		}
		m.CacheControl, m.ContentDisposition, m.ContentEncoding, m.ContentLanguage, m.Expires, m.WebsiteRedirectLocation = s[0], s[1], s[2], s[3], s[4], s[5]
		if len(op.user) > 0 {
			m.UserMetadata = op.user
		}
		o.Metadata = m
	}
	return o
}

func c21ShowObj(o *storage.Object, cid string) string {
	tokO := func(p *string) string { return tokOpt(p) }
	class := storage.EffectiveStorageClass(o.StorageClass)
	m := o.Metadata
	sys := []string{tokO(m.CacheControl), tokO(m.ContentDisposition), tokO(m.ContentEncoding), tokO(m.ContentLanguage), tokO(m.Expires), tokO(m.WebsiteRedirectLocation)}
	return "O:" + cid + ":" + tokO(o.ContentType) + ":" + tokBytes(class) + ":" + strings.Join(sys, ",") + ":" + c21TokKvs(m.UserMetadata) + ":" + c21TokKvs(o.Tags)
}

func c21Get(ctx context.Context, st storage.Storage, b, k string) string {
	o, rs, err := st.GetObject(ctx, storage.MustNewBucketName(b), storage.MustNewObjectKey(k), nil, nil)
	if err != nil {
		return c21Err(err)
	}
	var buf bytes.Buffer
	for _, r := range rs {
		io.Copy(&buf, r)
		r.Close()
	}
	return c21ShowObj(o, c21CidsOfContent(buf.Bytes()))
}

// runs one client operation on a storage (the outbox storage, or the plain storage of the oracle)
func c21MetaOpts(op c21Op) *storage.ObjectMetadata {
	if !op.hasMeta {
		return nil
	}
	m := &storage.ObjectMetadata{}
	s := append([]*string{}, op.sys...)
	for len(s) < 6 {
		s = append(s, nil)
	}
	m.CacheControl, m.ContentDisposition, m.ContentEncoding, m.ContentLanguage, m.Expires, m.WebsiteRedirectLocation = s[0], s[1], s[2], s[3], s[4], s[5]
	if len(op.user) > 0 {
		m.UserMetadata = op.user
	}
	return m
}

// ups: multipart upload label -> the id this storage handed out
func c21Exec(ctx context.Context, st storage.Storage, op c21Op, ups map[int]storage.UploadId, ub []string) string {
	upload := func() storage.UploadId {
		if id, ok := ups[op.label]; ok {
			return id
		}
		return metadatastore.NewRandomUploadId() // never created here: an id the storage does not know
	}
	switch op.kind {
	case "delsc":
		es := make([]storage.DeleteObjectsInputEntry, len(op.keys))
		for i, k := range op.keys {
			es[i] = storage.DeleteObjectsInputEntry{Key: storage.MustNewObjectKey(k), IfMatchETag: c21IfMatch(op.conds[i])}
		}
		_, err := st.DeleteObjects(ctx, storage.MustNewBucketName(op.b), es)
		return c21Err(err)
	case "bad":
		// the body is content 7777, the declared digest is that of content 7778
		wrong := c21ETag(7778)
		ci := &storage.ChecksumInput{ETag: &wrong}
		body := bytes.NewReader(c21Content(7777))
		switch op.sub {
		case "put":
			_, err := st.PutObject(ctx, storage.MustNewBucketName(op.b), storage.MustNewObjectKey(op.k), nil, body, ci, nil)
			return c21Err(err)
		case "app":
			_, err := st.AppendObject(ctx, storage.MustNewBucketName(op.b), storage.MustNewObjectKey(op.k), body, ci, nil)
			return c21Err(err)
		default:
			_, err := st.UploadPart(ctx, storage.MustNewBucketName(op.b), storage.MustNewObjectKey(op.k), upload(), 1, body, ci)
			return c21Err(err)
		}
	case "cmu":
		o := &storage.CreateMultipartUploadOptions{StorageClass: op.class, Metadata: c21MetaOpts(op)}
		if len(op.tags) > 0 {
			o.Tags = op.tags
		}
		r, err := st.CreateMultipartUpload(ctx, storage.MustNewBucketName(op.b), storage.MustNewObjectKey(op.k), op.ctype, nil, o)
		if err == nil {
			ups[op.label] = r.UploadId
		}
		return c21Err(err)
	case "up":
		_, err := st.UploadPart(ctx, storage.MustNewBucketName(op.b), storage.MustNewObjectKey(op.k), upload(), int32(op.pn), bytes.NewReader(c21Content(op.cid)), nil)
		return c21Err(err)
	case "cpl":
		o := &storage.CompleteMultipartUploadOptions{IfNoneMatchStar: op.ifnone, IfMatchETag: c21IfMatch(op.ifmatch)}
		_, err := st.CompleteMultipartUpload(ctx, storage.MustNewBucketName(op.b), storage.MustNewObjectKey(op.k), upload(), nil, o)
		if err == nil {
			delete(ups, op.label)
		}
		return c21Err(err)
	case "abt":
		err := st.AbortMultipartUpload(ctx, storage.MustNewBucketName(op.b), storage.MustNewObjectKey(op.k), upload())
		if err == nil {
			delete(ups, op.label)
		}
		return c21Err(err)
	case "cp":
		_, err := st.CopyObject(ctx, storage.MustNewBucketName(op.b), storage.MustNewObjectKey(op.k), storage.MustNewBucketName(op.db), storage.MustNewObjectKey(op.dk), nil)
		return c21Err(err)
	case "app":
		_, err := st.AppendObject(ctx, storage.MustNewBucketName(op.b), storage.MustNewObjectKey(op.k), bytes.NewReader(c21Content(op.cid)), nil, nil)
		return c21Err(err)
	case "ptag":
		return c21Err(st.PutObjectTagging(ctx, storage.MustNewBucketName(op.b), storage.MustNewObjectKey(op.k), op.tags, nil))
	case "dtag":
		return c21Err(st.DeleteObjectTagging(ctx, storage.MustNewBucketName(op.b), storage.MustNewObjectKey(op.k), nil))
	case "gtag":
		t, err := st.GetObjectTagging(ctx, storage.MustNewBucketName(op.b), storage.MustNewObjectKey(op.k), nil)
		if err != nil {
			return c21Err(err)
		}
		return "T:" + c21TokKvs(t)
	case "cb":
		return c21Err(st.CreateBucket(ctx, storage.MustNewBucketName(op.b)))
	case "db":
		return c21Err(st.DeleteBucket(ctx, storage.MustNewBucketName(op.b)))
	case "put":
		_, err := st.PutObject(ctx, storage.MustNewBucketName(op.b), storage.MustNewObjectKey(op.k), op.ctype, bytes.NewReader(c21Content(op.cid)), nil, c21PutOpts(op))
		return c21Err(err)
	case "del":
		var o *storage.DeleteObjectOptions
		if op.vid != nil || op.ifmatch != "N" {
			o = &storage.DeleteObjectOptions{VersionID: op.vid, IfMatchETag: c21IfMatch(op.ifmatch)}
		}
		_, err := st.DeleteObject(ctx, storage.MustNewBucketName(op.b), storage.MustNewObjectKey(op.k), o)
		return c21Err(err)
	case "dels":
		es := make([]storage.DeleteObjectsInputEntry, len(op.keys))
		for i, k := range op.keys {
			es[i] = storage.DeleteObjectsInputEntry{Key: storage.MustNewObjectKey(k)}
		}
		_, err := st.DeleteObjects(ctx, storage.MustNewBucketName(op.b), es)
		return c21Err(err)
	case "ver":
		s := storage.BucketVersioningStatusEnabled
		if op.vers == "S" {
			s = storage.BucketVersioningStatusSuspended
		}
		return c21Err(st.PutBucketVersioningConfiguration(ctx, storage.MustNewBucketName(op.b), &storage.BucketVersioningConfiguration{Status: &s}))
	case "get":
		return c21Get(ctx, st, op.b, op.k)
	case "ls":
		r, err := st.ListObjects(ctx, storage.MustNewBucketName(op.b), storage.ListObjectsOptions{MaxKeys: 1000})
		if err != nil {
			return c21Err(err)
		}
		var out []string
		for _, o := range r.Objects {
			out = append(out, tokBytes(o.Key.String())+"="+strconv.FormatInt(o.Size, 10))
		}
		if len(out) == 0 {
			return "L:_"
		}
		return "L:" + strings.Join(out, ",")
	case "lb":
		bs, err := st.ListBuckets(ctx)
		if err != nil {
			return c21Err(err)
		}
		var names []string
		for _, u := range ub {
			for _, b := range bs {
				if b.Name.String() == u {
					names = append(names, u)
				}
			}
		}
		return "B:" + tokList(names)
	case "hb":
		_, err := st.HeadBucket(ctx, storage.MustNewBucketName(op.b))
		return c21Err(err)
	case "gv":
		c, err := st.GetBucketVersioningConfiguration(ctx, storage.MustNewBucketName(op.b))
		if err != nil {
			return c21Err(err)
		}
		return "V:" + c21Vers(c)
	}
	return "?"
}

func c21Vers(c *storage.BucketVersioningConfiguration) string {
	if c == nil || c.Status == nil {
		return "U"
	}
	if *c.Status == storage.BucketVersioningStatusEnabled {
		return "E"
	}
	return "S"
}

func c21Sweep(ctx context.Context, st storage.Storage, ub, uk []string) []string {
	var out []string
	for _, b := range ub {
		bn := storage.MustNewBucketName(b)
		c, err := st.GetBucketVersioningConfiguration(ctx, bn)
		if err != nil {
			continue
		}
		s := "S|" + tokBytes(b) + "|" + c21Vers(c)
		if lm, err := st.ListMultipartUploads(ctx, bn, storage.ListMultipartUploadsOptions{MaxUploads: 1000}); err == nil {
			s += "|u" + strconv.Itoa(len(lm.Uploads))
		} else {
			s += "|uERR"
		}
		for _, k := range uk {
			kk := k
			r, err := st.ListObjectVersions(ctx, bn, storage.ListObjectVersionsOptions{Prefix: &kk, MaxKeys: 1000})
			if err != nil {
				s += "|ERR(" + c21Err(err) + ")"
				continue
			}
			n, dm := 0, 0
			for _, v := range r.Versions {
				if v.Key.String() == k {
					n++
					if v.IsDeleteMarker {
						dm++
					}
				}
			}
			if n == 0 {
				continue
			}
			cur := c21Get(ctx, st, b, k)
			switch cur {
			case "E:DeleteMarker":
				cur = "DM"
			case "E:NoSuchKey":
				cur = "-"
			}
			s += "|" + tokBytes(k) + "~" + cur + "~" + strconv.Itoa(n) + "~" + strconv.Itoa(dm)
		}
		out = append(out, s)
	}
	return out
}

// ---------------------------------------------------------------------------------- shadow
// A small re-statement of routing / entry classes / success of replays, used ONLY to generate
// well-formed histories (where to put J, which histories are poisoned) and to compute tags from
// the input. It is not consulted for verdicts.

type c21ShKey struct {
	cur      bool
	cid      int
	nonempty bool
}
type c21ShUpload struct {
	key   string
	parts map[int]bool
}
type c21ShBucket struct {
	exists bool
	vers   byte
	keys   map[string]*c21ShKey
	ups    map[int]*c21ShUpload
}
type c21ShState map[string]*c21ShBucket

func (s c21ShState) bucket(b string) *c21ShBucket {
	if s[b] == nil {
		s[b] = &c21ShBucket{vers: 'U', keys: map[string]*c21ShKey{}, ups: map[int]*c21ShUpload{}}
	}
	return s[b]
}
func (b *c21ShBucket) key(k string) *c21ShKey {
	if b.keys[k] == nil {
		b.keys[k] = &c21ShKey{}
	}
	return b.keys[k]
}
func (b *c21ShBucket) empty() bool {
	if len(b.ups) > 0 {
		return false
	}
	for _, k := range b.keys {
		if k.nonempty {
			return false
		}
	}
	return true
}

// applies a call directly; returns success
func (s c21ShState) apply(op c21Op) bool {
	b := s.bucket(op.b)
	condOK := func(k *c21ShKey, ifm string) bool {
		switch ifm {
		case "N":
			return true
		case "*":
			return k.cur
		}
		n, _ := strconv.Atoi(ifm)
		return k.cur && k.cid == n
	}
	del := func(k *c21ShKey) {
		k.cur = false
		k.nonempty = b.vers != 'U'
	}
	switch op.kind {
	case "cb":
		if b.exists {
			return false
		}
		*b = c21ShBucket{exists: true, vers: 'U', keys: map[string]*c21ShKey{}, ups: map[int]*c21ShUpload{}}
		return true
	case "db":
		if !b.exists || !b.empty() {
			return false
		}
		*b = c21ShBucket{vers: 'U', keys: map[string]*c21ShKey{}, ups: map[int]*c21ShUpload{}}
		return true
	case "put":
		if !b.exists {
			return false
		}
		k := b.key(op.k)
		if !condOK(k, op.ifmatch) || (op.ifnone && k.cur) {
			return false
		}
		k.cur, k.cid, k.nonempty = true, op.cid, true
		return true
	case "del":
		if !b.exists {
			return false
		}
		k := b.key(op.k)
		if op.vid != nil {
			if *op.vid == "null" && b.vers == 'U' {
				del(k)
			}
			return true
		}
		if !condOK(k, op.ifmatch) {
			return false
		}
		del(k)
		return true
	case "dels":
		if !b.exists {
			return false
		}
		for _, kk := range op.keys {
			del(b.key(kk))
		}
		return true
	case "ver":
		if !b.exists {
			return false
		}
		b.vers = op.vers[0]
		return true
	case "delsc":
		if !b.exists {
			return false
		}
		for i, kk := range op.keys {
			k := b.key(kk)
			switch c := op.conds[i]; c {
			case "N":
				del(k)
			case "*":
			default:
				if n, _ := strconv.Atoi(c); k.cur && k.cid == n {
					del(k)
				}
			}
		}
		return true
	case "bad":
		return false
	case "cmu":
		if !b.exists {
			return false
		}
		b.ups[op.label] = &c21ShUpload{key: op.k, parts: map[int]bool{}}
		return true
	case "up":
		u := b.ups[op.label]
		if !b.exists || u == nil || u.key != op.k {
			return false
		}
		u.parts[op.pn] = true
		return true
	case "abt":
		u := b.ups[op.label]
		if !b.exists || u == nil || u.key != op.k {
			return false
		}
		delete(b.ups, op.label)
		return true
	case "cpl":
		u := b.ups[op.label]
		if !b.exists || u == nil || u.key != op.k {
			return false
		}
		for i := 1; i <= len(u.parts); i++ {
			if !u.parts[i] {
				return false
			}
		}
		k := b.key(op.k)
		if !condOK(k, op.ifmatch) || (op.ifnone && k.cur) {
			return false
		}
		k.cur, k.cid, k.nonempty = true, -1, true
		delete(b.ups, op.label)
		return true
	case "app":
		if !b.exists {
			return false
		}
		k := b.key(op.k)
		k.cur, k.cid, k.nonempty = true, -1, true
		return true
	case "cp":
		if !b.exists || !b.key(op.k).cur {
			return false
		}
		d := s.bucket(op.db)
		if !d.exists {
			return false
		}
		src := b.key(op.k).cid
		k := d.key(op.dk)
		k.cur, k.cid, k.nonempty = true, src, true
		return true
	}
	return true
}

// can the shadow vouch for a complete of this upload succeeding part-wise
func (s c21ShState) uploadReady(b string, label int) bool {
	u := s.bucket(b).ups[label]
	if u == nil {
		return false
	}
	for i := 1; i <= len(u.parts); i++ {
		if !u.parts[i] {
			return false
		}
	}
	return true
}

type c21ShEntry struct {
	id   int
	b, k string // k == "" : bucket-lifecycle entry
	op   c21Op
}
type c21Shadow struct {
	inner, seq c21ShState
	queue      []c21ShEntry
	next       int
	fl         *c21ShFlight
	poisoned   bool // a replay failed
	willPoison bool // some pending entry will fail when replayed
	conc       bool
	blockedN   int
	syncW      int
	queuedN    int
	mp, other  bool
	refused    int  // writes refused on the queued path
	batchC     bool // DeleteObjects with per-entry conditions
	wtBlocked  int // write-through operations that had to wait
}
type c21ShFlight struct {
	op    c21Op
	class [3]string // kind(key|bucket|globalb|global), b, k
	snap  int
}

func c21NewShadow() *c21Shadow {
	return &c21Shadow{inner: c21ShState{}, seq: c21ShState{}, next: 1}
}
func c21Conflict(class [3]string, e c21ShEntry) bool {
	switch class[0] {
	case "two":
		a, b := strings.SplitN(class[1], "\x00", 2), strings.SplitN(class[2], "\x00", 2)
		return c21Conflict([3]string{"key", a[0], a[1]}, e) || c21Conflict([3]string{"key", b[0], b[1]}, e)
	case "key":
		return e.b == class[1] && (e.k == "" || e.k == class[2])
	case "bucket":
		return e.b == class[1]
	case "globalb":
		return e.b == class[1] && e.k == ""
	}
	return e.k == ""
}

// routing as outbox.go does it: class of a write-through op, or nil = queued
func (s *c21Shadow) route(op c21Op) *[3]string {
	v := byte('U')
	if b := s.inner[op.b]; b != nil && b.exists {
		v = b.vers
	}
	switch op.kind {
	case "put":
		if op.ifnone || op.ifmatch != "N" || v == 'E' {
			return &[3]string{"key", op.b, op.k}
		}
		return nil
	case "del":
		if op.ifmatch != "N" || v != 'U' {
			return &[3]string{"key", op.b, op.k}
		}
		return nil
	case "dels":
		if v != 'U' {
			return &[3]string{"bucket", op.b, ""}
		}
		return nil
	case "delsc":
		cond := false
		for _, c := range op.conds {
			if c != "N" {
				cond = true
			}
		}
		if cond || v != 'U' {
			return &[3]string{"bucket", op.b, ""}
		}
		return nil
	case "bad":
		if op.sub == "put" && v != 'E' {
			return nil // queued path: refused, nothing enqueued
		}
		return &[3]string{"key", op.b, op.k}
	case "ver", "ls":
		return &[3]string{"bucket", op.b, ""}
	case "get", "gtag", "ptag", "dtag", "cmu", "up", "cpl", "abt", "app":
		return &[3]string{"key", op.b, op.k}
	case "cp":
		return &[3]string{"two", op.b + "\x00" + op.k, op.db + "\x00" + op.dk}
	case "hb", "gv":
		return &[3]string{"globalb", op.b, ""}
	case "lb":
		return &[3]string{"global", "", ""}
	}
	return nil // cb db
}
func (s *c21Shadow) pendingConf(class [3]string) (first, last int) {
	first, last = -1, -1
	for _, e := range s.queue {
		if c21Conflict(class, e) {
			if first < 0 {
				first = e.id
			}
			last = e.id
		}
	}
	return
}
func (s *c21Shadow) joinable() bool {
	if s.fl == nil {
		return false
	}
	first, _ := s.pendingConf(s.fl.class)
	return first < 0 || first > s.fl.snap
}
func (s *c21Shadow) perform(op c21Op) {
	switch op.kind {
	case "put", "del", "dels", "delsc", "bad", "ver", "cmu", "up", "cpl", "abt", "app", "cp", "ptag", "dtag":
		s.inner.apply(op)
		s.seq.apply(op)
		s.syncW++
		if op.kind == "delsc" {
			s.batchC = true
		}
		switch op.kind {
		case "cmu", "up", "cpl", "abt":
			s.mp = true
		case "app", "cp", "ptag", "dtag":
			s.other = true
		}
	}
}

// returns false when the op is ignored (NONE)
func (s *c21Shadow) step(op c21Op) bool {
	switch op.kind {
	case "W":
		if len(s.queue) == 0 {
			return true
		}
		if s.inner.apply(s.queue[0].op) {
			s.queue = s.queue[1:]
		} else {
			s.poisoned = true
		}
		return true
	case "J":
		if s.joinable() {
			s.perform(s.fl.op)
			s.fl = nil
		}
		return true
	}
	class := s.route(op)
	if class == nil {
		if s.fl != nil {
			s.conc = true
		}
		if op.kind == "bad" {
			s.refused++
			return true
		}
		var es []c21Op
		if op.kind == "delsc" {
			for _, k := range op.keys {
				es = append(es, c21Op{kind: "del", b: op.b, k: k, ifmatch: "N"})
			}
		} else if op.kind == "dels" {
			for _, k := range op.keys {
				es = append(es, c21Op{kind: "del", b: op.b, k: k, ifmatch: "N"})
			}
		} else {
			es = []c21Op{op}
		}
		for _, e := range es {
			k := e.k
			if e.kind == "cb" || e.kind == "db" {
				k = ""
			}
			s.queue = append(s.queue, c21ShEntry{id: s.next, b: e.b, k: k, op: e})
			s.next++
			if !s.seq.apply(e) {
				s.willPoison = true
			}
			s.queuedN++
		}
		return true
	}
	if s.fl != nil {
		return false
	}
	_, last := s.pendingConf(*class)
	if last < 0 {
		s.perform(op)
		return true
	}
	s.fl = &c21ShFlight{op: op, class: *class, snap: last}
	s.blockedN++
	switch op.kind {
	case "get", "ls", "lb", "hb", "gv", "gtag":
	default:
		s.wtBlocked++
	}
	return true
}

// ---------------------------------------------------------------------------------- generator

var c21Buckets = []string{"bka", "bkb"}
var c21Keys = []string{"ka", "kb", "kc"}
var c21Classes = []string{"STANDARD", "STANDARD_IA", "GLACIER", "REDUCED_REDUNDANCY"}

func c21ShowOp(op c21Op) string {
	switch op.kind {
	case "W", "J", "lb":
		return op.kind
	case "cb", "db", "ls", "hb", "gv":
		return op.kind + "/" + tokBytes(op.b)
	case "get", "gtag", "dtag":
		return op.kind + "/" + tokBytes(op.b) + "/" + tokBytes(op.k)
	case "delsc":
		es := make([]string, len(op.keys))
		for i, k := range op.keys {
			es[i] = tokBytes(k) + ":" + op.conds[i]
		}
		return "delsc/" + tokBytes(op.b) + "/" + strings.Join(es, ",")
	case "bad":
		t := "bad/" + op.sub + "/" + tokBytes(op.b) + "/" + tokBytes(op.k)
		if op.sub == "up" {
			t += "/" + strconv.Itoa(op.label)
		}
		return t
	case "abt":
		return "abt/" + tokBytes(op.b) + "/" + tokBytes(op.k) + "/" + strconv.Itoa(op.label)
	case "app":
		return "app/" + tokBytes(op.b) + "/" + tokBytes(op.k) + "/" + strconv.Itoa(op.cid)
	case "ptag":
		return "ptag/" + tokBytes(op.b) + "/" + tokBytes(op.k) + "/" + c21TokKvs(op.tags)
	case "cp":
		return "cp/" + tokBytes(op.b) + "/" + tokBytes(op.k) + "/" + tokBytes(op.db) + "/" + tokBytes(op.dk)
	case "up":
		return strings.Join([]string{"up", tokBytes(op.b), tokBytes(op.k), strconv.Itoa(op.label), strconv.Itoa(op.pn), strconv.Itoa(op.cid)}, "/")
	case "cpl":
		ifn := "0"
		if op.ifnone {
			ifn = "1"
		}
		return strings.Join([]string{"cpl", tokBytes(op.b), tokBytes(op.k), strconv.Itoa(op.label), ifn, op.ifmatch}, "/")
	case "cmu":
		meta := "N"
		if op.hasMeta {
			sys := make([]string, len(op.sys))
			for i, s := range op.sys {
				sys[i] = tokOpt(s)
			}
			meta = "M:" + strings.Join(sys, ",") + ":" + c21TokKvs(op.user)
		}
		return strings.Join([]string{"cmu", tokBytes(op.b), tokBytes(op.k), strconv.Itoa(op.label), tokOpt(op.ctype), tokOpt(op.class), meta, c21TokKvs(op.tags)}, "/")
	case "dels":
		return "dels/" + tokBytes(op.b) + "/" + tokList(op.keys)
	case "ver":
		return "ver/" + tokBytes(op.b) + "/" + op.vers
	case "del":
		return "del/" + tokBytes(op.b) + "/" + tokBytes(op.k) + "/" + tokOpt(op.vid) + "/" + op.ifmatch
	case "put":
		meta := "N"
		if op.hasMeta {
			sys := make([]string, len(op.sys))
			for i, s := range op.sys {
				sys[i] = tokOpt(s)
			}
			meta = "M:" + strings.Join(sys, ",") + ":" + c21TokKvs(op.user)
		}
		ifn := "0"
		if op.ifnone {
			ifn = "1"
		}
		return strings.Join([]string{"put", tokBytes(op.b), tokBytes(op.k), strconv.Itoa(op.cid), tokOpt(op.ctype), tokOpt(op.class), meta, c21TokKvs(op.tags), ifn, op.ifmatch}, "/")
	}
	return "?"
}

func c21GenPut(r *Rng, b, k string, cid int) c21Op {
	op := c21Op{kind: "put", b: b, k: k, cid: cid, ifmatch: "N", tags: map[string]string{}, user: map[string]string{}}
	if r.Chance(50) {
		s := r.Pick([]string{"text/plain", "application/json", "x"})
		op.ctype = &s
	}
	if r.Chance(35) {
		s := r.Pick(c21Classes)
		op.class = &s
	}
	if r.Chance(35) {
		op.tags[r.Pick([]string{"t1", "t2"})] = r.Pick([]string{"a", "b", ""})
		if r.Chance(30) {
			op.tags["env"] = "x"
		}
	}
	if r.Chance(40) {
		op.hasMeta = true
		op.sys = make([]*string, 6)
		if r.Chance(80) {
			for i := range op.sys {
				if r.Chance(35) {
					s := r.Pick([]string{"max-age=60", "inline", "gzip", "en", "Wed, 21 Oct 2026 07:28:00 GMT", "/x"})
					op.sys[i] = &s
				}
			}
		}
		if r.Chance(60) {
			op.user[r.Pick([]string{"owner", "m2"})] = r.Pick([]string{"v", "w"})
		}
	}
	return op
}

func (c21) Gen(r *Rng, tier string, n int) []string {
	cases := make([]string, 0, n)
	for len(cases) < n {
		cases = append(cases, c21GenCase(r.Fork()))
	}
	return cases
}

// A write-through operation arrives while an acknowledged write it depends on (same key, a
// bucket-lifecycle entry, or the copy's other side) is still queued behind the gated worker.
func c21GenDirected(r *Rng) string {
	sh := c21NewShadow()
	var ops []c21Op
	emit := func(op c21Op) { ops = append(ops, op); sh.step(op) }
	drain := func() {
		for g := 0; g < 40 && len(sh.queue) > 0 && !sh.poisoned; g++ {
			emit(c21Op{kind: "W"})
		}
	}
	settle := func() {
		for g := 0; g < 40 && sh.fl != nil && !sh.poisoned; g++ {
			if sh.joinable() {
				emit(c21Op{kind: "J"})
			} else {
				emit(c21Op{kind: "W"})
			}
		}
	}
	ub := c21Buckets
	uk := c21Keys[:2+r.Intn(2)]
	b, b2 := ub[0], ub[1]
	k := r.Pick(uk)
	k2 := uk[(r.Intn(len(uk)-1)+1+c21IndexOf(uk, k))%len(uk)]
	cid, label := 1, 1
	emit(c21Op{kind: "cb", b: b})
	b2exists := r.Chance(50)
	if b2exists {
		emit(c21Op{kind: "cb", b: b2})
	}
	drain()
	// optional drained history of the key
	if r.Chance(55) {
		emit(c21GenPut(r, b, k, cid))
		cid++
		drain()
	}
	if r.Chance(30) {
		emit(c21GenPut(r, b, k2, cid))
		cid++
		drain()
	}
	// an upload for the key (needed by up / cpl / abt)
	upLabel := 0
	if r.Chance(65) {
		op := c21GenPut(r, b, k, 0)
		op.kind, op.cid, op.label = "cmu", 0, label
		upLabel = label
		label++
		emit(op)
		for pn := 1; pn <= r.Intn(3); pn++ {
			emit(c21Op{kind: "up", b: b, k: k, label: upLabel, pn: pn, cid: cid})
			cid++
		}
	}
	// acknowledged writes that stay queued (worker gated)
	if r.Chance(25) {
		emit(c21GenPut(r, b, k2, cid)) // an unrelated key ahead in the queue
		cid++
	}
	wtBucket, wtKey := b, k
	switch x := r.Intn(100); {
	case x < 50:
		emit(c21GenPut(r, b, k, cid))
		cid++
	case x < 75:
		emit(c21Op{kind: "del", b: b, k: k, ifmatch: "N"})
	case x < 88 && !b2exists:
		emit(c21Op{kind: "cb", b: b2}) // a bucket-lifecycle entry of the bucket the operation addresses
		wtBucket = b2
	default:
		emit(c21GenPut(r, b, k, cid))
		cid++
		emit(c21Op{kind: "del", b: b, k: k, ifmatch: "N"})
	}
	if r.Chance(15) {
		emit(c21Op{kind: "W"}) // partially drained
	}
	// the write-through operation
	var op c21Op
	cond := func(o *c21Op) {
		switch r.Intn(4) {
		case 0, 1:
			o.ifnone = true
		case 2:
			o.ifmatch = "*"
		default:
			o.ifmatch = strconv.Itoa(1 + r.Intn(cid))
		}
	}
	if wtBucket == b && r.Chance(30) {
		// DeleteObjects: an If-Match entry (matching / stale / wildcard) on the settled key k2 and a plain
		// entry for the key whose write is still queued (sometimes plain only: then it is queued itself)
		op = c21Op{kind: "delsc", b: b}
		if r.Chance(80) {
			c := "*"
			if k2s := sh.seq.bucket(b).key(k2); k2s.cur && k2s.cid > 0 && r.Chance(70) {
				c = strconv.Itoa(k2s.cid)
			} else if r.Bool() {
				c = strconv.Itoa(1 + r.Intn(cid))
			}
			op.keys, op.conds = append(op.keys, k2), append(op.conds, c)
		}
		op.keys, op.conds = append(op.keys, k), append(op.conds, "N")
		if r.Chance(30) {
			op.keys[0], op.keys[len(op.keys)-1] = op.keys[len(op.keys)-1], op.keys[0]
			op.conds[0], op.conds[len(op.conds)-1] = op.conds[len(op.conds)-1], op.conds[0]
		}
	} else if r.Chance(25) {
		// a write with a wrong digest: refused (queued path: no entry; write-through: by the inner storage)
		op = c21Op{kind: "bad", sub: "put", b: wtBucket, k: wtKey}
		if r.Chance(30) {
			op.sub = "app"
		} else if upLabel != 0 && wtBucket == b && r.Chance(25) {
			op.sub, op.label = "up", upLabel
		}
	}
	for tries := 0; tries < 20 && op.kind == ""; tries++ {
		switch y := r.Intn(100); {
		case y < 26:
			if upLabel == 0 || wtBucket != b {
				continue
			}
			op = c21Op{kind: "cpl", b: b, k: k, label: upLabel, ifmatch: "N"}
			if r.Chance(75) {
				cond(&op)
			}
		case y < 34:
			if upLabel == 0 || wtBucket != b {
				continue
			}
			op = c21Op{kind: "up", b: b, k: k, label: upLabel, pn: 1 + r.Intn(2), cid: cid}
			cid++
		case y < 38:
			if upLabel == 0 || wtBucket != b {
				continue
			}
			op = c21Op{kind: "abt", b: b, k: k, label: upLabel}
		case y < 46:
			op = c21GenPut(r, wtBucket, wtKey, 0)
			op.kind, op.cid, op.label = "cmu", 0, label
			label++
		case y < 56:
			op = c21GenPut(r, wtBucket, wtKey, cid)
			cid++
			cond(&op)
		case y < 63:
			op = c21Op{kind: "del", b: wtBucket, k: wtKey, ifmatch: r.Pick([]string{"*", strconv.Itoa(1 + r.Intn(cid))})}
		case y < 72:
			op = c21Op{kind: "app", b: wtBucket, k: wtKey, cid: cid}
			cid++
		case y < 80: // copy out of the key
			db := b
			if b2exists && r.Bool() {
				db = b2
			}
			op = c21Op{kind: "cp", b: wtBucket, k: wtKey, db: db, dk: k2}
		case y < 88: // copy into the key
			op = c21Op{kind: "cp", b: b, k: k2, db: wtBucket, dk: wtKey}
		case y < 93:
			op = c21Op{kind: "ptag", b: wtBucket, k: wtKey, tags: map[string]string{"t1": r.Pick([]string{"a", "b"})}}
		case y < 96:
			op = c21Op{kind: "dtag", b: wtBucket, k: wtKey}
		case y < 98:
			op = c21Op{kind: "gtag", b: wtBucket, k: wtKey}
		default:
			op = c21Op{kind: "ver", b: wtBucket, vers: r.Pick([]string{"E", "S"})}
		}
	}
	if op.kind == "" {
		op = c21Op{kind: "app", b: wtBucket, k: wtKey, cid: cid}
		cid++
	}
	emit(op)
	settle()
	emit(c21Op{kind: "get", b: wtBucket, k: wtKey})
	settle()
	if r.Chance(50) {
		emit(c21Op{kind: "gtag", b: wtBucket, k: wtKey})
		settle()
	}
	drain()
	if !sh.poisoned {
		emit(c21Op{kind: "ls", b: b})
		emit(c21Op{kind: "get", b: wtBucket, k: wtKey})
		if op.kind == "cp" {
			emit(c21Op{kind: "get", b: op.db, k: op.dk})
		}
	}
	toks := make([]string, len(ops))
	for i, o := range ops {
		toks[i] = c21ShowOp(o)
	}
	return tokList(ub) + " " + tokList(uk) + " " + strings.Join(toks, " ")
}

func c21IndexOf(l []string, x string) int {
	for i, y := range l {
		if y == x {
			return i
		}
	}
	return 0
}

func c21GenCase(r *Rng) string {
	if r.Chance(25) {
		return c21oGen(r)
	}
	if r.Chance(35) {
		return c21GenDirected(r)
	}
	sh := c21NewShadow()
	var ops []c21Op
	emit := func(op c21Op) { ops = append(ops, op); sh.step(op) }
	nb := 1 + r.Intn(2)
	ub := c21Buckets[:nb]
	uk := c21Keys[:2+r.Intn(2)]
	steps := 6 + r.Intn(16)
	allowPoison := r.Chance(10)
	allowConc := r.Chance(15)
	blockedBudget := 1 + r.Intn(2)
	cid := 1
	label := 1
	wtShare := 0
	if r.Chance(60) {
		wtShare = 20 + r.Intn(35)
	}
	afterPoison := 0
	if r.Chance(90) {
		emit(c21Op{kind: "cb", b: ub[0]})
		if nb > 1 && r.Chance(60) {
			emit(c21Op{kind: "cb", b: ub[1]})
		}
		for len(sh.queue) > 0 && r.Chance(50) {
			emit(c21Op{kind: "W"})
		}
	}
	for i := 0; i < steps; i++ {
		if sh.poisoned {
			afterPoison++
			if afterPoison > 2 {
				break
			}
		}
		if sh.fl != nil {
			if sh.joinable() {
				emit(c21Op{kind: "J"})
				continue
			}
			if sh.poisoned {
				break
			}
			if k := sh.fl.op.kind; allowConc && (k == "get" || k == "ls" || k == "lb" || k == "hb" || k == "gv" || k == "gtag") && r.Chance(40) {
				// another client enqueues while a read waits
				b := r.Pick(ub)
				k := r.Pick(uk)
				var op c21Op
				if r.Bool() {
					op = c21GenPut(r, b, k, cid)
					cid++
				} else {
					op = c21Op{kind: "del", b: b, k: k, ifmatch: "N"}
				}
				if sh.route(op) == nil && sh.seq.bucket(b).exists {
					emit(op)
					continue
				}
			}
			emit(c21Op{kind: "W"})
			continue
		}
		b := r.Pick(ub)
		k := r.Pick(uk)
		sb := sh.seq.bucket(b)
		x := r.Intn(100)
		if sb.exists && r.Chance(wtShare) {
			// write-through operations other than put/delete; they may find entries of their key,
			// of other keys or bucket-lifecycle entries still queued
			var op c21Op
			type openUp struct {
				label int
				key   string
			}
			var open []openUp
			for l, u := range sb.ups {
				open = append(open, openUp{l, u.key})
			}
			sort.Slice(open, func(i, j int) bool { return open[i].label < open[j].label })
			y := r.Intn(100)
			switch {
			case y < 22 || len(open) == 0 && y < 45:
				op = c21GenPut(r, b, k, 0)
				op.kind, op.cid, op.label = "cmu", 0, label
				label++
			case y < 45:
				u := open[r.Intn(len(open))]
				pn := len(sb.ups[u.label].parts) + 1
				if r.Chance(15) && pn > 1 {
					pn = 1 + r.Intn(pn-1) // re-upload a part
				}
				op = c21Op{kind: "up", b: b, k: u.key, label: u.label, pn: pn, cid: cid}
				cid++
			case y < 65:
				if len(open) == 0 {
					continue
				}
				u := open[r.Intn(len(open))]
				if !sh.seq.uploadReady(b, u.label) && !r.Chance(5) {
					op = c21Op{kind: "up", b: b, k: u.key, label: u.label, pn: len(sb.ups[u.label].parts) + 1, cid: cid}
					cid++
					break
				}
				op = c21Op{kind: "cpl", b: b, k: u.key, label: u.label, ifmatch: "N"}
				if sb.vers != 'S' && r.Chance(45) {
					switch r.Intn(3) {
					case 0, 1:
						op.ifnone = true
					default:
						op.ifmatch = r.Pick([]string{"*", strconv.Itoa(1 + r.Intn(cid))})
					}
				}
			case y < 69:
				if len(open) == 0 {
					continue
				}
				u := open[r.Intn(len(open))]
				op = c21Op{kind: "abt", b: b, k: u.key, label: u.label}
			case y < 82:
				db := r.Pick(ub)
				op = c21Op{kind: "cp", b: b, k: k, db: db, dk: r.Pick(uk)}
				if !sh.seq.bucket(db).exists && !r.Chance(10) {
					continue
				}
			case y < 90:
				if sb.vers != 'U' {
					continue
				}
				op = c21Op{kind: "app", b: b, k: k, cid: cid}
				cid++
			case y < 94:
				op = c21Op{kind: "ptag", b: b, k: k, tags: map[string]string{r.Pick([]string{"t1", "t2"}): r.Pick([]string{"a", "b"})}}
			case y < 96:
				op = c21Op{kind: "dtag", b: b, k: k}
			case y < 98:
				op = c21Op{kind: "gtag", b: b, k: k}
			case y < 99:
				op = c21Op{kind: "bad", sub: r.Pick([]string{"put", "put", "app"}), b: b, k: k}
			default:
				op = c21Op{kind: "delsc", b: b}
				for _, kk := range uk {
					if r.Chance(60) {
						c := "N"
						if sb.vers != 'S' && r.Chance(40) {
							c = r.Pick([]string{"*", strconv.Itoa(1 + r.Intn(cid))})
						}
						op.keys, op.conds = append(op.keys, kk), append(op.conds, c)
					}
				}
				if len(op.keys) == 0 {
					continue
				}
			}
			if cl := sh.route(op); cl != nil {
				if _, last := sh.pendingConf(*cl); last >= 0 && blockedBudget <= 0 {
					continue
				}
			}
			emit(op)
			if sh.fl != nil {
				blockedBudget--
			}
			continue
		}
		switch {
		case x < 22 && len(sh.queue) > 0 && !sh.poisoned:
			emit(c21Op{kind: "W"})
		case x < 24 && len(sh.queue) == 0:
			emit(c21Op{kind: "W"})
		case x < 32:
			if !sb.exists || allowPoison && r.Chance(30) {
				emit(c21Op{kind: "cb", b: b})
			}
		case x < 36:
			if sb.exists && sb.empty() || allowPoison && r.Chance(40) {
				emit(c21Op{kind: "db", b: b})
			}
		case x < 60:
			if sb.exists || allowPoison && r.Chance(20) {
				op := c21GenPut(r, b, k, cid)
				cid++
				if sb.exists && sb.vers != 'S' && r.Chance(20) {
					switch r.Intn(3) {
					case 0:
						op.ifnone = true
					case 1:
						op.ifmatch = "*"
					default:
						op.ifmatch = strconv.Itoa(1 + r.Intn(cid))
					}
				}
				if sh.route(op) != nil && blockedBudget <= 0 {
					if _, last := sh.pendingConf(*sh.route(op)); last >= 0 {
						continue
					}
				}
				emit(op)
			}
		case x < 70:
			if sb.exists {
				op := c21Op{kind: "del", b: b, k: k, ifmatch: "N"}
				if sb.vers == 'U' && r.Chance(15) {
					v := r.Pick([]string{"null", "bogus"})
					op.vid = &v
				} else if sb.vers != 'S' && r.Chance(20) {
					op.ifmatch = r.Pick([]string{"*", strconv.Itoa(1 + r.Intn(cid))})
				}
				if sh.route(op) != nil && blockedBudget <= 0 {
					if _, last := sh.pendingConf(*sh.route(op)); last >= 0 {
						continue
					}
				}
				emit(op)
			}
		case x < 74:
			if sb.exists {
				ks := []string{k}
				if r.Bool() {
					ks = append(ks, r.Pick(uk))
				}
				op := c21Op{kind: "dels", b: b, keys: ks}
				if sh.route(op) != nil && blockedBudget <= 0 {
					continue
				}
				emit(op)
			}
		case x < 79:
			if sb.exists && blockedBudget > 0 {
				emit(c21Op{kind: "ver", b: b, vers: r.Pick([]string{"E", "E", "S"})})
			}
		default:
			op := c21Op{kind: r.Pick([]string{"get", "get", "get", "ls", "ls", "lb", "hb", "gv"}), b: b, k: k}
			if _, last := sh.pendingConf(*sh.route(op)); last >= 0 && blockedBudget <= 0 {
				continue
			}
			emit(op)
		}
		if sh.fl != nil {
			blockedBudget--
		}
	}
	// finish: let a waiting operation complete, then (mostly) drain
	for g := 0; g < 40 && sh.fl != nil && !sh.poisoned; g++ {
		if sh.joinable() {
			emit(c21Op{kind: "J"})
		} else {
			emit(c21Op{kind: "W"})
		}
	}
	if !sh.poisoned && r.Chance(75) {
		for g := 0; g < 60 && len(sh.queue) > 0 && !sh.poisoned; g++ {
			emit(c21Op{kind: "W"})
		}
		// a final sweep through the outbox API too
		if !sh.poisoned && len(sh.queue) == 0 {
			emit(c21Op{kind: "ls", b: r.Pick(ub)})
			if r.Bool() {
				emit(c21Op{kind: "get", b: r.Pick(ub), k: r.Pick(uk)})
			}
		}
	}
	toks := make([]string, len(ops))
	for i, op := range ops {
		toks[i] = c21ShowOp(op)
	}
	return tokList(ub) + " " + tokList(uk) + " " + strings.Join(toks, " ")
}

// ---------------------------------------------------------------------------------- run

type c21Flight struct {
	idx  int
	done chan string
}

// outbox.PutObject allocates a 256 MB chunk buffer per call. A fresh span costs nothing (never
// touched), a recycled one is cleared page by page under the process-wide mm lock, which makes
// parallel cases crawl. The harness process is short-lived, so the collector is switched off for it
// (only this property's runs; RSS stays small because the buffers are never touched).
var c21GCOnce sync.Once

func (c21) Run(in string, scratch string) Result {
	c21GCOnce.Do(func() {
		if os.Getenv("C21_GC") == "" {
			debug.SetGCPercent(-1)
		}
	})
	if strings.HasPrefix(in, "OWN ") {
		return c21oRun(in, scratch)
	}
	if strings.HasPrefix(in, "ORD ") {
		return c18OrdRun("storage", in, scratch)
	}
	f := strings.Fields(in)
	ub, uk := untokList(f[0]), untokList(f[1])
	ops := make([]c21Op, len(f)-2)
	ups := map[int]storage.UploadId{}
	for i, t := range f[2:] {
		ops[i] = c21ParseOp(t)
	}
	// tags from the input alone
	sh := c21NewShadow()
	versioned, opts := false, false
	for _, op := range ops {
		sh.step(op)
		if op.kind == "ver" {
			versioned = true
		}
		if op.kind == "put" && (op.hasMeta || len(op.tags) > 0 || op.class != nil || op.ctype != nil) {
			opts = true
		}
	}
	var tags []string
	if sh.queuedN == 0 {
		tags = append(tags, "no-queued-write")
	} else {
		tags = append(tags, "queued")
	}
	if sh.blockedN > 0 {
		tags = append(tags, "blocked-op")
	}
	if sh.syncW > 0 {
		tags = append(tags, "write-through")
	}
	if sh.wtBlocked > 0 {
		tags = append(tags, "write-through-waited")
	}
	if sh.mp {
		tags = append(tags, "multipart")
	}
	if sh.batchC {
		tags = append(tags, "batch-delete-conditional")
	}
	if sh.refused > 0 {
		tags = append(tags, "refused-on-queued-path")
	}
	if sh.other {
		tags = append(tags, "copy-append-tagging")
	}
	if versioned {
		tags = append(tags, "versioning")
	}
	if opts {
		tags = append(tags, "put-options")
	}
	if sh.conc {
		tags = append(tags, "concurrent-enqueue")
	}
	if len(sh.queue) == 0 {
		tags = append(tags, "drained")
	} else {
		tags = append(tags, "pending")
	}
	if sh.poisoned || sh.willPoison {
		tags = append(tags, "poison", "kf:C21-failed-replay-blocks-outbox")
	}

	// ---- environment
	inner, db1, err := c21NewInner(scratch, filepath.Join(scratch, "inner"))
	if err != nil {
		return Result{Out: "SETUP-ERROR " + err.Error(), Oracle: "FAIL:setup"}
	}
	defer db1.Close()
	db2, err := c21OpenDB(scratch, filepath.Join(scratch, "outbox", "pithos.db"))
	if err != nil {
		return Result{Out: "SETUP-ERROR " + err.Error(), Oracle: "FAIL:setup"}
	}
	defer db2.Close()
	realRepo, err := repositoryFactory.NewStorageOutboxEntryRepository(db2)
	if err != nil {
		return Result{Out: "SETUP-ERROR " + err.Error(), Oracle: "FAIL:setup"}
	}
	repo := &c21Repo{Repository: realRepo}
	gate := &c21Gate{Storage: inner, permits: make(chan struct{}, 1), done: make(chan error, 4)}
	ob, err := outbox.NewStorage(db2, "default", gate, repo, prometheus.NewRegistry(), 30*time.Second)
	if err != nil {
		return Result{Out: "SETUP-ERROR " + err.Error(), Oracle: "FAIL:setup"}
	}
	bg := context.Background()
	if err := ob.Start(bg); err != nil {
		return Result{Out: "SETUP-ERROR " + err.Error(), Oracle: "FAIL:setup"}
	}
	clientCtx, cancelClients := context.WithCancel(bg)
	var wg sync.WaitGroup
	count := func() int {
		n := -1
		database.WithTx(bg, db2, &sql.TxOptions{ReadOnly: true}, func(ctx context.Context, tx database.Tx) error {
			var err error
			n, err = realRepo.Count(ctx, tx.SqlTx(), "default")
			return err
		})
		return n
	}

	outs := make([]string, len(ops))
	t0 := time.Now()
	dbg := os.Getenv("C21_DEBUG") != ""
	var fl *c21Flight
	var workerErr string
	for i, op := range ops {
		if dbg {
			fmt.Fprintf(os.Stderr, "%8.3f op %d %s %s\n", time.Since(t0).Seconds(), i, op.kind, time.Now().Format("05.000"))
		}
		switch op.kind {
		case "W":
			n0 := count()
			if n0 == 0 {
				outs[i] = "W:IDLE"
				continue
			}
			gate.permits <- struct{}{}
			select {
			case err := <-gate.done:
				outs[i] = "W:" + c21Err(err)
				if err != nil {
					workerErr = c21Err(err)
				} else {
					// finalize = the entry row is gone (committed)
					deadline := time.Now().Add(90 * time.Second)
					for count() != n0-1 {
						if time.Now().After(deadline) {
							outs[i] = "W:NOFINALIZE"
							break
						}
						time.Sleep(200 * time.Microsecond)
					}
				}
			case <-time.After(90 * time.Second):
				outs[i] = "W:TIMEOUT"
			}
		case "J":
			if fl == nil {
				outs[i] = "NONE"
				continue
			}
			select {
			case r := <-fl.done:
				outs[i] = r
				fl = nil
			case <-time.After(10 * time.Second):
				outs[i] = "BLK"
			}
		default:
			if fl != nil {
				// the model ignores a waiting-class operation while another one waits
				class := func() bool {
					switch op.kind {
					case "cb", "db":
						return false
					case "put", "del", "dels", "delsc", "bad":
						cctx := context.WithValue(bg, c21CtxKey{}, &c21Trace{blocked: make(chan struct{})})
						v := "U"
						if c, err := inner.GetBucketVersioningConfiguration(cctx, storage.MustNewBucketName(op.b)); err == nil {
							v = c21Vers(c)
						}
						switch op.kind {
						case "put":
							return op.ifnone || op.ifmatch != "N" || v == "E"
						case "del":
							return op.ifmatch != "N" || v != "U"
						case "delsc":
							for _, c := range op.conds {
								if c != "N" {
									return true
								}
							}
							return v != "U"
						case "bad":
							return op.sub != "put" || v == "E"
						}
						return v != "U"
					}
					return true
				}()
				if class {
					outs[i] = "NONE"
					continue
				}
			}
			tr := &c21Trace{blocked: make(chan struct{})}
			ctx := context.WithValue(clientCtx, c21CtxKey{}, tr)
			done := make(chan string, 1)
			wg.Add(1)
			go func(op c21Op) {
				defer wg.Done()
				done <- c21Exec(ctx, ob, op, ups, ub)
			}(op)
			select {
			case r := <-done:
				outs[i] = r
			case <-tr.blocked:
				outs[i] = "BLK"
				fl = &c21Flight{idx: i, done: done}
			case <-time.After(150 * time.Second):
				outs[i] = "HANG"
				fl = &c21Flight{idx: i, done: done}
			}
		}
	}
	// sweep of the inner storage while the worker is parked / idle, then shut down
	sctx := context.WithValue(bg, c21CtxKey{}, &c21Trace{blocked: make(chan struct{})})
	if dbg {
		fmt.Fprintf(os.Stderr, "%8.3f sweep\n", time.Since(t0).Seconds())
	}
	sweep := c21Sweep(sctx, inner, ub, uk)
	pending := count()
	cancelClients()
	wg.Wait()
	if dbg {
		fmt.Fprintf(os.Stderr, "%8.3f stop\n", time.Since(t0).Seconds())
	}
	stopCtx, cancelStop := context.WithTimeout(bg, 5*time.Second)
	ob.Stop(stopCtx)
	cancelStop()
	if dbg {
		fmt.Fprintf(os.Stderr, "%8.3f stopped\n", time.Since(t0).Seconds())
	}

	out := strings.Join(outs, " ") + " # " + strings.Join(append(sweep, "Q"+strconv.Itoa(pending)), " ")

	// ---- direct oracle: the client operations, in acceptance/completion order, on a plain storage
	oracle := c21Oracle(scratch, filepath.Join(scratch, "direct"), ops, outs, sweep, pending, workerErr, sh.conc, ub, uk)
	return Result{Out: out, Oracle: oracle, Tags: tags}
}

func c21Oracle(scratch, dir string, ops []c21Op, outs []string, sweep []string, pending int, workerErr string, conc bool, ub, uk []string) string {
	ups := map[int]storage.UploadId{}
	if workerErr != "" {
		return "FAIL:an accepted write failed on replay (" + workerErr + "): the entry stays at the head of the outbox, nothing behind it is replayed and waiting operations never return"
	}
	st, db, err := c21NewInner(scratch, dir)
	if err != nil {
		return "FAIL:setup " + err.Error()
	}
	defer db.Close()
	ctx := context.Background()
	if err := st.Start(ctx); err != nil {
		return "FAIL:setup " + err.Error()
	}
	defer st.Stop(ctx)
	isRead := func(k string) bool { return k == "get" || k == "ls" || k == "lb" || k == "hb" || k == "gv" || k == "gtag" }
	var waiting *c21Op
	for i, op := range ops {
		switch op.kind {
		case "W":
			continue
		case "J":
			if waiting == nil || outs[i] == "BLK" || outs[i] == "NONE" {
				continue
			}
			want := c21Exec(ctx, st, *waiting, ups, ub)
			if !(conc && isRead(waiting.kind)) && want != outs[i] {
				return fmt.Sprintf("FAIL:op %d (%s, completed after waiting) returned %s, the same history applied directly gives %s", i, waiting.kind, outs[i], want)
			}
			waiting = nil
		default:
			switch outs[i] {
			case "NONE":
				continue
			case "BLK", "HANG":
				o := op
				waiting = &o
				continue
			}
			want := c21Exec(ctx, st, op, ups, ub)
			queuedKind := op.kind == "cb" || op.kind == "db" || op.kind == "put" || op.kind == "del" || op.kind == "dels" || op.kind == "delsc"
			if queuedKind && outs[i] == "OK" {
				// accepted into the outbox (or written through successfully): nothing to compare yet
				continue
			}
			if want != outs[i] {
				return fmt.Sprintf("FAIL:op %d (%s) returned %s, the same history applied directly gives %s", i, op.kind, outs[i], want)
			}
		}
	}
	if pending == 0 {
		want := c21Sweep(ctx, st, ub, uk)
		if strings.Join(want, " ") != strings.Join(sweep, " ") {
			return "FAIL:drained inner storage " + strings.Join(sweep, " ") + " differs from the accepted writes applied directly " + strings.Join(want, " ")
		}
	}
	return "OK"
}
