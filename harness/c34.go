//go:build verif

package main

import (
	"net/http"
	"net/http/httptest"
	"regexp"
	"strconv"
	"strings"

	"github.com/jdillenkofer/pithos/internal/http/middleware"
	"github.com/jdillenkofer/pithos/internal/storage"
)

// C34 — CORS middleware. Case line: <rules> <method> <origin> <acrm> <acrh> (see coq/Model/Cors.v).
type c34 struct{}

func init() { register("C34", c34{}) }

func (c34) Parallel() bool { return true }

var c34Hosts = []string{"example.com", "a.example.com", "App.Example.com", "b.org", "x", ""}
var c34OriginPatterns = []string{"*", "https://*.example.com", "http://*", "https://a.example.com", "https://b.org",
	"*.org", "https://*", "h*s://b.org", "**", "https://*.*.com", "", " ", "HTTPS://A.EXAMPLE.COM", "https://a?example.com", "https://[a].com"}
var c34Methods = []string{"GET", "PUT", "POST", "DELETE", "HEAD", "PATCH", "OPTIONS", "get", " put ", "Put", "TRACE", "", "GE T"}
var c34HeaderPatterns = []string{"*", "x-amz-*", "content-type", "X-Amz-Date", "x-*-id", "authorization", "**", "x-**", "", "x-amz-meta-*"}
var c34ReqHeaders = []string{"x-amz-date", "X-Amz-Meta-Foo", "content-type", "Authorization", "x-custom-id", "x--id", "", " ", "range", "x-amz-"}

func c34Pad(r *Rng, s string) string {
	if r.Chance(15) {
		s = " " + s
	}
	if r.Chance(15) {
		s = s + "\t"
	}
	return s
}

func c34Case(r *Rng, s string) string {
	switch r.Intn(8) {
	case 0:
		return strings.ToUpper(s)
	case 1:
		return strings.ToLower(s)
	}
	return s
}

func c34List(r *Rng, pool []string, max int) []string {
	n := r.Intn(max + 1)
	out := make([]string, n)
	for i := range out {
		out[i] = c34Pad(r, c34Case(r, r.Pick(pool)))
	}
	return out
}

// tiny-alphabet strings drive the wildcard matcher through overlap / empty / multi-star corners
func c34Tiny(r *Rng, star bool) string {
	alpha := "ab"
	if star {
		alpha = "ab*a*"
	}
	n := r.Intn(5)
	b := make([]byte, n)
	for i := range b {
		b[i] = alpha[r.Intn(len(alpha))]
	}
	return string(b)
}

func c34GenTiny(r *Rng) string {
	nr := 1 + r.Intn(2)
	rules := make([]string, nr)
	for i := range rules {
		var origins, headers []string
		for k := 0; k <= r.Intn(2); k++ {
			origins = append(origins, c34Tiny(r, true))
		}
		for k := 0; k < r.Intn(3); k++ {
			headers = append(headers, c34Tiny(r, true))
		}
		methods := []string{r.Pick(c34Methods[:7])}
		if r.Bool() {
			methods = append(methods, r.Pick(c34Methods[:7]))
		}
		rules[i] = strings.Join([]string{"N", tokList(origins), tokList(methods), tokList(headers), "_", "N"}, "/")
	}
	method := r.Pick([]string{"GET", "PUT", "OPTIONS", "OPTIONS"})
	acrm := ""
	if method == "OPTIONS" {
		acrm = r.Pick(c34Methods[:7])
	}
	var hs []string
	for k := 0; k < r.Intn(3); k++ {
		hs = append(hs, c34Tiny(r, r.Chance(10)))
	}
	return strings.Join([]string{strings.Join(rules, "|"), tokBytes(method), tokBytes(c34Tiny(r, r.Chance(10))), tokBytes(acrm), tokBytes(strings.Join(hs, ","))}, " ")
}

func (c34) Gen(r *Rng, tier string, n int) []string {
	cases := make([]string, 0, n)
	for len(cases) < n {
		if r.Chance(2) {
			cases = append(cases, c34GenSrv(r))
			continue
		}
		if r.Chance(35) {
			cases = append(cases, c34GenTiny(r))
			continue
		}
		nr := r.Intn(4)
		if r.Chance(5) {
			nr = 0
		}
		rules := make([]string, nr)
		var pats []string
		for i := range rules {
			id := "N"
			if r.Chance(40) {
				s := r.Pick([]string{"a", "b", "rule-1", ""})
				if r.Chance(3) {
					s = strings.Repeat("x", 255+r.Intn(2))
				}
				id = "S" + tokBytes(s)
			}
			origins := c34List(r, c34OriginPatterns[:9], 3)
			if r.Chance(85) && len(origins) == 0 {
				origins = []string{r.Pick(c34OriginPatterns[:8])}
			}
			if r.Chance(4) {
				origins = append(origins, r.Pick(c34OriginPatterns[8:]))
			}
			pats = append(pats, origins...)
			methods := c34List(r, c34Methods[:10], 3)
			if r.Chance(85) && len(methods) == 0 {
				methods = []string{r.Pick(c34Methods[:7])}
			}
			if r.Chance(3) {
				methods = append(methods, r.Pick(c34Methods[10:]))
			}
			headers := c34List(r, c34HeaderPatterns[:6], 3)
			if r.Chance(3) {
				headers = append(headers, r.Pick(c34HeaderPatterns[6:]))
			}
			expose := c34List(r, []string{"ETag", "x-amz-request-id", " ", "x-amz-version-id"}, 2)
			maxAge := "N"
			if r.Chance(40) {
				maxAge = strconv.Itoa(r.Intn(4000) - 100)
			}
			rules[i] = strings.Join([]string{id, tokList(origins), tokList(methods), tokList(headers), tokList(expose), maxAge}, "/")
		}
		rs := "~"
		if nr > 0 {
			rs = strings.Join(rules, "|")
		}
		method := r.Pick([]string{"GET", "PUT", "OPTIONS", "OPTIONS", "OPTIONS", "DELETE", "HEAD", "POST", "options"})
		origin := ""
		switch k := r.Intn(10); {
		case k == 0:
			origin = r.Pick([]string{"", " ", "\t"})
		case k <= 5 && len(pats) > 0:
			// instantiate a configured pattern: replace stars by random middles
			p := strings.TrimSpace(r.Pick(pats))
			origin = strings.ReplaceAll(p, "*", r.Pick([]string{"", "a", "app", "a.b", "*", "example"}))
			if r.Chance(10) && len(origin) > 0 { // near miss: drop or add one byte
				if r.Bool() {
					origin = origin[:len(origin)-1]
				} else {
					origin = origin + "x"
				}
			}
			origin = c34Case(r, origin)
		default:
			origin = r.Pick([]string{"https://", "http://", ""}) + r.Pick(c34Hosts)
		}
		origin = c34Pad(r, origin)
		acrm := ""
		if method == "OPTIONS" && r.Chance(85) || r.Chance(10) {
			acrm = c34Pad(r, r.Pick(c34Methods))
		}
		acrh := ""
		if r.Chance(60) {
			hs := c34List(r, c34ReqHeaders, 3)
			acrh = strings.Join(hs, r.Pick([]string{",", ", ", " ,"}))
		}
		cases = append(cases, strings.Join([]string{rs, tokBytes(method), tokBytes(origin), tokBytes(acrm), tokBytes(acrh)}, " "))
	}
	return cases
}

func c34ParseRules(t string) []storage.CORSRule {
	if t == "~" {
		return nil
	}
	var rules []storage.CORSRule
	for _, rt := range strings.Split(t, "|") {
		f := strings.Split(rt, "/")
		var rule storage.CORSRule
		if f[0] != "N" {
			id := untokBytes(f[0][1:])
			rule.ID = &id
		}
		rule.AllowedOrigins = untokList(f[1])
		rule.AllowedMethods = untokList(f[2])
		rule.AllowedHeaders = untokList(f[3])
		rule.ExposeHeaders = untokList(f[4])
		if f[5] != "N" {
			v, _ := strconv.Atoi(f[5])
			rule.MaxAgeSeconds = &v
		}
		rules = append(rules, rule)
	}
	return rules
}

// independent reading of the documented wildcard semantics, used by the direct oracle
func c34SpecWild(pattern, value string) bool {
	pattern, value = strings.ToLower(pattern), strings.ToLower(value)
	i := strings.Index(pattern, "*")
	if i < 0 {
		return pattern == value
	}
	re := "(?s)^" + regexp.QuoteMeta(pattern[:i]) + ".*" + regexp.QuoteMeta(pattern[i+1:]) + "$"
	return regexp.MustCompile(re).MatchString(value)
}

func c34SpecHeaderList(v string) []string {
	var out []string
	for _, p := range strings.Split(v, ",") {
		p = strings.ToLower(strings.TrimSpace(p))
		if p != "" {
			out = append(out, p)
		}
	}
	return out
}

func c34SpecRuleMatches(rule storage.CORSRule, origin, method string, preflight bool, reqHeaders []string) bool {
	ok := false
	for _, a := range rule.AllowedOrigins {
		if c34SpecWild(a, origin) {
			ok = true
		}
	}
	if !ok {
		return false
	}
	ok = false
	for _, m := range rule.AllowedMethods {
		if m == strings.ToUpper(strings.TrimSpace(method)) {
			ok = true
		}
	}
	if !ok {
		return false
	}
	if preflight && len(reqHeaders) > 0 {
		for _, h := range reqHeaders {
			found := false
			for _, a := range rule.AllowedHeaders {
				if a == "*" || c34SpecWild(a, h) {
					found = true
				}
			}
			if !found {
				return false
			}
		}
	}
	return true
}

func (c34) Run(in string, scratch string) Result {
	if strings.HasPrefix(in, "SRV ") {
		return c34RunSrv(in, scratch)
	}
	f := strings.Split(in, " ")
	raw := c34ParseRules(f[0])
	method, origin, acrm, acrh := untokBytes(f[1]), untokBytes(f[2]), untokBytes(f[3]), untokBytes(f[4])
	rules, err := middleware.NormalizeAndValidateCORSRules(raw)
	if err != nil {
		return Result{Out: "INVALID", Oracle: "-", Tags: []string{"invalid"}}
	}
	nextCalled := false
	next := http.HandlerFunc(func(w http.ResponseWriter, r *http.Request) { nextCalled = true })
	h := middleware.MakeCORSMiddleware(rules, next)
	req := httptest.NewRequest(method, "http://s3.localhost/bucket/key", nil)
	if origin != "" {
		req.Header["Origin"] = []string{origin}
	}
	if acrm != "" {
		req.Header["Access-Control-Request-Method"] = []string{acrm}
	}
	if acrh != "" {
		req.Header["Access-Control-Request-Headers"] = []string{acrh}
	}
	rec := httptest.NewRecorder()
	h.ServeHTTP(rec, req)
	outcome := strconv.Itoa(rec.Code)
	if nextCalled {
		outcome = "NEXT"
	}
	hdr := rec.Header()
	opt := func(k string) string {
		v, ok := hdr[k]
		if !ok {
			return "N"
		}
		return "S" + tokBytes(strings.Join(v, "\x00"))
	}
	maxAge := "N"
	if v, ok := hdr["Access-Control-Max-Age"]; ok {
		maxAge = v[0]
	}
	out := strings.Join([]string{outcome, opt("Access-Control-Allow-Origin"), opt("Access-Control-Allow-Methods"),
		opt("Access-Control-Allow-Headers"), opt("Access-Control-Expose-Headers"), maxAge, tokList(hdr["Vary"])}, " ")

	// ---- direct oracle: the property itself on the implementation's response ----
	tOrigin := strings.TrimSpace(origin)
	preflight := method == "OPTIONS" && strings.TrimSpace(acrm) != ""
	effMethod := method
	if preflight {
		effMethod = acrm
	}
	reqHeaders := c34SpecHeaderList(acrh)
	matches := false
	starRule := false
	for _, rule := range rules {
		if c34SpecRuleMatches(rule, tOrigin, effMethod, preflight, reqHeaders) {
			matches = true
			for _, a := range rule.AllowedOrigins {
				if a == "*" {
					starRule = true
				}
			}
		}
	}
	_, hasACAO := hdr["Access-Control-Allow-Origin"]
	oracle := "OK"
	tags := []string{}
	switch {
	case tOrigin == "":
		tags = append(tags, "no-origin")
		if !nextCalled || len(hdr) != 0 {
			oracle = "FAIL:non-CORS request was affected"
		}
	case hasACAO && !matches:
		oracle = "FAIL:Access-Control-Allow-Origin granted without a matching rule"
	case !hasACAO && matches:
		oracle = "FAIL:matching rule exists but no Access-Control-Allow-Origin"
	case preflight && matches && outcome != "200":
		oracle = "FAIL:preflight with matching rule not answered 200"
	case preflight && !matches && outcome != "403":
		oracle = "FAIL:preflight without matching rule not rejected"
	case !preflight && !nextCalled:
		oracle = "FAIL:non-preflight request blocked"
	}
	if hasACAO && oracle == "OK" {
		v := hdr.Get("Access-Control-Allow-Origin")
		if !(v == tOrigin || (v == "*" && starRule)) {
			oracle = "FAIL:Access-Control-Allow-Origin value is neither the origin nor a configured *"
		}
	}
	if tOrigin != "" {
		switch {
		case preflight && matches:
			tags = append(tags, "preflight-ok")
		case preflight:
			tags = append(tags, "preflight-403")
		case matches:
			tags = append(tags, "granted")
		default:
			tags = append(tags, "no-match")
		}
		if len(reqHeaders) > 0 && preflight {
			tags = append(tags, "req-headers")
		}
	}
	return Result{Out: out, Oracle: oracle, Tags: tags}
}
