//go:build verif

package main

import (
	"bytes"
	"encoding/xml"
	"fmt"
	"io"
	"log/slog"
	"net/http"
	"net/http/httptest"
	"path/filepath"
	"strconv"
	"strings"
	"sync"
	"sync/atomic"

	"github.com/jdillenkofer/pithos/internal/http/middleware"
	"github.com/jdillenkofer/pithos/internal/http/server"
	"github.com/jdillenkofer/pithos/internal/storage"
)

// C34 server leg — histories through the real server (server.SetupServer over a metadatapart storage):
// PutBucketCORS / DeleteBucketCORS / CreateBucket / DeleteBucket over HTTP (XML body parsed by
// internal/http/server/cors.go), then Origin-bearing requests whose CORS rules are resolved by
// resolveCORSRulesForRequest -> bucketFromPath -> corscache -> storage.  Case line:
//   SRV <op> <op> ...   op = C<name> | X<name> | D<name> | P<name>:<rules> | R<path>:<method>:<origin>:<acrm>:<acrh>
//                       | V<bucket>:<path>:<method>:<origin>:<acrm>:<acrh>  (virtual-hosted: Host = <bucket>.s3.localhost)
// (see coq/Model/Cors.v, sstep).  Bucket names b0/b1/zz of the line are made unique per case, so that all cases
// share one server instance while each starts from an empty cache and store.

var (
	c34SrvOnce sync.Once
	c34SrvEnv  *c06Env
	c34SrvSeq  atomic.Int64
)

func c34GetSrv(scratch string) *c06Env {
	c34SrvOnce.Do(func() {
		slog.SetDefault(slog.New(slog.NewTextHandler(io.Discard, nil)))
		c34SrvEnv = c06NewEnv(filepath.Join(filepath.Dir(scratch), fmt.Sprintf("c34-env-%d", c34SrvSeq.Add(1))))
	})
	return c34SrvEnv
}

var c34SrvOrigins = []string{"https://a.example.com", "https://b.org", "http://x", "https://App.Example.com", "https://example.com", " https://b.org ", ""}
var c34SrvPaths = []string{"/b0/key", "/b0", "/b0/", "/b1/k", "/b1", "/zz/k", "/", "/b0/b1/x", "//b0/x", "/ b0/k", "/b0 /k", "/b1/b0"}

func c34GenSrvRules(r *Rng) string {
	nr := 1 + r.Intn(2)
	rules := make([]string, nr)
	for i := range rules {
		origins := c34List(r, c34OriginPatterns[:8], 2)
		if len(origins) == 0 || r.Chance(50) {
			origins = append(origins, r.Pick(c34OriginPatterns[:8]))
		}
		methods := c34List(r, c34Methods[:9], 2)
		if len(methods) == 0 || r.Chance(50) {
			methods = append(methods, r.Pick(c34Methods[:7]))
		}
		if r.Chance(3) {
			methods = append(methods, "TRACE")
		}
		headers := c34List(r, c34HeaderPatterns[:6], 2)
		expose := c34List(r, []string{"ETag", "x-amz-request-id"}, 2)
		maxAge := "N"
		if r.Chance(40) {
			maxAge = strconv.Itoa(r.Intn(4000))
		}
		id := "N"
		if r.Chance(30) {
			id = "S" + tokBytes(r.Pick([]string{"a", "b", "rule-1"}))
		}
		rules[i] = strings.Join([]string{id, tokList(origins), tokList(methods), tokList(headers), tokList(expose), maxAge}, "/")
	}
	return strings.Join(rules, "|")
}

func c34GenSrvReq(r *Rng) string {
	method := r.Pick([]string{"GET", "OPTIONS", "OPTIONS", "HEAD", "GET"}) // safe methods only: the request itself must not change the store
	acrm := ""
	if method == "OPTIONS" && r.Chance(90) {
		acrm = r.Pick(c34Methods[:8])
	}
	acrh := ""
	if r.Chance(40) {
		acrh = strings.Join(c34List(r, c34ReqHeaders[:5], 2), ", ")
	}
	path := r.Pick(c34SrvPaths)
	if r.Chance(60) {
		path = r.Pick(c34SrvPaths[:5])
	}
	if r.Chance(25) { // virtual-hosted: Host = <bucket>.s3.localhost, the resolver must see the rewritten path
		return "V" + strings.Join([]string{tokBytes(r.Pick([]string{"b0", "b0", "b1", "zz"})), tokBytes(r.Pick([]string{"/key", "/", "/b1/k", "/b0", "/a/b/"})),
			tokBytes(method), tokBytes(r.Pick(c34SrvOrigins)), tokBytes(acrm), tokBytes(acrh)}, ":")
	}
	return "R" + strings.Join([]string{tokBytes(path), tokBytes(method), tokBytes(r.Pick(c34SrvOrigins)), tokBytes(acrm), tokBytes(acrh)}, ":")
}

func c34GenSrv(r *Rng) string {
	ops := []string{"SRV", "C" + tokBytes("b0")}
	if r.Chance(70) {
		ops = append(ops, "C"+tokBytes("b1"))
	}
	n := 4 + r.Intn(8)
	for i := 0; i < n; i++ {
		b := r.Pick([]string{"b0", "b0", "b1", "zz"})
		switch k := r.Intn(20); {
		case k < 4:
			ops = append(ops, "P"+tokBytes(b)+":"+c34GenSrvRules(r))
		case k < 6:
			ops = append(ops, "D"+tokBytes(b))
		case k < 8:
			ops = append(ops, "X"+tokBytes(b))
		case k < 10:
			ops = append(ops, "C"+tokBytes(b))
		default:
			ops = append(ops, c34GenSrvReq(r))
		}
	}
	return strings.Join(ops, " ")
}

func c34SrvDo(h http.Handler, method, target string, body []byte, hdr map[string]string) *httptest.ResponseRecorder {
	return c34SrvDoHost(h, "s3.localhost", method, target, body, hdr)
}

func c34SrvDoHost(h http.Handler, host, method, target string, body []byte, hdr map[string]string) *httptest.ResponseRecorder {
	req := httptest.NewRequest(method, "http://"+host+target, bytes.NewReader(body))
	req.Host = host
	for k, v := range hdr {
		req.Header[k] = []string{v}
	}
	rec := httptest.NewRecorder()
	h.ServeHTTP(rec, req)
	return rec
}

func c34RunSrv(in string, scratch string) Result {
	env := c34GetSrv(scratch)
	uniq := fmt.Sprintf("c34s%07d", c34SrvSeq.Add(1))
	real := func(s string) string {
		for _, n := range []string{"b0", "b1", "zz"} {
			s = strings.ReplaceAll(s, n, uniq+n)
		}
		return s
	}
	cfg := map[string][]storage.CORSRule{} // oracle's own record: existing bucket -> current (normalized) rules
	exists := map[string]bool{}
	var outs []string
	oracle := "OK"
	tags := []string{"srv"}
	fail := func(s string) {
		if oracle == "OK" {
			oracle = "FAIL:" + s
		}
	}
	for _, op := range strings.Split(in, " ")[1:] {
		f := strings.Split(op[1:], ":")
		name := untokBytes(f[0])
		switch op[0] {
		case 'C':
			rec := c34SrvDo(env.handler, "PUT", "/"+real(name), nil, nil)
			if rec.Code == 200 && !exists[name] {
				exists[name] = true
			}
			outs = append(outs, "ok")
		case 'X':
			c34SrvDo(env.handler, "DELETE", "/"+real(name), nil, nil)
			delete(exists, name)
			delete(cfg, name)
			outs = append(outs, "ok")
		case 'D':
			c34SrvDo(env.handler, "DELETE", "/"+real(name)+"?cors", nil, nil)
			delete(cfg, name)
			outs = append(outs, "ok")
		case 'P':
			raw := c34ParseRules(f[1])
			doc := server.CORSConfiguration{}
			for _, r := range raw {
				doc.Rules = append(doc.Rules, server.CORSConfigurationRule{ID: r.ID, AllowedOrigins: r.AllowedOrigins,
					AllowedMethods: r.AllowedMethods, AllowedHeaders: r.AllowedHeaders, ExposeHeaders: r.ExposeHeaders, MaxAgeSeconds: r.MaxAgeSeconds})
			}
			body, err := xml.Marshal(doc)
			if err != nil {
				panic(err)
			}
			rec := c34SrvDo(env.handler, "PUT", "/"+real(name)+"?cors", body, nil)
			norm, nerr := middleware.NormalizeAndValidateCORSRules(raw)
			switch {
			case nerr != nil:
				if rec.Code != 400 {
					fail("invalid CORS configuration not rejected with 400")
				}
				outs = append(outs, "INVALID")
			default:
				if exists[name] {
					if rec.Code != 200 {
						fail("valid PutBucketCORS on an existing bucket answered " + strconv.Itoa(rec.Code))
					}
					cfg[name] = norm
				}
				outs = append(outs, "ok")
			}
		case 'R', 'V':
			host, modelPath := "s3.localhost", untokBytes(f[0])
			if op[0] == 'V' { // f = bucket, path, ...; the model sees the path-style twin
				host = real(untokBytes(f[0])) + ".s3.localhost"
				modelPath = "/" + untokBytes(f[0]) + untokBytes(f[1])
				if untokBytes(f[1]) == "/" || untokBytes(f[1]) == "" {
					modelPath = "/" + untokBytes(f[0])
				}
				f = f[1:]
			}
			path, method, origin, acrm, acrh := real(untokBytes(f[0])), untokBytes(f[1]), untokBytes(f[2]), untokBytes(f[3]), untokBytes(f[4])
			hdr := map[string]string{}
			if origin != "" {
				hdr["Origin"] = origin
			}
			if acrm != "" {
				hdr["Access-Control-Request-Method"] = acrm
			}
			if acrh != "" {
				hdr["Access-Control-Request-Headers"] = acrh
			}
			rec := c34SrvDoHost(env.handler, host, method, strings.ReplaceAll(path, " ", "%20"), nil, hdr)
			tOrigin := strings.TrimSpace(origin)
			preflight := method == "OPTIONS" && strings.TrimSpace(acrm) != ""
			h := rec.Header()
			outcome := "NEXT"
			if preflight && tOrigin != "" {
				outcome = strconv.Itoa(rec.Code)
			}
			opt := func(k string) string {
				v, ok := h[k]
				if !ok {
					return "N"
				}
				return "S" + tokBytes(strings.Join(v, "\x00"))
			}
			maxAge := "N"
			if v, ok := h["Access-Control-Max-Age"]; ok {
				maxAge = v[0]
			}
			outs = append(outs, strings.Join([]string{outcome, opt("Access-Control-Allow-Origin"), opt("Access-Control-Allow-Methods"),
				opt("Access-Control-Allow-Headers"), opt("Access-Control-Expose-Headers"), maxAge, tokList(h["Vary"])}, " "))
			// direct oracle: the addressed bucket's CURRENT configuration decides
			seg := strings.TrimPrefix(modelPath, "/")
			if i := strings.IndexByte(seg, '/'); i >= 0 {
				seg = seg[:i]
			}
			seg = strings.TrimSpace(seg)
			effMethod := method
			if preflight {
				effMethod = acrm
			}
			matches := false
			for _, rule := range cfg[seg] {
				if c34SpecRuleMatches(rule, tOrigin, effMethod, preflight, c34SpecHeaderList(acrh)) {
					matches = true
				}
			}
			_, hasACAO := h["Access-Control-Allow-Origin"]
			switch {
			case tOrigin == "" && hasACAO:
				fail("non-CORS request got Access-Control-Allow-Origin")
			case tOrigin != "" && hasACAO && !matches:
				fail("Access-Control-Allow-Origin granted although the addressed bucket's current configuration has no matching rule (bucket " + seg + ")")
			case tOrigin != "" && !hasACAO && matches:
				fail("the addressed bucket's configuration has a matching rule but no Access-Control-Allow-Origin (bucket " + seg + ")")
			case tOrigin != "" && preflight && matches && rec.Code != 200:
				fail("preflight with matching rule not answered 200")
			case tOrigin != "" && preflight && !matches && rec.Code != 403:
				fail("preflight without matching rule not rejected")
			}
			if hasACAO {
				tags = append(tags, "srv-granted")
			}
		}
	}
	return Result{Out: strings.Join(outs, " ; "), Oracle: oracle, Tags: tags}
}
