//go:build verif

package main

import (
	"bytes"
	"context"
	"encoding/xml"
	"fmt"
	"io"
	"log/slog"
	"net/http"
	"net/http/httptest"
	"net/url"
	"os"
	"path/filepath"
	"sort"
	"strconv"
	"strings"
	"sync"
	"time"
	"unicode/utf8"

	"github.com/jdillenkofer/pithos/internal/http/server/authorization"
	"github.com/jdillenkofer/pithos/internal/http/server"
	"github.com/jdillenkofer/pithos/internal/storage"
	repositoryFactory "github.com/jdillenkofer/pithos/internal/storage/database/repository"
	"github.com/jdillenkofer/pithos/internal/storage/database/sqlite"
	"github.com/jdillenkofer/pithos/internal/storage/metadatapart"
	sqlMetadataStore "github.com/jdillenkofer/pithos/internal/storage/metadatapart/metadatastore/sql"
	sqlPartStore "github.com/jdillenkofer/pithos/internal/storage/metadatapart/partstore/sql"
)

// C06 — listings complete, ordered, duplicate-free, prefix-exact.  Case lines: see coq/Model/Listing.v.
type c06 struct{}

func init() { register("C06", c06{}) }

func (c06) Parallel() bool { return true }

// ---- the real stack: MetadataPartStorage on a temp SQLite + the HTTP server, one per process ----
type c06AllowAll struct{}

func (c06AllowAll) AuthorizeRequest(ctx context.Context, r *authorization.Request) (bool, error) {
	return true, nil
}

type c06Env struct {
	st      storage.Storage
	handler http.Handler
	mu      sync.Mutex
	buckets map[string]string // key-set token -> bucket name
	uploads map[string]string // parts token -> upload id
	hists   map[string]*c06Hist
	nb      int
}

var (
	c06EnvOnce sync.Once
	c06TheEnv  *c06Env
)

func c06GetEnv(scratch string) *c06Env {
	c06EnvOnce.Do(func() {
		// the server logs every request at Info level
		slog.SetDefault(slog.New(slog.NewTextHandler(io.Discard, nil)))
		dir := filepath.Join(filepath.Dir(scratch), "c06-env")
		c06TheEnv = c06NewEnv(dir)
	})
	return c06TheEnv
}

func c06Must(err error) {
	if err != nil {
		panic(err)
	}
}

func c06NewEnv(dir string) *c06Env {
	c06Must(os.MkdirAll(dir, 0o755))
	db, err := sqlite.OpenDatabase(filepath.Join(dir, "pithos.db"))
	c06Must(err)
	pcr, err := repositoryFactory.NewPartContentRepository(db)
	c06Must(err)
	ps, err := sqlPartStore.New(db, pcr)
	c06Must(err)
	br, err := repositoryFactory.NewBucketRepository(db)
	c06Must(err)
	or, err := repositoryFactory.NewObjectRepository(db)
	c06Must(err)
	pr, err := repositoryFactory.NewPartRepository(db)
	c06Must(err)
	tr, err := repositoryFactory.NewTagRepository(db)
	c06Must(err)
	ur, err := repositoryFactory.NewUserMetadataRepository(db)
	c06Must(err)
	ms, err := sqlMetadataStore.New(db, br, or, pr, tr, ur)
	c06Must(err)
	st, err := metadatapart.NewStorage(db, ms, ps)
	c06Must(err)
	c06Must(st.Start(context.Background()))
	h := server.SetupServer(nil, "eu-central-1", "s3.localhost", "s3-website.localhost", c06AllowAll{}, st)
	return &c06Env{st: st, handler: h, buckets: map[string]string{}, uploads: map[string]string{}}
}

// bucket holding exactly the given key set (created once per distinct key set)
func (e *c06Env) bucketFor(ksTok string, keys []string) storage.BucketName {
	e.mu.Lock()
	defer e.mu.Unlock()
	if b, ok := e.buckets[ksTok]; ok {
		return storage.MustNewBucketName(b)
	}
	e.nb++
	name := fmt.Sprintf("c06b%07d", e.nb)
	bn := storage.MustNewBucketName(name)
	ctx := context.Background()
	c06Must(e.st.CreateBucket(ctx, bn))
	for _, k := range keys {
		_, err := e.st.PutObject(ctx, bn, storage.MustNewObjectKey(k), nil, bytes.NewReader([]byte("x")), nil, nil)
		c06Must(err)
	}
	e.buckets[ksTok] = name
	return bn
}

func (e *c06Env) uploadFor(tok string, parts []int) (storage.BucketName, string) {
	e.mu.Lock()
	defer e.mu.Unlock()
	bn := storage.MustNewBucketName("c06parts")
	ctx := context.Background()
	if len(e.uploads) == 0 {
		c06Must(e.st.CreateBucket(ctx, bn))
	}
	if id, ok := e.uploads[tok]; ok {
		return bn, id
	}
	key := storage.MustNewObjectKey(fmt.Sprintf("k%d", len(e.uploads)))
	res, err := e.st.CreateMultipartUpload(ctx, bn, key, nil, nil, nil)
	c06Must(err)
	for _, p := range parts {
		_, err := e.st.UploadPart(ctx, bn, key, res.UploadId, int32(p), bytes.NewReader([]byte("p")), nil)
		c06Must(err)
	}
	e.uploads[tok] = key.String() + "\x00" + res.UploadId.String()
	return bn, e.uploads[tok]
}

// one request; a handler that does not come back within the deadline (e.g. a paging loop inside the
// server that never advances its marker) is reported as status 0 = non-termination; the request context
// is cancelled so that its storage calls fail and the loop ends
func (e *c06Env) get(path string, q url.Values) (int, []byte) {
	ctx, cancel := context.WithTimeout(context.Background(), 10*time.Second)
	defer cancel()
	req := httptest.NewRequest("GET", "http://s3.localhost"+path+"?"+q.Encode(), nil).WithContext(ctx)
	req.Host = "s3.localhost"
	rec := httptest.NewRecorder()
	done := make(chan struct{})
	go func() {
		defer func() { recover(); close(done) }()
		e.handler.ServeHTTP(rec, req)
	}()
	select {
	case <-done:
		if ctx.Err() != nil {
			return 0, nil
		}
		return rec.Code, rec.Body.Bytes()
	case <-time.After(15 * time.Second):
		return 0, nil
	}
}

// ---- generator ----
const c06Alphabet = "aAb_%/0"

func c06Key(r *Rng) string {
	n := 1 + r.Intn(5)
	b := make([]byte, n)
	for i := range b {
		switch {
		case r.Chance(22):
			b[i] = '/'
		case r.Chance(35):
			b[i] = 'a'
		default:
			b[i] = c06Alphabet[r.Intn(len(c06Alphabet))]
		}
	}
	s := string(b)
	if r.Chance(6) { // a multi-byte UTF-8 character somewhere
		i := r.Intn(len(s) + 1)
		s = s[:i] + r.Pick([]string{"é", "É", "€"}) + s[i:]
	}
	return s
}

func c06KeySet(r *Rng, tier string) []string {
	n := 1 + r.Intn(7)
	if tier == "thorough" && r.Chance(20) {
		n = 8 + r.Intn(8)
	}
	seen := map[string]bool{}
	var keys []string
	for len(keys) < n {
		k := c06Key(r)
		if len(keys) > 0 && r.Chance(45) { // relatives of an existing key: shared directory, case twin, sibling
			base := r.Pick(keys)
			switch r.Intn(4) {
			case 0:
				k = base[:r.Intn(len(base)+1)] + c06Key(r)[:1]
			case 1:
				k = strings.ToUpper(base)
				if k == base {
					k = strings.ToLower(base)
				}
			case 2:
				k = base + "/" + c06Key(r)[:1]
			case 3:
				if i := strings.LastIndex(base, "/"); i >= 0 {
					k = base[:i+1] + c06Key(r)[:1]
				}
			}
			for len(k) > 6 || !utf8.ValidString(k) {
				k = k[:len(k)-1]
			}
		}
		if k == "" || seen[k] {
			if r.Chance(30) {
				n--
			}
			continue
		}
		seen[k] = true
		keys = append(keys, k)
	}
	return keys
}

func c06Sub(r *Rng, keys []string) string {
	k := r.Pick(keys)
	i := r.Intn(len(k) + 1)
	j := i + r.Intn(len(k)-i+1)
	return c06Valid(k[i:j])
}

// cut to valid UTF-8 (drop a split multi-byte character at either end)
func c06Valid(s string) string {
	for len(s) > 0 && !utf8.RuneStart(s[0]) {
		s = s[1:]
	}
	for len(s) > 0 && !utf8.ValidString(s) {
		s = s[:len(s)-1]
	}
	return s
}

func c06Query(r *Rng, keys []string) (prefix, delim string, marker *string, max int) {
	switch k := r.Intn(10); {
	case k < 2:
		prefix = ""
	case k < 8:
		b := r.Pick(keys)
		prefix = c06Valid(b[:r.Intn(len(b)+1)])
	default:
		prefix = c06Sub(r, keys)
	}
	if prefix != "" && r.Chance(18) && prefix[0] < 0x80 { // perturb: other case / LIKE metacharacter at one position
		i := 0
		if r.Bool() {
			for i = r.Intn(len(prefix)); prefix[i] >= 0x80; i-- {
			}
		}
		c := prefix[i : i+1]
		switch r.Intn(4) {
		case 0:
			c = strings.ToUpper(c)
		case 1:
			c = strings.ToLower(c)
		case 2:
			c = "_"
		case 3:
			c = "%"
		}
		prefix = prefix[:i] + c + prefix[i+1:]
	}
	switch k := r.Intn(20); {
	case k < 7:
		delim = ""
	case k < 16:
		delim = "/"
	case k < 19:
		delim = c06Sub(r, keys)
		if len(delim) > 1 {
			delim = c06Valid(delim[:1])
		}
	default:
		delim = c06Sub(r, keys)
		if len(delim) > 2 {
			delim = c06Valid(delim[:2])
		}
	}
	if r.Chance(45) {
		var m string
		switch r.Intn(4) {
		case 0:
			m = r.Pick(keys)
		case 1:
			b := r.Pick(keys)
			m = c06Valid(b[:r.Intn(len(b)+1)])
		case 2:
			m = r.Pick(keys) + r.Pick([]string{"/", "0", "a"})
		default:
			m = c06Sub(r, keys)
		}
		marker = &m
	}
	switch k := r.Intn(10); {
	case k < 4:
		max = 1
	case k < 6:
		max = 2
	default:
		max = 1 + r.Intn(len(keys)+1)
	}
	return
}

func c06Line(op string, keys []string, prefix, delim string, marker *string, max int) string {
	return strings.Join([]string{op, tokList(keys), tokBytes(prefix), tokBytes(delim), tokOpt(marker), strconv.Itoa(max)}, " ")
}

func (c06) Gen(r *Rng, tier string, n int) []string {
	cases := make([]string, 0, n)
	perSet := 14
	for len(cases) < n {
		if r.Chance(6) { // ListParts
			np := 1 + r.Intn(6)
			parts := make([]string, np)
			for i := range parts {
				parts[i] = strconv.Itoa(1 + r.Intn(9))
				if r.Chance(10) {
					parts[i] = strconv.Itoa(9990 + r.Intn(11))
				}
			}
			for q := 0; q < 4 && len(cases) < n; q++ {
				m := "N"
				if r.Chance(40) {
					m = strconv.Itoa(r.Intn(11))
				}
				cases = append(cases, strings.Join([]string{"P", strings.Join(parts, ","), m, strconv.Itoa(1 + r.Intn(np+1))}, " "))
			}
			continue
		}
		if r.Chance(42) { // ListObjectVersions / ListMultipartUploads on a write history
			for _, c := range c06GenHistoryCases(r, 10) {
				if len(cases) < n {
					cases = append(cases, c)
				}
			}
			continue
		}
		keys := c06KeySet(r, tier)
		for q := 0; q < perSet && len(cases) < n; q++ {
			prefix, delim, marker, max := c06Query(r, keys)
			op := r.Pick([]string{"S", "H1", "H1", "H2", "H2", "H2b", "H2b", "H2t"})
			if op == "H2b" && marker == nil && r.Chance(70) { // SDK paginators repeat start-after on every page
				m := ""
				if r.Chance(50) {
					b := r.Pick(keys)
					m = b[:r.Intn(len(b)+1)]
				}
				marker = &m
			}
			cases = append(cases, c06Line(op, keys, prefix, delim, marker, max))
		}
	}
	return cases
}

// ---- independent S3 listing specification (the direct oracle) ----
type c06Entry struct {
	name string
	cp   bool
}

func c06SpecEntries(keys []string, prefix, delim string, marker *string) []c06Entry {
	return c06SpecEntriesV(keys, prefix, delim, marker, false)
}

// keysFirst=false: entries of the whole listing whose name is after the marker;
// keysFirst=true : the keys after the marker, grouped (a marker that lies inside a common prefix
// lists that prefix again) — S3 leaves this case open for caller-chosen markers, both are accepted
func c06SpecEntriesV(keys []string, prefix, delim string, marker *string, keysFirst bool) []c06Entry {
	ks := append([]string(nil), keys...)
	sort.Strings(ks)
	var out []c06Entry
	for i, k := range ks {
		if i > 0 && ks[i-1] == k {
			continue
		}
		if keysFirst && marker != nil && k <= *marker {
			continue
		}
		if !strings.HasPrefix(k, prefix) {
			continue
		}
		e := c06Entry{name: k}
		if delim != "" {
			if j := strings.Index(k[len(prefix):], delim); j >= 0 {
				e = c06Entry{name: k[:len(prefix)+j+len(delim)], cp: true}
			}
		}
		if len(out) > 0 && out[len(out)-1] == e {
			continue
		}
		out = append(out, e)
	}
	sort.SliceStable(out, func(i, j int) bool { return out[i].name < out[j].name })
	if marker != nil && !keysFirst {
		var f []c06Entry
		for _, e := range out {
			if e.name > *marker {
				f = append(f, e)
			}
		}
		out = f
	}
	return out
}

func c06Merge(objs, cps []string) ([]c06Entry, string) {
	for i := 1; i < len(objs); i++ {
		if objs[i-1] >= objs[i] {
			return nil, fmt.Sprintf("keys out of order or duplicated within a page: %q then %q", objs[i-1], objs[i])
		}
	}
	for i := 1; i < len(cps); i++ {
		if cps[i-1] >= cps[i] {
			return nil, fmt.Sprintf("common prefixes out of order or duplicated within a page: %q then %q", cps[i-1], cps[i])
		}
	}
	var out []c06Entry
	i, j := 0, 0
	for i < len(objs) || j < len(cps) {
		if j >= len(cps) || (i < len(objs) && objs[i] < cps[j]) {
			out = append(out, c06Entry{name: objs[i]})
			i++
		} else {
			out = append(out, c06Entry{name: cps[j], cp: true})
			j++
		}
	}
	return out, ""
}

func c06ShowEntries(es []c06Entry) string {
	s := make([]string, len(es))
	for i, e := range es {
		if e.cp {
			s[i] = "CP:" + e.name
		} else {
			s[i] = e.name
		}
	}
	return strings.Join(s, " ")
}

// known-finding regions, computed from the input alone
func c06LikeRegion(keys []string, prefix string) bool {
	if strings.ContainsAny(prefix, "%_") {
		return true
	}
	for _, k := range keys {
		for i := 0; i < len(prefix) && i < len(k); i++ {
			if prefix[i] != k[i] && c06Lower(prefix[i]) == c06Lower(k[i]) {
				return true
			}
		}
	}
	return false
}
func c06Lower(b byte) byte {
	if b >= 'A' && b <= 'Z' {
		return b + 32
	}
	return b
}
func c06EffMax(max int) int {
	if max <= 0 {
		return 1000
	}
	return max
}

// more rows than one page AND a delimiter: the storage layer returns every common prefix of the
// remainder with the first page of keys and the HTTP loop re-scans
func c06DelimRegion(keys []string, prefix, delim string, marker *string, max int) bool {
	if delim == "" {
		return false
	}
	n := 0
	for _, k := range keys {
		if strings.HasPrefix(k, prefix) && (marker == nil || k > *marker) {
			n++
		}
	}
	return n > c06EffMax(max)
}

type c06ListXML struct {
	IsTruncated           bool     `xml:"IsTruncated"`
	Keys                  []string `xml:"Contents>Key"`
	CommonPrefixes        []string `xml:"CommonPrefixes>Prefix"`
	NextMarker            *string  `xml:"NextMarker"`
	NextContinuationToken *string  `xml:"NextContinuationToken"`
	EncodingType          string   `xml:"EncodingType"`
}

type c06PartsXML struct {
	IsTruncated          bool    `xml:"IsTruncated"`
	Parts                []int   `xml:"Part>PartNumber"`
	NextPartNumberMarker *string `xml:"NextPartNumberMarker"`
}

func c06Bool(b bool) string {
	if b {
		return "1"
	}
	return "0"
}

func (c06) Run(in string, scratch string) Result {
	f := strings.Split(in, " ")
	env := c06GetEnv(scratch)
	if f[0] == "P" {
		return c06RunParts(env, f)
	}
	if len(f) == 7 {
		return c06RunHistory(env, f)
	}
	keys := untokList(f[1])
	prefix, delim := untokBytes(f[2]), untokBytes(f[3])
	var marker *string
	if f[4] != "N" {
		m := untokBytes(f[4][1:])
		marker = &m
	}
	max, _ := strconv.Atoi(f[5])
	bn := env.bucketFor(f[1], keys)
	tags := []string{f[0]}
	if delim != "" {
		tags = append(tags, "delim")
		if len(delim) > 1 {
			tags = append(tags, "delim2")
		}
	} else {
		tags = append(tags, "nodelim")
	}
	if prefix != "" {
		tags = append(tags, "prefix")
	}
	if marker != nil {
		tags = append(tags, "marker")
	}
	expected := c06SpecEntries(keys, prefix, delim, marker)
	expectedB := c06SpecEntriesV(keys, prefix, delim, marker, true)
	if c06ShowEntries(expected) != c06ShowEntries(expectedB) {
		tags = append(tags, "marker-inside-cp")
	}
	if len(expected) == 0 {
		tags = append(tags, "empty")
	}
	if len(expected) > c06EffMax(max) {
		tags = append(tags, "multi-page")
	}
	if c06LikeRegion(keys, prefix) {
		tags = append(tags, "kf:C06-like-prefix")
	}
	if c06DelimRegion(keys, prefix, delim, marker, max) {
		tags = append(tags, "kf:C06-delimiter-paging")
	}
	if len(delim) > 1 {
		tags = append(tags, "kf:C06-multibyte-delimiter")
	}

	if f[0] == "S" {
		opts := storage.ListObjectsOptions{MaxKeys: int32(max)}
		if prefix != "" {
			opts.Prefix = &prefix
		}
		if delim != "" {
			opts.Delimiter = &delim
		}
		opts.StartAfter = marker
		res, err := env.st.ListObjects(context.Background(), bn, opts)
		if err != nil {
			return Result{Out: "ERR", Oracle: "FAIL:storage error " + err.Error(), Tags: tags}
		}
		var objs []string
		for _, o := range res.Objects {
			objs = append(objs, o.Key.String())
		}
		out := strings.Join([]string{tokList(objs), tokList(res.CommonPrefixes), c06Bool(res.IsTruncated)}, " ")
		o := c06OracleStorage(expected, objs, res.CommonPrefixes, res.IsTruncated, delim, max)
		if o != "OK" && c06OracleStorage(expectedB, objs, res.CommonPrefixes, res.IsTruncated, delim, max) == "OK" {
			o = "OK"
		}
		return Result{Out: out, Oracle: o, Tags: tags}
	}

	// HTTP: follow the pagination like a client
	capPages := 2*len(keys) + 3
	var pages []string
	var got []c06Entry
	oracle := ""
	cur := marker
	first := true
	for len(pages) < capPages {
		q := url.Values{}
		v2 := strings.HasPrefix(f[0], "H2")
		if v2 {
			q.Set("list-type", "2")
		}
		encURL := len(in)%5 == 0 // some requests ask for encoding-type=url like the SDKs do
		if encURL {
			q.Set("encoding-type", "url")
		}
		if prefix != "" {
			q.Set("prefix", prefix)
		}
		if delim != "" {
			q.Set("delimiter", delim)
		}
		q.Set("max-keys", strconv.Itoa(max))
		if cur != nil {
			switch {
			case f[0] == "H1":
				q.Set("marker", *cur)
			case first && f[0] == "H2t": // resuming with a stored token
				q.Set("continuation-token", *cur)
			case first:
				q.Set("start-after", *cur)
			default:
				q.Set("continuation-token", *cur)
				if f[0] == "H2b" && marker != nil { // SDK paginators repeat the original start-after
					q.Set("start-after", *marker)
				}
			}
		}
		first = false
		code, body := env.get("/"+bn.String(), q)
		if code == 0 {
			return Result{Out: "TIMEOUT", Oracle: "FAIL:the request does not terminate", Tags: tags}
		}
		if code != 200 {
			return Result{Out: "HTTP" + strconv.Itoa(code), Oracle: "FAIL:status " + strconv.Itoa(code), Tags: tags}
		}
		var x c06ListXML
		if err := xml.Unmarshal(body, &x); err != nil {
			return Result{Out: "BADXML", Oracle: "FAIL:xml " + err.Error(), Tags: tags}
		}
		if x.EncodingType == "url" {
			for i := range x.Keys {
				x.Keys[i], _ = url.QueryUnescape(x.Keys[i])
			}
			for i := range x.CommonPrefixes {
				x.CommonPrefixes[i], _ = url.QueryUnescape(x.CommonPrefixes[i])
			}
		}
		next := x.NextMarker
		if v2 {
			next = x.NextContinuationToken
		}
		pages = append(pages, strings.Join([]string{tokList(x.Keys), tokList(x.CommonPrefixes), c06Bool(x.IsTruncated), tokOpt(next)}, "/"))
		pe, why := c06Merge(x.Keys, x.CommonPrefixes)
		if why != "" && oracle == "" {
			oracle = "FAIL:" + why
		}
		got = append(got, pe...)
		if !x.IsTruncated {
			break
		}
		if next == nil {
			if oracle == "" {
				oracle = "FAIL:IsTruncated without a next marker"
			}
			break
		}
		cur = next
	}
	if oracle == "" {
		if len(pages) >= capPages {
			oracle = "FAIL:pagination does not end"
		} else if c06ShowEntries(got) != c06ShowEntries(expected) && c06ShowEntries(got) != c06ShowEntries(expectedB) {
			oracle = fmt.Sprintf("FAIL:pages yield [%s], S3 listing is [%s]", c06ShowEntries(got), c06ShowEntries(expected))
		} else {
			oracle = "OK"
		}
	}
	return Result{Out: strings.Join(pages, "|"), Oracle: oracle, Tags: tags}
}

// single storage call: nothing but listing entries after the marker, each list strictly ordered,
// complete when not truncated; without a delimiter exactly the first max entries
func c06OracleStorage(expected []c06Entry, objs, cps []string, trunc bool, delim string, max int) string {
	got, why := c06Merge(objs, cps)
	if why != "" {
		return "FAIL:" + why
	}
	exp := map[c06Entry]bool{}
	for _, e := range expected {
		exp[e] = true
	}
	for _, e := range got {
		if !exp[e] {
			return fmt.Sprintf("FAIL:returned %q which is not an entry of the S3 listing [%s]", e.name, c06ShowEntries(expected))
		}
	}
	if !trunc && len(got) != len(expected) {
		return fmt.Sprintf("FAIL:not truncated but returned [%s] of [%s]", c06ShowEntries(got), c06ShowEntries(expected))
	}
	if delim == "" {
		m := max
		if m > len(expected) {
			m = len(expected)
		}
		if c06ShowEntries(got) != c06ShowEntries(expected[:m]) || trunc != (len(expected) > max) {
			return fmt.Sprintf("FAIL:page [%s] trunc=%v, S3 page is [%s]", c06ShowEntries(got), trunc, c06ShowEntries(expected[:m]))
		}
	}
	return "OK"
}

func c06RunParts(env *c06Env, f []string) Result {
	var parts []int
	if f[1] != "_" {
		for _, p := range strings.Split(f[1], ",") {
			v, _ := strconv.Atoi(p)
			parts = append(parts, v)
		}
	}
	max, _ := strconv.Atoi(f[3])
	bn, ku := env.uploadFor(f[1], parts)
	kk := strings.SplitN(ku, "\x00", 2)
	// expected: distinct part numbers ascending, after the marker
	set := map[int]bool{}
	for _, p := range parts {
		set[p] = true
	}
	var expected []int
	for p := range set {
		if f[2] == "N" {
			expected = append(expected, p)
		} else if m, _ := strconv.Atoi(f[2]); p > m {
			expected = append(expected, p)
		}
	}
	sort.Ints(expected)
	tags := []string{"P"}
	if len(expected) == 0 {
		tags = append(tags, "empty")
	}
	if len(expected) > c06EffMax(max) {
		tags = append(tags, "multi-page")
	}
	var pages []string
	var got []int
	cur := f[2]
	for len(pages) < len(parts)+2 {
		q := url.Values{}
		q.Set("uploadId", kk[1])
		q.Set("max-parts", strconv.Itoa(max))
		if cur != "N" {
			q.Set("part-number-marker", cur)
		}
		code, body := env.get("/"+bn.String()+"/"+kk[0], q)
		if code != 200 {
			return Result{Out: "HTTP" + strconv.Itoa(code), Oracle: "FAIL:status " + strconv.Itoa(code), Tags: tags}
		}
		var x c06PartsXML
		if err := xml.Unmarshal(body, &x); err != nil {
			return Result{Out: "BADXML", Oracle: "FAIL:xml " + err.Error(), Tags: tags}
		}
		nums := make([]string, len(x.Parts))
		for i, p := range x.Parts {
			nums[i] = strconv.Itoa(p)
		}
		ns := "_"
		if len(nums) > 0 {
			ns = strings.Join(nums, ",")
		}
		next := "N"
		if x.NextPartNumberMarker != nil {
			next = *x.NextPartNumberMarker
		}
		pages = append(pages, ns+"/"+c06Bool(x.IsTruncated)+"/"+next)
		got = append(got, x.Parts...)
		if !x.IsTruncated || next == "N" {
			break
		}
		cur = next
	}
	oracle := "OK"
	if fmt.Sprint(got) != fmt.Sprint(expected) {
		oracle = fmt.Sprintf("FAIL:pages yield parts %v, expected %v", got, expected)
	}
	return Result{Out: strings.Join(pages, "|"), Oracle: oracle, Tags: tags}
}
