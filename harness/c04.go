//go:build verif

package main

import (
	"bytes"
	"context"
	"crypto/md5"
	"crypto/sha1"
	"crypto/sha256"
	"encoding/base64"
	"encoding/binary"
	"encoding/hex"
	"errors"
	"fmt"
	"hash/crc32"
	"hash/crc64"
	"io"
	"os"
	"path/filepath"
	"sort"
	"strconv"
	"strings"
	"sync"
	"sync/atomic"

	"github.com/jdillenkofer/pithos/internal/storage"
	repositoryFactory "github.com/jdillenkofer/pithos/internal/storage/database/repository"
	"github.com/jdillenkofer/pithos/internal/storage/database/sqlite"
	"github.com/jdillenkofer/pithos/internal/storage/metadatapart"
	sqlMetadataStore "github.com/jdillenkofer/pithos/internal/storage/metadatapart/metadatastore/sql"
	"github.com/jdillenkofer/pithos/internal/storage/metadatapart/partstore"
	filesystemPartStore "github.com/jdillenkofer/pithos/internal/storage/metadatapart/partstore/filesystem"
	sqlPartStore "github.com/jdillenkofer/pithos/internal/storage/metadatapart/partstore/sql"
)

// C04 — ETags and checksums describe the stored bytes. Case line: <flags> <op;op;...> (see coq/Model/Etag.v).
// flags: v0|v1 (bucket versioning) + s|f (SQL or filesystem part store); the model ignores them.
type c04 struct{}

func init() { register("C04", c04{}) }

func (c04) Parallel() bool { return true }

const c04KF = "kf:C04-unchecked-supplied-checksum"

// ---------------------------------------------------------------------------------------------
// independent digests (Go stdlib one-shot functions) — the direct oracle
var c04Castagnoli = crc32.MakeTable(crc32.Castagnoli)
var c04Nvme = crc64.MakeTable(0x9a6c9329ac4bc9b5)

func c04Raw(slot int, b []byte) []byte {
	switch slot {
	case 0:
		s := md5.Sum(b)
		return s[:]
	case 1:
		o := make([]byte, 4)
		binary.BigEndian.PutUint32(o, crc32.ChecksumIEEE(b))
		return o
	case 2:
		o := make([]byte, 4)
		binary.BigEndian.PutUint32(o, crc32.Checksum(b, c04Castagnoli))
		return o
	case 3:
		o := make([]byte, 8)
		binary.BigEndian.PutUint64(o, crc64.Checksum(b, c04Nvme))
		return o
	case 4:
		s := sha1.Sum(b)
		return s[:]
	default:
		s := sha256.Sum256(b)
		return s[:]
	}
}

func c04Concat(ps [][]byte) []byte {
	var o []byte
	for _, p := range ps {
		o = append(o, p...)
	}
	return o
}

// digest of the concatenated part digests
func c04CatRaw(slot int, ps [][]byte) []byte {
	var o []byte
	for _, p := range ps {
		o = append(o, c04Raw(slot, p)...)
	}
	return c04Raw(slot, o)
}

func c04Enc(slot int, raw []byte, suffix string) string {
	if slot == 0 {
		return "\"" + hex.EncodeToString(raw) + suffix + "\""
	}
	return base64.StdEncoding.EncodeToString(raw) + suffix
}

// the value the property prescribes: single = digest of the content; multi = ETag MD5-of-MD5s-n, FULL_OBJECT digest
// of the whole, COMPOSITE digest of digests with -n
func c04SpecSingle(slot int, c []byte) string { return c04Enc(slot, c04Raw(slot, c), "") }
func c04SpecMulti(slot int, ps [][]byte, composite bool) string {
	n := "-" + strconv.Itoa(len(ps))
	if slot == 0 {
		return c04Enc(0, c04CatRaw(0, ps), n)
	}
	if composite {
		return c04Enc(slot, c04CatRaw(slot, ps), n)
	}
	return c04Enc(slot, c04Raw(slot, c04Concat(ps)), "")
}

// some value different from v, same syntax
func c04Wrong(slot int, v string) string {
	if slot == 0 {
		b := []byte(v)
		if b[1] == '0' {
			b[1] = '1'
		} else {
			b[1] = '0'
		}
		return string(b)
	}
	suffix := ""
	if i := strings.Index(v, "-"); i >= 0 {
		v, suffix = v[:i], v[i:]
	}
	raw, _ := base64.StdEncoding.DecodeString(v)
	raw[len(raw)-1] ^= 1
	return base64.StdEncoding.EncodeToString(raw) + suffix
}

var c04SlotNames = []string{"MD5", "CRC", "CRC", "CRC", "SHA1", "SHA256"}

// names a reported value by the function of the bytes it equals (the glue that evaluates the model's symbolic
// terms); returns the token and whether the value is what the property allows for this slot
func c04Name(slot int, v *string, ps [][]byte, composite bool) (string, string) {
	if v == nil {
		return "-", ""
	}
	whole := c04Concat(ps)
	switch slot {
	case 0, 4, 5:
		name := c04SlotNames[slot]
		if *v == c04SpecSingle(slot, whole) {
			if slot == 0 && len(ps) != 1 {
				return name, "ETag is a plain MD5 but the object has " + strconv.Itoa(len(ps)) + " parts"
			}
			if slot != 0 && composite {
				return name, name + " of a COMPOSITE object is a full-object digest"
			}
			return name, ""
		}
		if *v == c04SpecMulti(slot, ps, true) {
			if slot != 0 && !composite {
				return name + "CAT-" + strconv.Itoa(len(ps)), name + " of a FULL_OBJECT object is a composite digest"
			}
			return name + "CAT-" + strconv.Itoa(len(ps)), ""
		}
		return "WRONG:" + *v, c04SlotNames[slot] + " value " + *v + " is not a function of the stored bytes"
	default:
		val, suffix := *v, ""
		if i := strings.Index(val, "-"); i >= 0 {
			val, suffix = val[:i], val[i:]
		}
		raw, err := base64.StdEncoding.DecodeString(val)
		if err != nil {
			return "WRONG:" + *v, "checksum is not base64"
		}
		tok := hex.EncodeToString(raw) + suffix
		if *v == c04SpecMulti(slot, ps, false) && !composite {
			return tok, ""
		}
		if *v == c04SpecMulti(slot, ps, true) && composite {
			return tok, ""
		}
		return tok, fmt.Sprintf("checksum slot %d value %s is not the prescribed function of the stored bytes", slot, *v)
	}
}

func c04Err(err error) string {
	switch {
	case errors.Is(err, storage.ErrBadDigest):
		return "BadDigest"
	case errors.Is(err, storage.ErrNoSuchKey):
		return "NoSuchKey"
	case err.Error() == "UploadWithInvalidSequenceNumber":
		return "InvalidSeq"
	}
	return "Other:" + strings.ReplaceAll(strings.ReplaceAll(err.Error(), " ", "_"), ";", "_")
}

// ---------------------------------------------------------------------------------------------
type c04Obj struct {
	parts     [][]byte
	composite bool
}
type c04Upload struct {
	key       string
	composite bool
	parts     map[int][]byte
	id        storage.UploadId
	open      bool
}

func (u *c04Upload) ordered() [][]byte {
	var ns []int
	for n := range u.parts {
		ns = append(ns, n)
	}
	sort.Ints(ns)
	out := make([][]byte, len(ns))
	for i, n := range ns {
		out[i] = u.parts[n]
	}
	return out
}

// storages are pooled (one SQLite database per pooled storage, used by one case at a time); every case works in a
// bucket of its own, so cases only share the part dedup index — which the property must survive anyway
type c04Pooled struct {
	st storage.Storage
}

var c04PoolMu sync.Mutex
var c04Pool = map[bool][]*c04Pooled{}
var c04PoolN int
var c04BucketN atomic.Int64

func c04Acquire(scratch string, fs bool) (*c04Pooled, error) {
	c04PoolMu.Lock()
	if l := c04Pool[fs]; len(l) > 0 {
		p := l[len(l)-1]
		c04Pool[fs] = l[:len(l)-1]
		c04PoolMu.Unlock()
		return p, nil
	}
	c04PoolN++
	dir := filepath.Join(filepath.Dir(scratch), fmt.Sprintf("c04-pool-%d", c04PoolN))
	c04PoolMu.Unlock()
	if err := os.MkdirAll(dir, 0o755); err != nil {
		return nil, err
	}
	st, _, err := c04NewStorage(dir, fs)
	if err != nil {
		return nil, err
	}
	return &c04Pooled{st: st}, nil
}
func c04Release(p *c04Pooled, fs bool) {
	c04PoolMu.Lock()
	c04Pool[fs] = append(c04Pool[fs], p)
	c04PoolMu.Unlock()
}

func c04NewStorage(dir string, fs bool) (storage.Storage, func(), error) {
	db, err := sqlite.OpenDatabase(filepath.Join(dir, "pithos.db"))
	if err != nil {
		return nil, nil, err
	}
	var ps partstore.PartStore
	if fs {
		ps, err = filesystemPartStore.New(filepath.Join(dir, "parts"))
	} else {
		repo, e := repositoryFactory.NewPartContentRepository(db)
		if e != nil {
			return nil, nil, e
		}
		ps, err = sqlPartStore.New(db, repo)
	}
	if err != nil {
		return nil, nil, err
	}
	br, err := repositoryFactory.NewBucketRepository(db)
	if err != nil {
		return nil, nil, err
	}
	or, err := repositoryFactory.NewObjectRepository(db)
	if err != nil {
		return nil, nil, err
	}
	pr, err := repositoryFactory.NewPartRepository(db)
	if err != nil {
		return nil, nil, err
	}
	tr, err := repositoryFactory.NewTagRepository(db)
	if err != nil {
		return nil, nil, err
	}
	ur, err := repositoryFactory.NewUserMetadataRepository(db)
	if err != nil {
		return nil, nil, err
	}
	ms, err := sqlMetadataStore.New(db, br, or, pr, tr, ur)
	if err != nil {
		return nil, nil, err
	}
	st, err := metadatapart.NewStorage(db, ms, ps)
	if err != nil {
		return nil, nil, err
	}
	ctx := context.Background()
	if err := st.Start(ctx); err != nil {
		return nil, nil, err
	}
	return st, func() { st.Stop(ctx); db.Close() }, nil
}

func c04Sup(tok string, spec func(slot int) string) *storage.ChecksumInput {
	if tok == "------" {
		return nil
	}
	in := &storage.ChecksumInput{}
	dst := []**string{&in.ETag, &in.ChecksumCRC32, &in.ChecksumCRC32C, &in.ChecksumCRC64NVME, &in.ChecksumSHA1, &in.ChecksumSHA256}
	for i := 0; i < 6; i++ {
		switch tok[i] {
		case '=':
			v := spec(i)
			*dst[i] = &v
		case 'x':
			v := c04Wrong(i, spec(i))
			*dst[i] = &v
		}
	}
	return in
}

func (c04) Run(in string, scratch string) Result {
	f := strings.Split(in, " ")
	flags, opsTok := f[0], f[1]
	ctx := context.Background()
	useFs := strings.HasSuffix(flags, "f")
	pooled, err := c04Acquire(scratch, useFs)
	if err != nil {
		return Result{Out: "SETUP-ERROR", Oracle: "FAIL:cannot construct storage: " + err.Error(), Tags: []string{"setup-error"}}
	}
	defer c04Release(pooled, useFs)
	st := pooled.st
	bucket := storage.MustNewBucketName(fmt.Sprintf("bucket-%d", c04BucketN.Add(1)))
	if err := st.CreateBucket(ctx, bucket); err != nil {
		return Result{Out: "SETUP-ERROR", Oracle: "FAIL:" + err.Error(), Tags: []string{"setup-error"}}
	}
	if strings.HasPrefix(flags, "v1") {
		en := storage.BucketVersioningStatusEnabled
		if err := st.PutBucketVersioningConfiguration(ctx, bucket, &storage.BucketVersioningConfiguration{Status: &en}); err != nil {
			return Result{Out: "SETUP-ERROR", Oracle: "FAIL:" + err.Error(), Tags: []string{"setup-error"}}
		}
	}

	objs := map[string]*c04Obj{}
	var ups []*c04Upload
	var outs []string
	var fails, kfFails []string
	tagset := map[string]bool{}
	fail := func(msg string) { fails = append(fails, msg) }
	key := func(t string) storage.ObjectKey { return storage.MustNewObjectKey(untokBytes(t)) }

	// names the six values of a result relative to the parts they are about
	six := func(vals []*string, ps [][]byte, composite bool, what string) string {
		toks := make([]string, 6)
		for i, v := range vals {
			tok, bad := c04Name(i, v, ps, composite)
			toks[i] = tok
			if bad != "" {
				fail(what + ": " + bad)
			}
		}
		return strings.Join(toks, ",")
	}
	etagOnly := func(v string, ps [][]byte, what string) string {
		tok, bad := c04Name(0, &v, ps, false)
		if bad != "" {
			fail(what + ": " + bad)
		}
		return tok
	}
	// a write that carried a wrong value ('x') must have failed
	checkRejected := func(sup string, err error, computed func(slot int) bool, what string) {
		if !strings.Contains(sup, "x") {
			return
		}
		tagset["supplied-wrong"] = true
		if err == nil {
			unchecked := true
			for i := 0; i < 6; i++ {
				if sup[i] == 'x' && computed(i) {
					unchecked = false
				}
			}
			msg := what + ": write accepted although the supplied checksums " + sup + " disagree with the data"
			if unchecked {
				kfFails = append(kfFails, msg)
			} else {
				fail(msg)
			}
		} else if errors.Is(err, storage.ErrBadDigest) {
			tagset["bad-digest"] = true
		}
	}
	all := func(int) bool { return true }
	readBack := func(k string, what string) (*storage.Object, []byte, error) {
		o, readers, err := st.GetObject(ctx, bucket, storage.MustNewObjectKey(k), nil, nil)
		if err != nil {
			return nil, nil, err
		}
		var body []byte
		for _, r := range readers {
			b, e := io.ReadAll(r)
			r.Close()
			if e != nil {
				return nil, nil, e
			}
			body = append(body, b...)
		}
		return o, body, nil
	}
	// Head (and Get) of a key: every reported value recomputed from the bytes read back
	verify := func(k string, what string) string {
		bk := objs[k]
		h, err := st.HeadObject(ctx, bucket, storage.MustNewObjectKey(k), nil)
		if err != nil {
			if bk != nil {
				fail(what + ": object written successfully is not found: " + err.Error())
			}
			return c04Err(err)
		}
		if bk == nil {
			fail(what + ": HeadObject finds an object that no successful write created")
			return "OK,unexpected"
		}
		ps := bk.parts
		if len(c04Concat(ps)) > 0 { // GET of an empty object fails (finding of C01), nothing to re-hash then
			g, body, err := readBack(k, what)
			if err != nil {
				// not C04's subject: the digests are then checked against the bytes that were written
				tagset["get-failed"] = true
			} else {
				if !bytes.Equal(body, c04Concat(ps)) {
					fail(what + ": stored bytes differ from the bytes written")
				}
				// re-partition the bytes that were actually read back
				var rp [][]byte
				off := 0
				for _, p := range ps {
					end := off + len(p)
					if end > len(body) {
						end = len(body)
					}
					rp = append(rp, body[off:end])
					off = end
				}
				ps = rp
				gv := []*string{&g.ETag, g.ChecksumCRC32, g.ChecksumCRC32C, g.ChecksumCRC64NVME, g.ChecksumSHA1, g.ChecksumSHA256}
				hv := []*string{&h.ETag, h.ChecksumCRC32, h.ChecksumCRC32C, h.ChecksumCRC64NVME, h.ChecksumSHA1, h.ChecksumSHA256}
				for i := range gv {
					if (gv[i] == nil) != (hv[i] == nil) || (gv[i] != nil && *gv[i] != *hv[i]) {
						fail(what + ": GetObject and HeadObject report different values")
					}
				}
			}
		}
		ty := "-"
		if h.ChecksumType != nil {
			ty = *h.ChecksumType
		}
		composite := ty == storage.ChecksumTypeComposite
		if composite != bk.composite {
			fail(what + ": checksum type " + ty + " does not match the upload's type")
		}
		if h.Size != int64(len(c04Concat(ps))) {
			fail(what + ": size differs")
		}
		hv := []*string{&h.ETag, h.ChecksumCRC32, h.ChecksumCRC32C, h.ChecksumCRC64NVME, h.ChecksumSHA1, h.ChecksumSHA256}
		return "OK," + six(hv, ps, composite, what) + "," + ty + "," + strconv.FormatInt(h.Size, 10)
	}

	for idx, opTok := range strings.Split(opsTok, ";") {
		a := strings.Split(opTok, ",")
		what := fmt.Sprintf("op %d (%s)", idx, a[0])
		tagset[a[0]] = true
		switch a[0] {
		case "put":
			c := []byte(untokBytes(a[2]))
			res, err := st.PutObject(ctx, bucket, key(a[1]), nil, bytes.NewReader(c), c04Sup(a[3], func(s int) string { return c04SpecSingle(s, c) }), nil)
			checkRejected(a[3], err, all, what)
			if err != nil {
				outs = append(outs, c04Err(err))
				break
			}
			objs[untokBytes(a[1])] = &c04Obj{parts: [][]byte{c}}
			outs = append(outs, "OK,"+six([]*string{res.ETag, res.ChecksumCRC32, res.ChecksumCRC32C, res.ChecksumCRC64NVME, res.ChecksumSHA1, res.ChecksumSHA256}, [][]byte{c}, false, what))
		case "create":
			ty := storage.ChecksumTypeFullObject
			if a[2] == "C" {
				ty = storage.ChecksumTypeComposite
			}
			res, err := st.CreateMultipartUpload(ctx, bucket, key(a[1]), nil, &ty, nil)
			if err != nil {
				outs = append(outs, c04Err(err))
				ups = append(ups, &c04Upload{key: untokBytes(a[1]), parts: map[int][]byte{}})
				break
			}
			ups = append(ups, &c04Upload{key: untokBytes(a[1]), composite: a[2] == "C", parts: map[int][]byte{}, id: res.UploadId, open: true})
			outs = append(outs, "OK")
		case "part", "partcopy", "complete", "list":
			u, _ := strconv.Atoi(a[1])
			var up *c04Upload
			if u < len(ups) {
				up = ups[u]
			}
			k, id := storage.MustNewObjectKey("nokey"), storage.UploadId{}
			if up != nil {
				k, id = storage.MustNewObjectKey(up.key), up.id
			}
			if a[0] == "partcopy" {
				if src := objs[untokBytes(a[3])]; src != nil && len(c04Concat(src.parts)) == 0 {
					outs = append(outs, "SKIP") // empty source: not exercised (range normalisation is C05's subject)
					break
				}
			}
			if up == nil {
				// an upload that was never created: there is no id to present; the model answers NoSuchKey
				outs = append(outs, "NoSuchKey")
				break
			}
			switch a[0] {
			case "part":
				n, _ := strconv.Atoi(a[2])
				c := []byte(untokBytes(a[3]))
				res, err := st.UploadPart(ctx, bucket, k, id, int32(n), bytes.NewReader(c), c04Sup(a[4], func(s int) string { return c04SpecSingle(s, c) }))
				if up.open {
					checkRejected(a[4], err, all, what)
				}
				if err != nil {
					outs = append(outs, c04Err(err))
					break
				}
				up.parts[n] = c
				outs = append(outs, "OK,"+six([]*string{&res.ETag, res.ChecksumCRC32, res.ChecksumCRC32C, res.ChecksumCRC64NVME, res.ChecksumSHA1, res.ChecksumSHA256}, [][]byte{c}, false, what))
			case "partcopy":
				n, _ := strconv.Atoi(a[2])
				src := objs[untokBytes(a[3])]
				res, err := st.UploadPartCopy(ctx, bucket, key(a[3]), bucket, k, id, int32(n), nil)
				if err != nil {
					outs = append(outs, c04Err(err))
					break
				}
				if src == nil {
					fail(what + ": copy from a key that holds no object succeeded")
					outs = append(outs, "OK,unexpected")
					break
				}
				c := c04Concat(src.parts)
				up.parts[n] = c
				outs = append(outs, "OK,"+etagOnly(res.ETag, [][]byte{c}, what))
			case "complete":
				ps := up.ordered()
				comp := up.composite
				res, err := st.CompleteMultipartUpload(ctx, bucket, k, id, c04Sup(a[2], func(s int) string { return c04SpecMulti(s, ps, comp) }), nil)
				computed := func(s int) bool {
					switch {
					case s == 0:
						return true
					case comp:
						return s != 3
					default:
						return s <= 3 && len(ps) > 0
					}
				}
				contiguous := true
				for i := 1; i <= len(ps); i++ {
					if _, ok := up.parts[i]; !ok {
						contiguous = false
					}
				}
				if up.open && contiguous {
					checkRejected(a[2], err, computed, what)
				}
				if err != nil {
					outs = append(outs, c04Err(err))
					break
				}
				up.open = false
				objs[up.key] = &c04Obj{parts: ps, composite: comp}
				ty := "-"
				if res.ChecksumType != nil {
					ty = *res.ChecksumType
				}
				if len(ps) > 1 {
					tagset["multipart>1"] = true
				}
				if comp {
					tagset["composite"] = true
				} else {
					tagset["full-object"] = true
				}
				outs = append(outs, "OK,"+six([]*string{&res.ETag, res.ChecksumCRC32, res.ChecksumCRC32C, res.ChecksumCRC64NVME, res.ChecksumSHA1, res.ChecksumSHA256}, ps, comp, what)+","+ty)
			case "list":
				res, err := st.ListParts(ctx, bucket, k, id, storage.ListPartsOptions{MaxParts: 1000})
				if err != nil {
					outs = append(outs, c04Err(err))
					break
				}
				o := "OK"
				for _, p := range res.Parts {
					c, ok := up.parts[int(p.PartNumber)]
					if !ok {
						fail(what + ": ListParts shows a part that was never uploaded")
						continue
					}
					if p.Size != int64(len(c)) {
						fail(what + ": part size differs")
					}
					o += "," + strconv.Itoa(int(p.PartNumber)) + "/" + strings.ReplaceAll(six([]*string{&p.ETag, p.ChecksumCRC32, p.ChecksumCRC32C, p.ChecksumCRC64NVME, p.ChecksumSHA1, p.ChecksumSHA256}, [][]byte{c}, false, what), ",", "/") + "/" + strconv.FormatInt(p.Size, 10)
				}
				if len(res.Parts) != len(up.parts) {
					fail(what + ": ListParts does not show every uploaded part")
				}
				outs = append(outs, o)
			}
		case "append":
			c := []byte(untokBytes(a[2]))
			res, err := st.AppendObject(ctx, bucket, key(a[1]), bytes.NewReader(c), c04Sup(a[3], func(s int) string { return c04SpecSingle(s, c) }), nil)
			checkRejected(a[3], err, all, what)
			if err != nil {
				outs = append(outs, c04Err(err))
				break
			}
			k := untokBytes(a[1])
			var ps [][]byte
			if o := objs[k]; o != nil {
				ps = append(ps, o.parts...)
			}
			ps = append(ps, c)
			objs[k] = &c04Obj{parts: ps}
			if res.Size != int64(len(c04Concat(ps))) {
				fail(what + ": reported size differs")
			}
			outs = append(outs, "OK,"+etagOnly(res.ETag, ps, what)+","+strconv.FormatInt(res.Size, 10))
		case "copy", "copyr":
			src := objs[untokBytes(a[1])]
			var opts *storage.CopyObjectOptions
			var want [][]byte
			composite := false
			if src != nil {
				want, composite = src.parts, src.composite
			}
			if a[0] == "copyr" && src != nil {
				whole := c04Concat(src.parts)
				if len(whole) == 0 {
					outs = append(outs, "SKIP")
					break
				}
				x, _ := strconv.ParseInt(a[3], 10, 64)
				y, _ := strconv.ParseInt(a[4], 10, 64)
				n := int64(len(whole))
				s := x % n
				e := s + 1 + y%(n-s)
				opts = &storage.CopyObjectOptions{Range: &storage.ByteRange{Start: &s, End: &e}}
				want, composite = [][]byte{whole[s:e]}, false
			}
			res, err := st.CopyObject(ctx, bucket, key(a[1]), bucket, key(a[2]), opts)
			if err != nil {
				outs = append(outs, c04Err(err))
				break
			}
			if src == nil {
				fail(what + ": copy from a key that holds no object succeeded")
				outs = append(outs, "OK,unexpected")
				break
			}
			cp := make([][]byte, len(want))
			copy(cp, want)
			objs[untokBytes(a[2])] = &c04Obj{parts: cp, composite: composite}
			outs = append(outs, "OK,"+etagOnly(res.ETag, want, what))
		case "head":
			outs = append(outs, verify(untokBytes(a[1]), what))
		default:
			outs = append(outs, "PARSE-ERROR")
		}
	}
	// final sweep: every object that exists is re-read and re-hashed (oracle only)
	var keys []string
	for k := range objs {
		keys = append(keys, k)
	}
	sort.Strings(keys)
	for _, k := range keys {
		verify(k, "final state of key "+k)
	}

	oracle := "OK"
	tags := []string{}
	for t := range tagset {
		tags = append(tags, t)
	}
	sort.Strings(tags)
	if strings.HasPrefix(flags, "v1") {
		tags = append(tags, "versioned")
	}
	if len(fails) > 0 {
		oracle = "FAIL:" + fails[0]
	} else if len(kfFails) > 0 {
		oracle = "FAIL:" + kfFails[0]
		if c04KFRegion(opsTok) {
			tags = append(tags, c04KF)
		}
	}
	return Result{Out: strings.Join(outs, ";"), Oracle: oracle, Tags: tags}
}

// known-finding region, from the input alone: some complete carries a wrong value only in slots that
// CalculateMultipartChecksums does not compute for the upload's checksum type
func c04KFRegion(opsTok string) bool {
	var types []string
	for _, opTok := range strings.Split(opsTok, ";") {
		a := strings.Split(opTok, ",")
		switch a[0] {
		case "create":
			types = append(types, a[2])
		case "complete":
			u, _ := strconv.Atoi(a[1])
			if u >= len(types) {
				continue
			}
			sup := a[2]
			if types[u] == "C" && sup[3] == 'x' {
				return true
			}
			if types[u] == "F" && (sup[4] == 'x' || sup[5] == 'x' || strings.Contains(sup[1:4], "x")) {
				return true
			}
		}
	}
	return false
}

// ---------------------------------------------------------------------------------------------
var c04Keys = []string{"a", "b", "c"}
var c04Contents = []string{"", "a", "b", "ab", "ab", "abc", "hello world", "\x00", "\xff\xff\xff\xff"}

// the SQL part store keeps no row for an empty part and then cannot read it back ("part not found" from GetObject /
// UploadPartCopy; observed while building this check, outside C04): histories on that store use non-empty contents
func c04ContentFor(r *Rng, flags string) string {
	c := c04Content(r)
	if c == "" && strings.HasSuffix(flags, "s") {
		return "e"
	}
	return c
}

func c04Content(r *Rng) string {
	switch r.Intn(10) {
	case 0, 1, 2, 3:
		return r.Pick(c04Contents)
	case 4, 5:
		return string(r.Bytes(r.Intn(40)))
	case 6:
		return strings.Repeat(r.Pick([]string{"a", "\x00", "xy"}), r.Intn(70))
	case 7:
		return string(r.Bytes([]int{63, 64, 65, 255, 256, 257, 1000, 1024}[r.Intn(8)]))
	}
	return string(r.Bytes(1 + r.Intn(8)))
}

func c04SupTok(r *Rng) string {
	switch r.Intn(10) {
	case 0, 1, 2, 3:
		return "------"
	case 4:
		return "======"
	case 5, 6:
		// exactly one wrong value, the rest correct or absent
		b := []byte("------")
		for i := range b {
			if r.Chance(40) {
				b[i] = '='
			}
		}
		b[r.Intn(6)] = 'x'
		return string(b)
	}
	b := make([]byte, 6)
	for i := range b {
		b[i] = "---==x"[r.Intn(6)]
	}
	return string(b)
}

func (c04) Gen(r *Rng, tier string, n int) []string {
	cases := make([]string, 0, n)
	for len(cases) < n {
		flags := r.Pick([]string{"v0s", "v0f", "v1s", "v1f", "v0s", "v0f"})
		nseg := 2 + r.Intn(5)
		var ops []string
		var delayed []string // completes postponed behind the next segment (interleaved uploads)
		nUp := 0
		written := []string{} // keys that probably hold an object
		pickKey := func() string {
			if len(written) > 0 && r.Chance(75) {
				return written[r.Intn(len(written))]
			}
			return r.Pick(c04Keys)
		}
		goodSup := func() string {
			if r.Chance(50) {
				return "------"
			}
			b := []byte("------")
			for i := range b {
				if r.Chance(50) {
					b[i] = '='
				}
			}
			return string(b)
		}
		for seg := 0; seg < nseg; seg++ {
			k := r.Pick(c04Keys)
			switch w := r.Intn(100); {
			case w < 20:
				ops = append(ops, "put,"+tokBytes(k)+","+tokBytes(c04ContentFor(r, flags))+","+c04SupTok(r))
				written = append(written, k)
			case w < 60:
				// one multipart upload: 0..6 parts, mostly in order, sometimes re-uploaded / copied / with a gap
				u := nUp
				nUp++
				ops = append(ops, "create,"+tokBytes(k)+","+r.Pick([]string{"F", "F", "C"}))
				np := []int{0, 1, 1, 2, 2, 3, 3, 4, 5, 6}[r.Intn(10)]
				order := make([]int, np)
				for i := range order {
					order[i] = i + 1
				}
				if np > 1 && r.Chance(25) { // upload out of order
					i, j := r.Intn(np), r.Intn(np)
					order[i], order[j] = order[j], order[i]
				}
				if np > 0 && r.Chance(8) { // gap: InvalidSeq at complete
					order[r.Intn(np)] = np + 1 + r.Intn(2)
				}
				for _, pn := range order {
					if len(written) > 0 && r.Chance(12) {
						ops = append(ops, fmt.Sprintf("partcopy,%d,%d,%s", u, pn, tokBytes(pickKey())))
					} else {
						sup := goodSup()
						if r.Chance(20) {
							sup = c04SupTok(r)
						}
						ops = append(ops, fmt.Sprintf("part,%d,%d,%s,%s", u, pn, tokBytes(c04ContentFor(r, flags)), sup))
						if strings.Contains(sup, "x") && r.Chance(80) { // rejected: upload it again properly
							ops = append(ops, fmt.Sprintf("part,%d,%d,%s,%s", u, pn, tokBytes(c04ContentFor(r, flags)), goodSup()))
						}
					}
					if r.Chance(10) { // replace a part
						ops = append(ops, fmt.Sprintf("part,%d,%d,%s,%s", u, pn, tokBytes(c04ContentFor(r, flags)), goodSup()))
					}
				}
				if r.Chance(20) {
					ops = append(ops, fmt.Sprintf("list,%d", u))
				}
				var fin []string
				sup := c04SupTok(r)
				fin = append(fin, fmt.Sprintf("complete,%d,%s", u, sup))
				if strings.Contains(sup, "x") && r.Chance(70) {
					fin = append(fin, fmt.Sprintf("complete,%d,%s", u, goodSup()))
				}
				if r.Chance(10) { // completing twice / using a finished upload
					fin = append(fin, r.Pick([]string{fmt.Sprintf("complete,%d,------", u), fmt.Sprintf("part,%d,1,%s,------", u, tokBytes("z")), fmt.Sprintf("list,%d", u)}))
				}
				fin = append(fin, "head,"+tokBytes(k))
				if r.Chance(25) {
					delayed = append(delayed, fin...)
				} else {
					ops = append(ops, fin...)
				}
				written = append(written, k)
				continue
			case w < 75:
				kk := pickKey()
				for i := 0; i <= r.Intn(3); i++ {
					ops = append(ops, "append,"+tokBytes(kk)+","+tokBytes(c04ContentFor(r, flags))+","+c04SupTok(r))
				}
				written = append(written, kk)
			case w < 85:
				dst := r.Pick(c04Keys)
				ops = append(ops, "copy,"+tokBytes(pickKey())+","+tokBytes(dst))
				written = append(written, dst)
			case w < 93:
				dst := r.Pick(c04Keys)
				ops = append(ops, fmt.Sprintf("copyr,%s,%s,%d,%d", tokBytes(pickKey()), tokBytes(dst), r.Intn(2000), r.Intn(2000)))
				written = append(written, dst)
			case w < 97:
				ops = append(ops, "head,"+tokBytes(pickKey()))
			default:
				ops = append(ops, fmt.Sprintf("complete,%d,%s", nUp, c04SupTok(r))) // never created
			}
			if len(delayed) > 0 {
				ops = append(ops, delayed...)
				delayed = nil
			}
		}
		ops = append(ops, delayed...)
		for _, k := range c04Keys {
			ops = append(ops, "head,"+tokBytes(k))
		}
		cases = append(cases, flags+" "+strings.Join(ops, ";"))
	}
	return cases
}
