//go:build verif

package main

import (
	"fmt"
	"strconv"
	"strings"
)

var c22Events = []string{"s3:ObjectCreated:Put", "s3:ObjectCreated:Copy", "s3:ObjectCreated:CompleteMultipartUpload",
	"s3:ObjectRemoved:Delete", "s3:ObjectRemoved:DeleteMarkerCreated", "s3:ObjectTagging:Put", "s3:ObjectTagging:Delete",
	"s3:LifecycleExpiration:Delete", "s3:TestEvent"}
var c22Patterns = []string{"s3:ObjectCreated:*", "s3:ObjectRemoved:*", "s3:ObjectTagging:*", "s3:ObjectCreated:Put", "s3:ObjectRemoved:Delete",
	"s3:ObjectCreated:Copy", "s3:ObjectTagging:Put", "s3:ObjectRemoved:DeleteMarkerCreated", "s3:ObjectCreated:CompleteMultipartUpload",
	"s3:*", "s3:ObjectCreated:", "*", ":*", "s3:ObjectCreated:P*", "s3:objectcreated:*", "s3:ObjectCreated:Put ", "s3:ObjectCreated*", "s3:ObjectCreated:Put:*", "", "s3:Object*:*", "s3:LifecycleExpiration:*"}
var c22Keys = []string{"a", "ab", "b", "img/a.jpg", "img/b.png", "logs/a.log", "a.jpg", "abc", "x"}

func c22Tiny(r *Rng) string {
	alpha := "ab:*"
	n := r.Intn(5)
	b := make([]byte, n)
	for i := range b {
		b[i] = alpha[r.Intn(len(alpha))]
	}
	return string(b)
}

func c22Filters(r *Rng, key string, max int) []string {
	var fl []string
	for i := 0; i < r.Intn(max+1); i++ {
		name := r.Pick([]string{"prefix", "suffix", "prefix", "suffix", "Prefix", "foo", ""})
		var v string
		switch r.Intn(6) {
		case 0:
			v = ""
		case 1:
			v = key
		case 2:
			v = key[:r.Intn(len(key)+1)]
		case 3:
			v = key[r.Intn(len(key)+1):]
		case 4:
			v = key + "x"
		default:
			v = r.Pick([]string{"a", "img/", ".jpg", "b", "logs/", ".log", "x", "ab"})
		}
		fl = append(fl, name, v)
	}
	return fl
}

func c22GenRule(r *Rng) string {
	var events []string
	for i := 0; i < r.Intn(4); i++ {
		switch r.Intn(8) {
		case 0:
			events = append(events, c22Tiny(r))
		case 1:
			events = append(events, r.Pick(c22Events))
		default:
			events = append(events, r.Pick(c22Patterns))
		}
	}
	name := r.Pick(c22Events)
	if r.Chance(12) {
		name = c22Tiny(r)
	}
	if r.Chance(5) && len(events) > 0 { // instantiate a configured pattern
		p := events[r.Intn(len(events))]
		name = strings.TrimSuffix(p, "*") + r.Pick([]string{"", "Put", "x"})
	}
	if r.Chance(45) { // a configured event that (nearly) covers the name
		i := strings.LastIndex(name, ":")
		switch k := r.Intn(5); {
		case k == 0 || i < 0:
			events = append(events, name)
		case k == 1:
			events = append(events, name[:i]+"*")
		default:
			events = append(events, name[:i]+":*")
		}
	}
	key := r.Pick(c22Keys)
	fl := c22Filters(r, key, 3)
	if r.Chance(40) { // filters that hold, possibly one near miss
		fl = nil
		for i := 0; i < 1+r.Intn(2); i++ {
			if r.Bool() {
				fl = append(fl, "prefix", key[:r.Intn(len(key)+1)])
			} else {
				fl = append(fl, "suffix", key[r.Intn(len(key)+1):])
			}
		}
		if r.Chance(20) {
			fl = append(fl, r.Pick([]string{"prefix", "suffix"}), r.Pick([]string{key + "x", "x" + key, "b"}))
		}
	}
	return strings.Join([]string{"R", tokList(events), tokList(fl), tokBytes(name), tokBytes(key)}, " ")
}

func c22GenBackoff(r *Rng) string {
	ms := int64(1000000)
	mins := []int64{0, -1, 1, 3, 100, 250, 1000, 2000, 60000}
	maxs := []int64{0, -5, 1, 50, 100, 1000, 1500, 10000, 300000, 86400000}
	var a int
	switch r.Intn(6) {
	case 0:
		a = r.Intn(6) - 3
	case 1:
		a = 25 + r.Intn(50)
	case 2:
		a = 1000 + r.Intn(120)
	case 3:
		a = []int{1 << 20, 1 << 31, 1022, 1023, 1024, 1025, 1075, 64, 63, 62}[r.Intn(10)]
	default:
		a = 1 + r.Intn(14)
	}
	return fmt.Sprintf("B %d %d %d", mins[r.Intn(len(mins))]*ms, maxs[r.Intn(len(maxs))]*ms, a)
}

func c22GenHistory(r *Rng) string {
	maxAtt := []int{0, 1, 2, 3, 3, 5}[r.Intn(6)]
	minMs := []int{60000, 120000, 600000}[r.Intn(3)] // far above a case's run time: only the explicit ageing op makes rows due
	maxMs := []int{0, 60000, 240000, 1200000, 3600000}[r.Intn(5)]
	stepped := r.Chance(45) // drive the dispatcher step by step: crashes, takeovers, failing writes, restarts
	if stepped {
		maxAtt = []int{1, 2, 2, 3, 3, 0}[r.Intn(6)]
	}
	var masks []string
	for _, d := range "qtle" {
		m := []int{0, 0, 1, 3, 7, 255, r.Intn(32)}[r.Intn(7)]
		masks = append(masks, string(d)+strconv.Itoa(m))
	}
	buckets := []string{"bka", "bkb"}
	keys := []string{"a", "ab", "img/a.jpg", "b"}
	ops := []string{"K:bka", "K:bkb"}
	if r.Chance(50) {
		ops = append(ops, "V:"+r.Pick(buckets))
	}
	genBatch := func(b string) string {
		var ents []string
		for i := 0; i <= r.Intn(5); i++ {
			k := r.Pick(keys)
			if r.Chance(12) {
				k = "zz" // never written
			}
			if len(ents) > 0 && r.Chance(20) { // the same key twice in one request
				k = strings.Split(ents[r.Intn(len(ents))], "~")[0]
			}
			v := "-"
			switch w := r.Intn(100); {
			case w < 30:
				v = "v" + strconv.Itoa(r.Intn(3))
			case w < 42:
				v = "x"
			}
			ents = append(ents, k+"~"+v+"~"+r.Pick([]string{"n", "n", "m", "s"}))
		}
		j := 0
		if r.Chance(20) {
			j = 1 + r.Intn(4)
		}
		return fmt.Sprintf("G:%s:%d:%s", b, j, strings.Join(ents, "|"))
	}
	genConfig := func(b string) string {
		var rules []string
		for i := 0; i < r.Intn(4); i++ {
			var ev []string
			for k := 0; k <= r.Intn(3); k++ {
				ev = append(ev, r.Pick(c22Patterns[:10]))
			}
			rules = append(rules, strings.Join([]string{r.Pick([]string{"q", "t", "l"}), tokList(ev), tokList(c22Filters(r, r.Pick(keys), 2))}, "/"))
		}
		rs := "~"
		if len(rules) > 0 {
			rs = strings.Join(rules, "|")
		}
		eb := "0"
		if r.Chance(15) {
			eb = "1"
		}
		return "N:" + b + ":" + eb + ":" + rs
	}
	for _, b := range buckets {
		if r.Chance(90) {
			ops = append(ops, genConfig(b))
		}
	}
	n := 3 + r.Intn(9)
	for i := 0; i < n; i++ {
		b := r.Pick(buckets)
		if r.Chance(5) {
			b = "bkc" // never created
		}
		k := r.Pick(keys)
		j := 0
		if r.Chance(22) {
			j = 1 + r.Intn(3)
		}
		switch w := r.Intn(100); {
		case w < 30:
			ops = append(ops, fmt.Sprintf("P:%s:%s:%d", b, k, j))
		case w < 40:
			ops = append(ops, fmt.Sprintf("C:%s:%s:%s:%s:%d", b, k, r.Pick(buckets), r.Pick(keys), j))
		case w < 48:
			ops = append(ops, fmt.Sprintf("M:%s:%s:%d", b, k, j))
		case w < 56:
			ops = append(ops, fmt.Sprintf("D:%s:%s:%d", b, k, j))
		case w < 66:
			ops = append(ops, genBatch(b))
		case w < 74:
			ops = append(ops, fmt.Sprintf("T:%s:%s:%d", b, k, j))
		case w < 78:
			ops = append(ops, fmt.Sprintf("U:%s:%s:%d", b, k, j))
		case w < 82:
			ops = append(ops, genConfig(b))
		case w < 94:
			ops = append(ops, "X")
		default:
			ops = append(ops, "A")
		}
	}
	if stepped {
		held := map[int]bool{}
		for i := 0; i < 6+r.Intn(10); i++ {
			slot := r.Intn(3)
			if r.Chance(45) { // scenario fragments around one entry
				s1, s2 := r.Intn(3), r.Intn(3)
				if s2 == s1 {
					s2 = (s1 + 1) % 3
				}
				switch r.Intn(5) {
				case 0: // crash after the claim, takeover, late (stale) dispatch of the first owner
					ops = append(ops, fmt.Sprintf("Y:%d;L;Y:%d;E:%d:n;E:%d:n", s1, s2, s2, s1))
				case 1: // crash between publish and the database write, redelivery by another owner
					ops = append(ops, fmt.Sprintf("Y:%d;E:%d:f;L;Y:%d;E:%d:n", s1, s1, s2, s2))
				case 2: // attempts step past MaxAttempts without any handled failure, then a handled one
					ops = append(ops, fmt.Sprintf("Y:%d;L;Y:%d;L;Y:%d;L;Y:%d;E:%d:n", s1, s2, s1, s2, s2))
				case 3: // MaxAttempts lowered across a restart
					ops = append(ops, fmt.Sprintf("Y:%d;L;Y:%d;L;Z:%d:1;Y:%d;E:%d:n", s1, s2, s1, s1, s1))
				default: // stale owner acts first, then the new one
					ops = append(ops, fmt.Sprintf("Y:%d;L;Y:%d;E:%d:n;A;E:%d:n", s1, s2, s1, s2))
				}
				if r.Chance(40) {
					ops = append(ops, "A")
				}
				continue
			}
			switch w := r.Intn(100); {
			case w < 30:
				ops = append(ops, fmt.Sprintf("Y:%d", slot))
				held[slot] = true
			case w < 55:
				for t := 0; t < 3 && !held[slot]; t++ {
					slot = r.Intn(3)
				}
				delete(held, slot)
				ops = append(ops, fmt.Sprintf("E:%d:%s", slot, r.Pick([]string{"n", "n", "n", "f"})))
			case w < 72:
				ops = append(ops, "L")
			case w < 82:
				ops = append(ops, "A")
			case w < 90:
				ops = append(ops, fmt.Sprintf("Z:%d:%d", slot, []int{1, 1, 2, 3, 0}[r.Intn(5)]))
				delete(held, slot)
			default:
				ops = append(ops, "X")
			}
		}
		ops = append(ops, "L", "A", "X")
	}
	rounds := maxAtt + r.Intn(3)
	if stepped {
		rounds = r.Intn(2)
	}
	for i := 0; i < rounds; i++ {
		ops = append(ops, "X")
		if r.Chance(85) {
			ops = append(ops, "A")
		}
	}
	return fmt.Sprintf("H %d %d %d %s %s", maxAtt, minMs, maxMs, strings.Join(masks, ","), strings.Join(ops, ";"))
}

func (c22) Gen(r *Rng, tier string, n int) []string {
	cases := make([]string, 0, n)
	for len(cases) < n {
		switch w := r.Intn(100); {
		case w < 16:
			cases = append(cases, c22GenHistory(r))
		case w < 34:
			cases = append(cases, c22GenBackoff(r))
		default:
			cases = append(cases, c22GenRule(r))
		}
	}
	return cases
}
