//go:build verif

package main

// C08 over several part stores: sequential histories ("ms …" lines of coq/Model/MetaGcStores.v) against a
// MetadataPartStorage with three filesystem part stores (default, "s1" <- GLACIER, "s2" <- DEEP_ARCHIVE; STANDARD_IA
// explicitly mapped to the default store). Sharing is created first (same-store CopyObject, identical PutObject
// deduplicated onto a part, UploadPartCopy of a whole part, versioned AppendObject sharing the prefix), then
// sharers are transitioned across stores / back / one after the other, deleted, with collector runs in between.
// Direct oracle after EVERY operation: each row of `parts` has its file in the store named on the row,
// part_registry.ref_count = number of rows per id (no row without part rows); every read returns the bytes the
// harness computed from the history; after two consecutive GC runs each store holds exactly the ids its rows name.

import (
	"bytes"
	"context"
	"database/sql"
	"fmt"
	"os"
	"path/filepath"
	"sort"
	"strconv"
	"strings"
	"time"

	"github.com/jdillenkofer/pithos/internal/storage"
	repositoryFactory "github.com/jdillenkofer/pithos/internal/storage/database/repository"
	"github.com/jdillenkofer/pithos/internal/storage/database/sqlite"
	"github.com/jdillenkofer/pithos/internal/storage/metadatapart"
	"github.com/jdillenkofer/pithos/internal/storage/metadatapart/gc"
	"github.com/jdillenkofer/pithos/internal/storage/metadatapart/partstore"
	filesystemPartStore "github.com/jdillenkofer/pithos/internal/storage/metadatapart/partstore/filesystem"
)

var c08sStoreNames = []string{"", "s1", "s2"} // value of parts.part_store_name ("" = NULL = default)
var c08sClassOf = map[string]*string{"s": nil, "i": c08sPtr("STANDARD_IA"), "g": c08sPtr("GLACIER"), "d": c08sPtr("DEEP_ARCHIVE")}
var c08sStoreOfClass = map[string]int{"s": 0, "i": 0, "g": 1, "d": 2}

func c08sPtr(s string) *string { return &s }

type c08sEnv struct {
	st     storage.Storage
	c9     *c09Env // database helpers (query/exec) and the collector
	dirs   []string
	stores []partstore.PartStore
	close  func()
}

func c08sOpen(dir string, storageGrace time.Duration) (*c08sEnv, error) {
	tpl, err := metaTemplateDB(filepath.Dir(dir))
	if err != nil {
		return nil, err
	}
	if err := os.WriteFile(filepath.Join(dir, "pithos.db"), tpl, 0o644); err != nil {
		return nil, err
	}
	db, err := sqlite.OpenDatabase(filepath.Join(dir, "pithos.db"))
	if err != nil {
		return nil, err
	}
	e := &c08sEnv{}
	for _, n := range []string{"default", "s1", "s2"} {
		d := filepath.Join(dir, "parts-"+n)
		ps, err := filesystemPartStore.New(d)
		if err != nil {
			return nil, err
		}
		e.dirs = append(e.dirs, d)
		e.stores = append(e.stores, ps)
	}
	extra := map[string]partstore.PartStore{"s1": e.stores[1], "s2": e.stores[2]}
	mapping := map[string]string{"STANDARD_IA": "default", "GLACIER": "s1", "DEEP_ARCHIVE": "s2"}
	ms, err := c14NewMetadataStore(db)
	if err != nil {
		return nil, err
	}
	var opts []metadatapart.StorageOption
	if storageGrace > 0 {
		opts = append(opts, metadatapart.WithGCGraceWindow(storageGrace))
	}
	st, err := metadatapart.NewStorageWithNamedPartStores(db, ms, e.stores[0], extra, mapping, opts...)
	if err != nil {
		return nil, err
	}
	ctx := context.Background()
	if err := st.Start(ctx); err != nil {
		return nil, err
	}
	regRepo, err := repositoryFactory.NewPartRegistryRepository(db)
	if err != nil {
		return nil, err
	}
	dedupRepo, err := repositoryFactory.NewPartDedupIndexRepository(db)
	if err != nil {
		return nil, err
	}
	named, err := partstore.NewNamedPartStores(e.stores[0], extra, mapping)
	if err != nil {
		return nil, err
	}
	collector, err := gc.New(db, ms, named, regRepo, dedupRepo, c09Grace, time.Hour)
	if err != nil {
		return nil, err
	}
	e.st = st
	e.c9 = &c09Env{dir: dir, partsDir: e.dirs[0], moreDirs: e.dirs[1:], db: db, ps: e.stores[0], dedup: dedupRepo, gc: collector}
	e.c9.meta = &metaEnv{st: st, db: db, close: func() {}}
	e.close = func() { st.Stop(ctx); db.Close() }
	return e, nil
}

type c08sSnap struct {
	files [3]map[string][]byte // per store: hex id -> content
	rows  []([2]string)        // (hex id, store name) per part row
	reg   map[string]int64
	dedup [][3]string // store name, sha256, hex id
}

func c08sStoreIdx(name sql.NullString) int {
	if !name.Valid || name.String == "" || name.String == "default" {
		return 0
	}
	if name.String == "s1" {
		return 1
	}
	return 2
}

func (e *c08sEnv) snap() (*c08sSnap, error) {
	s := &c08sSnap{reg: map[string]int64{}}
	for i, d := range e.dirs {
		s.files[i] = map[string][]byte{}
		ents, _ := os.ReadDir(d)
		for _, f := range ents {
			if !f.IsDir() && c09IsPartName(f.Name()) {
				b, _ := os.ReadFile(filepath.Join(d, f.Name()))
				s.files[i][f.Name()] = b
			}
		}
	}
	if err := e.c9.query("SELECT part_id, part_store_name FROM parts", func(r *sql.Rows) error {
		var id string
		var sn sql.NullString
		if err := r.Scan(&id, &sn); err != nil {
			return err
		}
		s.rows = append(s.rows, [2]string{c09FileOf(id), strconv.Itoa(c08sStoreIdx(sn))})
		return nil
	}); err != nil {
		return nil, err
	}
	if err := e.c9.query("SELECT part_id, ref_count FROM part_registry", func(r *sql.Rows) error {
		var id string
		var n int64
		if err := r.Scan(&id, &n); err != nil {
			return err
		}
		s.reg[c09FileOf(id)] = n
		return nil
	}); err != nil {
		return nil, err
	}
	if err := e.c9.query("SELECT part_store_name, checksum_sha256, part_id FROM part_dedup_index", func(r *sql.Rows) error {
		var sn sql.NullString
		var sha, id string
		if err := r.Scan(&sn, &sha, &id); err != nil {
			return err
		}
		s.dedup = append(s.dedup, [3]string{strconv.Itoa(c08sStoreIdx(sn)), sha, c09FileOf(id)})
		return nil
	}); err != nil {
		return nil, err
	}
	return s, nil
}

// the property, checked on the database and the directories only
func (s *c08sSnap) safety() []string {
	var out []string
	cnt := map[string]int64{}
	for _, r := range s.rows {
		cnt[r[0]]++
		st, _ := strconv.Atoi(r[1])
		if _, ok := s.files[st][r[0]]; !ok {
			where := ""
			for j := range s.files {
				if _, ok := s.files[j][r[0]]; ok {
					where = fmt.Sprintf(" (a file of that id is in store %d)", j)
				}
			}
			out = append(out, fmt.Sprintf("part %s is referenced by a part row in store %d but its file is gone%s", r[0], st, where))
		}
	}
	for id, n := range cnt {
		if s.reg[id] != n {
			out = append(out, fmt.Sprintf("part %s: %d part rows but registry ref_count %d", id, n, s.reg[id]))
		}
	}
	for id, n := range s.reg {
		if cnt[id] == 0 {
			out = append(out, fmt.Sprintf("registry row (ref_count %d) for part %s without part rows", n, id))
		}
	}
	return out
}
func (s *c08sSnap) reclaimed() []string {
	var out []string
	want := [3]map[string]bool{{}, {}, {}}
	for _, r := range s.rows {
		st, _ := strconv.Atoi(r[1])
		want[st][r[0]] = true
	}
	for i := range s.files {
		for id := range s.files[i] {
			if !want[i][id] {
				out = append(out, fmt.Sprintf("unreferenced part file %s survived two GC runs in store %d", id, i))
			}
		}
	}
	for _, d := range s.dedup {
		st, _ := strconv.Atoi(d[0])
		if !want[st][d[2]] {
			out = append(out, "dedup entry of store "+d[0]+" points at an unreferenced part")
		}
	}
	return out
}

func (s *c08sSnap) line(known [][]byte) string {
	contentOf := func(id string) string {
		for i := range s.files {
			if b, ok := s.files[i][id]; ok {
				return tokBytes(string(b))
			}
		}
		return "?"
	}
	shaOf := map[string]string{}
	for i := range s.files {
		for _, b := range s.files[i] {
			shaOf[*c09Checksums(b).ChecksumSHA256] = tokBytes(string(b))
		}
	}
	for _, b := range known {
		shaOf[*c09Checksums(b).ChecksumSHA256] = tokBytes(string(b))
	}
	var S [3][]string
	for i := range s.files {
		for _, b := range s.files[i] {
			S[i] = append(S[i], tokBytes(string(b)))
		}
		sort.Strings(S[i])
	}
	var R, D []string
	for id, n := range s.reg {
		R = append(R, contentOf(id)+"*"+strconv.FormatInt(n, 10))
	}
	for _, d := range s.dedup {
		k, ok := shaOf[d[1]]
		if !ok {
			k = "sha" + d[1]
		}
		D = append(D, d[0]+"."+k+">"+contentOf(d[2]))
	}
	sort.Strings(R)
	sort.Strings(D)
	return "S0=" + strings.Join(S[0], ",") + ":S1=" + strings.Join(S[1], ",") + ":S2=" + strings.Join(S[2], ",") + ":R=" + strings.Join(R, ",") + ":D=" + strings.Join(D, ",")
}

type c08sHolder struct {
	content []byte
	vid     string // version id ("" for unversioned keys)
	key     int
}
type c08sUpload struct {
	id    storage.UploadId
	key   int
	parts map[int][]byte
	live  bool
}
type c08sRun struct {
	e       *c08sEnv
	unv     map[int]*c08sHolder // unversioned keys
	vers    map[int]*c08sHolder // token index -> version (deleted versions stay, with content nil and dead=true)
	dead    map[int]bool
	latest  map[int][]int // versioned key -> token indices of its live versions, oldest first
	uploads map[int]*c08sUpload
	known   [][]byte
	fails   []string
	leaks   []string
	tags    map[string]bool
	prevGc  bool
}

var c08sBU, c08sBV = storage.MustNewBucketName("unv"), storage.MustNewBucketName("ver")

func c08sKey(k int) storage.ObjectKey { return storage.MustNewObjectKey("k" + strconv.Itoa(k)) }

func c08sErr(err error) string {
	switch {
	case err == nil:
		return "ok"
	case err.Error() == "NoSuchUpload":
		return "NoSuchKey"
	case err.Error() == "UploadWithInvalidSequenceNumber":
		return "InvalidSeq"
	case strings.Contains(err.Error(), "NoSuchKey") || err == storage.ErrNoSuchKey:
		return "NoSuchKey"
	}
	return "Other"
}

// an addressed object: bucket, key, version id, expected content (nil = absent), harness-known?
type c08sAddr struct {
	b       storage.BucketName
	k       storage.ObjectKey
	vid     *string
	want    []byte
	exists  bool
	answer  string // non-empty: the harness answers itself (the reference names nothing the implementation can be asked about)
	holder  *c08sHolder
	vtok    int
	isLatest bool
}

func (r *c08sRun) addr(t string) c08sAddr {
	n, _ := strconv.Atoi(t[1:])
	switch t[0] {
	case 'U':
		a := c08sAddr{b: c08sBU, k: c08sKey(n)}
		if h := r.unv[n]; h != nil {
			a.want, a.exists, a.holder = h.content, true, h
		}
		return a
	case 'V':
		a := c08sAddr{b: c08sBV, k: c08sKey(n), isLatest: true}
		if l := r.latest[n]; len(l) > 0 {
			h := r.vers[l[len(l)-1]]
			a.want, a.exists, a.holder, a.vtok = h.content, true, h, l[len(l)-1]
		}
		return a
	default:
		h, ok := r.vers[n]
		if !ok {
			return c08sAddr{answer: "NoSuchKey"}
		}
		a := c08sAddr{b: c08sBV, k: c08sKey(h.key), vid: &h.vid, vtok: n}
		if !r.dead[n] {
			a.want, a.exists, a.holder = h.content, true, h
		}
		return a
	}
}

func (r *c08sRun) newVersion(i, key int, vid *string, content []byte) {
	if vid == nil {
		r.fails = append(r.fails, "write into the versioning-enabled bucket returned no version id")
		return
	}
	r.vers[i] = &c08sHolder{content: content, vid: *vid, key: key}
	r.latest[key] = append(r.latest[key], i)
}

func (r *c08sRun) read(a c08sAddr) ([]byte, error) {
	_, body, err := c08Read(r.e.st, a.b.String(), a.k.String(), a.vid)
	return body, err
}

func (r *c08sRun) op(i int, tok string) string {
	ctx := context.Background()
	st := r.e.st
	f := strings.Split(tok, ":")
	body := func(t string) []byte { return []byte(untokBytes(t)) }
	isGc := false
	defer func() { r.prevGc = isGc }()
	switch f[0] {
	case "G", "Q":
		isGc = true
		if err := r.e.c9.runGC(); err != nil {
			return "GC-ERROR:" + err.Error()
		}
		s, err := r.e.snap()
		if err != nil {
			return "SNAP-ERROR"
		}
		if r.prevGc {
			r.leaks = append(r.leaks, s.reclaimed()...)
			r.tags["reclaim-checked"] = true
		}
		if f[0] == "Q" {
			return "gcq"
		}
		return "gc:" + s.line(r.known)
	case "N":
		s, err := r.e.snap()
		if err != nil {
			return "SNAP-ERROR"
		}
		return "st:" + s.line(r.known)
	case "S":
		okN, bad := 0, 0
		check := func(name string, a c08sAddr) {
			got, err := r.read(a)
			if err != nil {
				bad++
				r.fails = append(r.fails, fmt.Sprintf("sweep: %s is not readable: %v", name, err))
				return
			}
			okN++
			if !bytes.Equal(got, a.want) {
				r.fails = append(r.fails, fmt.Sprintf("sweep: %s reads back %d bytes that differ from the %d expected", name, len(got), len(a.want)))
			}
		}
		for k := range r.unv {
			check("U"+strconv.Itoa(k), r.addr("U"+strconv.Itoa(k)))
		}
		for n := range r.vers {
			if !r.dead[n] {
				check("#"+strconv.Itoa(n), r.addr("#"+strconv.Itoa(n)))
			}
		}
		return fmt.Sprintf("sweep:%d:%d", okN+bad, bad)
	case "O":
		n, _ := strconv.Atoi(f[1])
		id, err := partstore.NewRandomPartId()
		if err == nil {
			err = r.e.stores[n].PutPart(ctx, nil, *id, bytes.NewReader(body(f[2])))
		}
		r.tags["orphan"] = true
		return c08sErr(err)
	case "P":
		content := body(f[3])
		var opts *storage.PutObjectOptions
		if c := c08sClassOf[f[2]]; c != nil {
			opts = &storage.PutObjectOptions{StorageClass: c}
		}
		n, _ := strconv.Atoi(f[1][1:])
		if f[1][0] == 'U' {
			if _, err := st.PutObject(ctx, c08sBU, c08sKey(n), nil, bytes.NewReader(content), nil, opts); err != nil {
				return c08sErr(err)
			}
			r.unv[n] = &c08sHolder{content: content, key: n}
			return "ok"
		}
		res, err := st.PutObject(ctx, c08sBV, c08sKey(n), nil, bytes.NewReader(content), nil, opts)
		if err != nil {
			return c08sErr(err)
		}
		r.newVersion(i, n, res.VersionID, content)
		return "ok"
	case "A":
		content := body(f[2])
		n, _ := strconv.Atoi(f[1][1:])
		a := r.addr(f[1])
		if _, err := st.AppendObject(ctx, a.b, a.k, bytes.NewReader(content), nil, nil); err != nil {
			return c08sErr(err)
		}
		nb := append(append([]byte{}, a.want...), content...)
		if f[1][0] == 'U' {
			r.unv[n] = &c08sHolder{content: nb, key: n}
		} else {
			o, err := st.HeadObject(ctx, a.b, a.k, nil)
			if err != nil {
				r.fails = append(r.fails, "head after versioned append failed: "+err.Error())
				return "ok"
			}
			r.newVersion(i, n, o.VersionID, nb)
			r.tags["append-shares-prefix"] = true
		}
		return "ok"
	case "C":
		src := r.addr(f[1])
		if src.answer != "" {
			return src.answer
		}
		opts := &storage.CopyObjectOptions{SourceVersionID: src.vid, StorageClass: c08sClassOf[f[3]]}
		n, _ := strconv.Atoi(f[2][1:])
		db := c08sBU
		if f[2][0] == 'V' {
			db = c08sBV
		}
		res, err := st.CopyObject(ctx, src.b, src.k, db, c08sKey(n), opts)
		if err != nil {
			if src.exists {
				r.fails = append(r.fails, "copy of an existing object failed: "+err.Error())
			}
			return c08sErr(err)
		}
		if !src.exists {
			r.fails = append(r.fails, "copy of an absent object succeeded")
			return "ok"
		}
		content := append([]byte{}, src.want...)
		if f[2][0] == 'U' {
			r.unv[n] = &c08sHolder{content: content, key: n}
		} else {
			r.newVersion(i, n, res.VersionID, content)
		}
		r.tags["copy"] = true
		return "ok"
	case "T":
		a := r.addr(f[1])
		if a.answer != "" {
			return a.answer
		}
		cls := "STANDARD"
		if c := c08sClassOf[f[2]]; c != nil {
			cls = *c
		}
		var opts *storage.TransitionObjectStorageClassOptions
		if a.vid != nil {
			opts = &storage.TransitionObjectStorageClassOptions{VersionID: a.vid}
		}
		err := st.TransitionObjectStorageClass(ctx, a.b, a.k, cls, opts)
		if err != nil && a.exists {
			r.fails = append(r.fails, "transition of an existing object failed: "+err.Error())
		}
		if err == nil {
			r.tags["transition"] = true
		}
		return c08sErr(err)
	case "D":
		a := r.addr(f[1])
		if a.answer != "" {
			return "ok"
		}
		var opts *storage.DeleteObjectOptions
		if a.vid != nil {
			opts = &storage.DeleteObjectOptions{VersionID: a.vid}
		}
		if _, err := st.DeleteObject(ctx, a.b, a.k, opts); err != nil {
			return c08sErr(err)
		}
		n, _ := strconv.Atoi(f[1][1:])
		if f[1][0] == 'U' {
			delete(r.unv, n)
		} else if a.exists {
			r.dead[n] = true
			key := r.vers[n].key
			var l []int
			for _, x := range r.latest[key] {
				if x != n {
					l = append(l, x)
				}
			}
			r.latest[key] = l
		}
		return "ok"
	case "R":
		a := r.addr(f[1])
		if a.answer != "" {
			return a.answer
		}
		got, err := r.read(a)
		if err != nil {
			if a.exists {
				r.fails = append(r.fails, fmt.Sprintf("read of %s failed although the object exists: %v", f[1], err))
				if c08sErr(err) == "Other" {
					return "Unreadable"
				}
			}
			return c08sErr(err)
		}
		if !a.exists {
			r.fails = append(r.fails, "read of a deleted object succeeded: "+f[1])
		} else if !bytes.Equal(got, a.want) {
			r.fails = append(r.fails, fmt.Sprintf("read of %s returns %d bytes that differ from the %d expected", f[1], len(got), len(a.want)))
		}
		return "obj:" + tokBytes(string(got))
	case "M":
		k, _ := strconv.Atoi(f[1])
		var opts *storage.CreateMultipartUploadOptions
		if c := c08sClassOf[f[2]]; c != nil {
			opts = &storage.CreateMultipartUploadOptions{StorageClass: c}
		}
		res, err := st.CreateMultipartUpload(ctx, c08sBU, c08sKey(k), nil, nil, opts)
		if err != nil {
			return c08sErr(err)
		}
		r.uploads[i] = &c08sUpload{id: res.UploadId, key: k, parts: map[int][]byte{}, live: true}
		return "ok"
	case "U", "Y", "F", "X":
		m, _ := strconv.Atoi(f[1][1:])
		u := r.uploads[m]
		if u == nil {
			return "NoSuchKey"
		}
		switch f[0] {
		case "U":
			pn, _ := strconv.Atoi(f[2])
			content := body(f[3])
			if _, err := st.UploadPart(ctx, c08sBU, c08sKey(u.key), u.id, int32(pn), bytes.NewReader(content), nil); err != nil {
				return c08sErr(err)
			}
			u.parts[pn] = content
			return "ok"
		case "Y":
			pn, _ := strconv.Atoi(f[2])
			if !u.live {
				return "NoSuchKey"
			}
			src := r.addr(f[3])
			if src.answer != "" {
				return src.answer
			}
			var opts *storage.UploadPartCopyOptions
			if src.vid != nil {
				opts = &storage.UploadPartCopyOptions{SourceVersionID: src.vid}
			}
			if _, err := st.UploadPartCopy(ctx, src.b, src.k, c08sBU, c08sKey(u.key), u.id, int32(pn), opts); err != nil {
				if src.exists {
					r.fails = append(r.fails, "UploadPartCopy of an existing object failed: "+err.Error())
				}
				return c08sErr(err)
			}
			u.parts[pn] = append([]byte{}, src.want...)
			r.tags["upload-part-copy"] = true
			return "ok"
		case "F":
			if _, err := st.CompleteMultipartUpload(ctx, c08sBU, c08sKey(u.key), u.id, nil, nil); err != nil {
				return c08sErr(err)
			}
			var nums []int
			for pn := range u.parts {
				nums = append(nums, pn)
			}
			sort.Ints(nums)
			var content []byte
			for _, pn := range nums {
				content = append(content, u.parts[pn]...)
			}
			u.live = false
			r.unv[u.key] = &c08sHolder{content: content, key: u.key}
			return "ok"
		default:
			if err := st.AbortMultipartUpload(ctx, c08sBU, c08sKey(u.key), u.id); err != nil {
				return c08sErr(err)
			}
			u.live = false
			return "ok"
		}
	}
	panic("c08s: unknown token " + tok)
}

func c08sKnown(line string) [][]byte {
	var out [][]byte
	for _, tok := range strings.Split(line, " ") {
		f := strings.Split(tok, ":")
		idx := map[string]int{"P": 3, "A": 2, "U": 3, "O": 2}[f[0]]
		if idx > 0 && idx < len(f) {
			out = append(out, []byte(untokBytes(f[idx])))
		}
	}
	return out
}

func c08sRunLine(in string, scratch string) Result {
	e, err := c08sOpen(scratch, 0)
	if err != nil {
		return Result{Out: "SETUP-ERROR " + err.Error(), Oracle: "FAIL:setup " + err.Error()}
	}
	defer e.close()
	ctx := context.Background()
	for _, b := range []storage.BucketName{c08sBU, c08sBV} {
		if err := e.st.CreateBucket(ctx, b); err != nil {
			return Result{Out: "SETUP-ERROR " + err.Error(), Oracle: "FAIL:setup " + err.Error()}
		}
	}
	en := storage.BucketVersioningStatusEnabled
	if err := e.st.PutBucketVersioningConfiguration(ctx, c08sBV, &storage.BucketVersioningConfiguration{Status: &en}); err != nil {
		return Result{Out: "SETUP-ERROR " + err.Error(), Oracle: "FAIL:setup " + err.Error()}
	}
	// the storage's own collector (30 min grace) looks at its write counter once right after Start and then sleeps
	// 30 s: let that look happen while there is nothing to back-fill, so that it cannot change a dedup decision later
	time.Sleep(25 * time.Millisecond)
	r := &c08sRun{e: e, unv: map[int]*c08sHolder{}, vers: map[int]*c08sHolder{}, dead: map[int]bool{}, latest: map[int][]int{},
		uploads: map[int]*c08sUpload{}, known: c08sKnown(in), tags: map[string]bool{"multi-store": true}}
	toks := strings.Split(in, " ")[1:]
	outs := make([]string, 0, len(toks))
	for i, t := range toks {
		outs = append(outs, r.op(i, t))
		if s, err := e.snap(); err == nil {
			for _, m := range s.safety() {
				r.fails = append(r.fails, fmt.Sprintf("after token %d (%s): %s", i, t, m))
			}
		}
	}
	tags := []string{}
	for t := range r.tags {
		tags = append(tags, t)
	}
	sortStrings(tags)
	oracle := "OK"
	if len(r.fails) > 0 {
		oracle = fmt.Sprintf("FAIL:%s (+%d more)", r.fails[0], len(r.fails)-1)
	} else if len(r.leaks) > 0 {
		oracle = "FAIL:not reclaimed: " + r.leaks[0]
	}
	return Result{Out: strings.Join(outs, " "), Oracle: oracle, Tags: tags}
}

// ---- generator: create sharing first, then transition / delete sharers with GC runs in between ----
func c08sGen(r *Rng) string {
	var toks []string
	bodies := []string{}
	body := func() string {
		if len(bodies) > 0 && r.Chance(55) {
			return bodies[r.Intn(len(bodies))]
		}
		b := tokBytes(string(append([]byte{byte('a' + len(bodies)%26)}, r.Bytes(r.Intn(5))...)))
		bodies = append(bodies, b)
		return b
	}
	cls := func() string { return []string{"s", "s", "i", "g", "g", "d"}[r.Intn(6)] }
	var versions, uploads []int // token indices
	objs := func() string {    // an object reference, biased to existing things
		switch k := r.Intn(10); {
		case k < 5:
			return "U" + strconv.Itoa(r.Intn(4))
		case k < 7 || len(versions) == 0:
			return "V" + strconv.Itoa(r.Intn(2))
		default:
			return "#" + strconv.Itoa(versions[r.Intn(len(versions))])
		}
	}
	tgt := func() string {
		if r.Chance(65) {
			return "U" + strconv.Itoa(r.Intn(4))
		}
		return "V" + strconv.Itoa(r.Intn(2))
	}
	add := func(t string) {
		if t[0] == 'P' || t[0] == 'C' || t[0] == 'A' {
			f := strings.Split(t, ":")
			target := f[1]
			if t[0] == 'C' {
				target = f[2]
			}
			if target[0] == 'V' {
				versions = append(versions, len(toks))
			}
		}
		if t[0] == 'M' {
			uploads = append(uploads, len(toks))
		}
		toks = append(toks, t)
	}
	// phase 1: objects with shared parts
	for n := 3 + r.Intn(4); n > 0; n-- {
		add("P:" + tgt() + ":" + cls() + ":" + body())
	}
	n := 14 + r.Intn(30)
	for len(toks) < n {
		switch k := r.Intn(100); {
		case k < 12:
			add("P:" + tgt() + ":" + cls() + ":" + body())
		case k < 24:
			add("C:" + objs() + ":" + tgt() + ":" + cls())
		case k < 32:
			add("A:" + tgt() + ":" + body())
		case k < 54:
			add("T:" + objs() + ":" + cls())
		case k < 64:
			add("D:" + func() string {
				if len(versions) > 0 && r.Bool() {
					return "#" + strconv.Itoa(versions[r.Intn(len(versions))])
				}
				return "U" + strconv.Itoa(r.Intn(4))
			}())
		case k < 68:
			add("M:" + strconv.Itoa(r.Intn(4)) + ":" + cls())
		case k < 80:
			if len(uploads) == 0 {
				continue
			}
			u := "#" + strconv.Itoa(uploads[len(uploads)-1-r.Intn(min(2, len(uploads)))])
			pn := strconv.Itoa(1 + r.Intn(3))
			if r.Chance(55) {
				add("Y:" + u + ":" + pn + ":" + objs())
			} else {
				add("U:" + u + ":" + pn + ":" + body())
			}
		case k < 84:
			if len(uploads) == 0 {
				continue
			}
			u := "#" + strconv.Itoa(uploads[r.Intn(len(uploads))])
			if r.Chance(70) {
				add("F:" + u)
			} else {
				add("X:" + u)
			}
		case k < 90:
			add("R:" + objs())
		case k < 93:
			add("O:" + strconv.Itoa(r.Intn(3)) + ":" + body())
		case k < 95:
			add("N")
		case k < 98:
			add([]string{"G", "Q"}[r.Intn(2)])
		default:
			add("S")
		}
	}
	toks = append(toks, "S", "N", "G", "G", "S")
	return "ms " + strings.Join(toks, " ")
}
