//go:build verif

package main

import (
	"context"
	"fmt"
	"io"
	"log/slog"
	"sort"
	"strconv"
	"strings"
	"sync"
	"sync/atomic"
	"time"

	"github.com/jdillenkofer/pithos/internal/storage"
	"github.com/jdillenkofer/pithos/internal/storage/middlewares/delegator"
	"github.com/jdillenkofer/pithos/internal/storage/middlewares/lifecyclereconciler"
)

// C25 — lifecycle reconciler.  Case line: <now> <rules> <objects> <versions> <uploads> (coq/Model/Lifecycle.v).
type c25 struct{}

func init() { register("C25", c25{}) }

func (c25) Parallel() bool { return true }

const c25Day = 86400

type c25Tag struct{ k, v string }
type c25Trans struct {
	days, date *int64
	class      string
}
type c25Rule struct {
	enabled                  bool
	shape                    string
	prefix                   *string
	tags                     []c25Tag
	gt, lt                   *int64
	expDays, expDate         *int64
	expDM                    *bool
	trans                    []c25Trans
	ncDays, ncNewer, abortDs *int64
	nct                      []c25NCT
}

// NoncurrentVersionTransition
type c25NCT struct {
	days, newer *int64
	class       string
}
type c25Obj struct {
	key      string
	size     int64
	tags     []c25Tag
	lm       int64
	etag     string
	class    string
	swap     bool // a concurrent PUT lands between the listing and the guarded call
	swapEtag string
	swapLm   int64
	gone     bool // a concurrent DELETE lands there instead
}
type c25Ver struct {
	key, id    string
	latest, dm bool
	lm, size   int64
	tags       []c25Tag
	etag       string
	class      string
	swap       bool // the id is reused by a new generation (null version overwritten in place)
	swapEtag   string
	swapLm     int64
}
type c25Upl struct {
	key, id string
	init    int64
}

// ---- parsing ----
func c25OptI(t string) *int64 {
	if t == "N" {
		return nil
	}
	v, err := strconv.ParseInt(t, 10, 64)
	if err != nil {
		panic("bad number " + t)
	}
	return &v
}
func c25I(t string) int64 { return *c25OptI(t) }
func c25Tags(t string) []c25Tag {
	if t == "_" {
		return nil
	}
	var out []c25Tag
	for _, p := range strings.Split(t, ",") {
		kv := strings.Split(p, ":")
		out = append(out, c25Tag{untokBytes(kv[0]), untokBytes(kv[1])})
	}
	return out
}
func c25Items(t string) []string {
	if t == "~" {
		return nil
	}
	return strings.Split(t, "|")
}
func c25ParseRule(t string) c25Rule {
	f := strings.Split(t, "/")
	r := c25Rule{enabled: f[0] == "1", shape: f[1], tags: c25Tags(f[3]), gt: c25OptI(f[4]), lt: c25OptI(f[5]),
		expDays: c25OptI(f[6]), expDate: c25OptI(f[7]), ncDays: c25OptI(f[10]), ncNewer: c25OptI(f[11]), abortDs: c25OptI(f[13])}
	if f[12] != "_" {
		for _, x := range strings.Split(f[12], ",") {
			p := strings.Split(x, ":")
			r.nct = append(r.nct, c25NCT{c25OptI(p[0]), c25OptI(p[1]), untokBytes(p[2])})
		}
	}
	if f[2] != "N" {
		p := untokBytes(f[2][1:])
		r.prefix = &p
	}
	if f[8] != "N" {
		b := f[8] == "1"
		r.expDM = &b
	}
	if f[9] != "_" {
		for _, x := range strings.Split(f[9], ",") {
			p := strings.Split(x, ":")
			r.trans = append(r.trans, c25Trans{c25OptI(p[0]), c25OptI(p[1]), untokBytes(p[2])})
		}
	}
	return r
}
func c25ParseObj(t string) *c25Obj {
	f := strings.Split(t, "/")
	o := &c25Obj{key: untokBytes(f[0]), size: c25I(f[1]), tags: c25Tags(f[2]), lm: c25I(f[3]), etag: untokBytes(f[4]), class: untokBytes(f[5])}
	switch {
	case f[6] == "X":
		o.gone = true
	case f[6] != "N":
		p := strings.Split(f[6], ":")
		o.swap, o.swapEtag, o.swapLm = true, untokBytes(p[0]), c25I(p[1])
	}
	return o
}
func c25ParseVer(t string) c25Ver {
	f := strings.Split(t, "/")
	v := c25Ver{key: untokBytes(f[0]), id: untokBytes(f[1]), latest: f[2] == "1", dm: f[3] == "1", lm: c25I(f[4]), size: c25I(f[5]), tags: c25Tags(f[6]),
		etag: untokBytes(f[7]), class: untokBytes(f[8])}
	if f[9] != "N" {
		p := strings.Split(f[9], ":")
		v.swap, v.swapEtag, v.swapLm = true, untokBytes(p[0]), c25I(p[1])
	}
	return v
}
func c25ParseUpl(t string) c25Upl {
	f := strings.Split(t, "/")
	return c25Upl{untokBytes(f[0]), untokBytes(f[1]), c25I(f[2])}
}

func c25Time(s int64) time.Time { return time.Unix(s, 0).UTC() }
func c25I32(p *int64) *int32 {
	if p == nil {
		return nil
	}
	v := int32(*p)
	return &v
}
func c25TimeP(p *int64) *time.Time {
	if p == nil {
		return nil
	}
	t := c25Time(*p)
	return &t
}
func c25TagMap(ts []c25Tag) map[string]string {
	m := map[string]string{}
	for i := len(ts) - 1; i >= 0; i-- { // the first occurrence of a key wins, like the model's lookup
		m[ts[i].k] = ts[i].v
	}
	return m
}

// the storage.LifecycleRule the case line denotes
func c25Build(r c25Rule) storage.LifecycleRule {
	out := storage.LifecycleRule{Status: storage.LifecycleRuleStatusEnabled}
	if !r.enabled {
		out.Status = "Disabled"
	}
	var ltags []storage.LifecycleTag
	for _, t := range r.tags {
		ltags = append(ltags, storage.LifecycleTag{Key: t.k, Value: t.v})
	}
	switch r.shape {
	case "P":
		out.Prefix = r.prefix
	case "F":
		fl := &storage.LifecycleFilter{Prefix: r.prefix, ObjectSizeGreaterThan: r.gt, ObjectSizeLessThan: r.lt}
		if len(ltags) > 0 {
			fl.Tag = &ltags[0]
		}
		out.Filter = fl
	case "A":
		out.Filter = &storage.LifecycleFilter{And: &storage.LifecycleFilterAnd{Prefix: r.prefix, Tags: ltags, ObjectSizeGreaterThan: r.gt, ObjectSizeLessThan: r.lt}}
	}
	if r.expDays != nil || r.expDate != nil || r.expDM != nil {
		out.Expiration = &storage.LifecycleExpiration{Days: c25I32(r.expDays), Date: c25TimeP(r.expDate), ExpiredObjectDeleteMarker: r.expDM}
	}
	for _, t := range r.trans {
		out.Transitions = append(out.Transitions, storage.LifecycleTransition{Days: c25I32(t.days), Date: c25TimeP(t.date), StorageClass: t.class})
	}
	if r.ncDays != nil || r.ncNewer != nil {
		out.NoncurrentVersionExpiration = &storage.LifecycleNoncurrentVersionExpiration{NoncurrentDays: c25I32(r.ncDays), NewerNoncurrentVersions: c25I32(r.ncNewer)}
	}
	if r.abortDs != nil {
		out.AbortIncompleteMultipartUpload = &storage.LifecycleAbortIncompleteMultipartUpload{DaysAfterInitiation: c25I32(r.abortDs)}
	}
	for _, t := range r.nct {
		out.NoncurrentVersionTransitions = append(out.NoncurrentVersionTransitions, storage.LifecycleNoncurrentVersionTransition{NoncurrentDays: c25I32(t.days), NewerNoncurrentVersions: c25I32(t.newer), StorageClass: t.class})
	}
	return out
}

// ---- recording in-memory storage the real reconciler runs against ----
// Listings are paged: a page holds at most `page` entries (0: as many as the caller's MaxKeys), which a storage
// is free to do; objects are kept sorted by key, uploads by (key, upload id), versions in the given order.
type c25Double struct {
	delegator.DelegatingStorage
	config  *storage.BucketLifecycleConfiguration
	objs    []*c25Obj
	vers    []*c25Ver
	upls    []c25Upl
	page    int
	actions []string
	lists   int
}

var c25Bucket = storage.MustNewBucketName("bucket")

func (d *c25Double) Start(context.Context) error { return nil }
func (d *c25Double) Stop(context.Context) error  { return nil }
func (d *c25Double) ListBuckets(context.Context) ([]storage.Bucket, error) {
	return []storage.Bucket{{Name: c25Bucket}}, nil
}
func (d *c25Double) GetBucketLifecycleConfiguration(context.Context, storage.BucketName) (*storage.BucketLifecycleConfiguration, error) {
	return d.config, nil
}
func c25ClassP(c string) *string {
	if c == "" {
		return nil
	}
	return &c
}
func (d *c25Double) cap(max int32) int {
	c := int(max)
	if c <= 0 {
		c = 1000
	}
	if d.page > 0 && d.page < c {
		c = d.page
	}
	return c
}
func (d *c25Double) ListObjects(_ context.Context, _ storage.BucketName, opts storage.ListObjectsOptions) (*storage.ListBucketResult, error) {
	d.lists++
	res := &storage.ListBucketResult{}
	c := d.cap(opts.MaxKeys)
	for _, o := range d.objs {
		if opts.StartAfter != nil && !(o.key > *opts.StartAfter) {
			continue
		}
		if len(res.Objects) == c {
			res.IsTruncated = true
			break
		}
		res.Objects = append(res.Objects, storage.Object{Key: storage.MustNewObjectKey(o.key), LastModified: c25Time(o.lm), ETag: o.etag,
			Size: o.size, StorageClass: c25ClassP(o.class), Tags: c25TagMap(o.tags)})
	}
	return res, nil
}
func (d *c25Double) ListObjectVersions(_ context.Context, _ storage.BucketName, opts storage.ListObjectVersionsOptions) (*storage.ListObjectVersionsResult, error) {
	d.lists++
	res := &storage.ListObjectVersionsResult{}
	c := d.cap(opts.MaxKeys)
	started := opts.KeyMarker == nil
	for _, v := range d.vers {
		if !started { // the markers name the last entry of the previous page
			vm := ""
			if opts.VersionIDMarker != nil {
				vm = *opts.VersionIDMarker
			}
			if v.key == *opts.KeyMarker && v.id == vm {
				started = true
			}
			continue
		}
		if len(res.Versions) == c {
			res.IsTruncated = true
			break
		}
		e := v.etag
		res.Versions = append(res.Versions, storage.ObjectVersion{Key: storage.MustNewObjectKey(v.key), VersionID: v.id, IsDeleteMarker: v.dm,
			IsLatest: v.latest, LastModified: c25Time(v.lm), Size: v.size, ETag: &e, StorageClass: c25ClassP(v.class)})
	}
	if res.IsTruncated {
		l := res.Versions[len(res.Versions)-1]
		k := l.Key.String()
		id := l.VersionID
		res.NextKeyMarker, res.NextVersionIDMarker = &k, &id
	}
	return res, nil
}
func (d *c25Double) ListMultipartUploads(_ context.Context, _ storage.BucketName, opts storage.ListMultipartUploadsOptions) (*storage.ListMultipartUploadsResult, error) {
	d.lists++
	res := &storage.ListMultipartUploadsResult{}
	c := d.cap(opts.MaxUploads)
	for _, u := range d.upls {
		if opts.KeyMarker != nil {
			um := ""
			if opts.UploadIdMarker != nil {
				um = *opts.UploadIdMarker
			}
			if !(u.key > *opts.KeyMarker || (u.key == *opts.KeyMarker && u.id > um)) {
				continue
			}
		}
		if len(res.Uploads) == c {
			res.IsTruncated = true
			break
		}
		res.Uploads = append(res.Uploads, storage.Upload{Key: storage.MustNewObjectKey(u.key), UploadId: storage.MustNewUploadId(u.id), Initiated: c25Time(u.init)})
		res.NextKeyMarker, res.NextUploadIdMarker = u.key, u.id
	}
	return res, nil
}
func (d *c25Double) findVer(key, id string) (int, *c25Ver) {
	for i, v := range d.vers {
		if v.key == key && v.id == id {
			return i, v
		}
	}
	return -1, nil
}
func (d *c25Double) findObj(key string) (int, *c25Obj) {
	for i, o := range d.objs {
		if o.key == key {
			return i, o
		}
	}
	return -1, nil
}
func (d *c25Double) GetObjectTagging(_ context.Context, _ storage.BucketName, key storage.ObjectKey, opts *storage.ObjectTaggingOptions) (map[string]string, error) {
	if opts != nil && opts.VersionID != nil {
		if _, v := d.findVer(key.String(), *opts.VersionID); v != nil {
			return c25TagMap(v.tags), nil
		}
		return map[string]string{}, nil
	}
	if _, o := d.findObj(key.String()); o != nil {
		return c25TagMap(o.tags), nil
	}
	return nil, storage.ErrNoSuchKey
}

// the other client's operation lands before the guarded call is evaluated; false: the key is gone
func (d *c25Double) clientOp(i int, o *c25Obj) bool {
	if o.gone {
		d.objs = append(append([]*c25Obj{}, d.objs[:i]...), d.objs[i+1:]...)
		return false
	}
	if o.swap {
		o.etag, o.lm, o.swap = o.swapEtag, o.swapLm, false
	}
	return true
}
func (v *c25Ver) applySwap() {
	if v.swap {
		v.etag, v.lm, v.swap, v.latest, v.dm = v.swapEtag, v.swapLm, false, true, false
	}
}
func c25Guard(p *string) string {
	if p == nil {
		return "<none>"
	}
	return tokBytes(*p)
}
func (d *c25Double) DeleteObject(_ context.Context, _ storage.BucketName, key storage.ObjectKey, opts *storage.DeleteObjectOptions) (*storage.DeleteObjectResult, error) {
	if opts != nil && opts.VersionID != nil {
		i, v := d.findVer(key.String(), *opts.VersionID)
		if v == nil {
			return nil, storage.ErrNoSuchKey
		}
		if opts.IfMatchETag != nil { // (the unchanged reconciler sends no guard here; a repaired one may)
			v.applySwap()
			if v.dm || v.etag != *opts.IfMatchETag {
				d.actions = append(d.actions, "V:"+tokBytes(v.key)+":"+tokBytes(v.id)+":412")
				return nil, storage.ErrPreconditionFailed
			}
		}
		d.actions = append(d.actions, "V:"+tokBytes(v.key)+":"+tokBytes(v.id)+":"+c06Bool(v.swap))
		d.vers = append(append([]*c25Ver{}, d.vers[:i]...), d.vers[i+1:]...)
		return &storage.DeleteObjectResult{VersionID: opts.VersionID}, nil
	}
	var im *string
	if opts != nil {
		im = opts.IfMatchETag
	}
	i, o := d.findObj(key.String())
	if o == nil {
		d.actions = append(d.actions, "D:"+tokBytes(key.String())+":"+c25Guard(im)+":0")
		return nil, storage.ErrNoSuchKey
	}
	if !d.clientOp(i, o) {
		d.actions = append(d.actions, "D:"+tokBytes(o.key)+":"+c25Guard(im)+":0")
		return nil, storage.ErrNoSuchKey
	}
	if im != nil && *im != o.etag {
		d.actions = append(d.actions, "D:"+tokBytes(o.key)+":"+c25Guard(im)+":0")
		return nil, storage.ErrPreconditionFailed
	}
	d.actions = append(d.actions, "D:"+tokBytes(o.key)+":"+c25Guard(im)+":1")
	d.objs = append(append([]*c25Obj{}, d.objs[:i]...), d.objs[i+1:]...)
	return &storage.DeleteObjectResult{}, nil
}
func (d *c25Double) TransitionObjectStorageClass(_ context.Context, _ storage.BucketName, key storage.ObjectKey, target string, opts *storage.TransitionObjectStorageClassOptions) error {
	var im *string
	if opts != nil {
		im = opts.IfMatchETag
	}
	if opts != nil && opts.VersionID != nil {
		_, v := d.findVer(key.String(), *opts.VersionID)
		if v == nil {
			return storage.ErrNoSuchKey
		}
		v.applySwap()
		pre := "W:" + tokBytes(v.key) + ":" + tokBytes(v.id) + ":" + tokBytes(target) + ":" + c25Guard(im)
		if im != nil && *im != v.etag {
			d.actions = append(d.actions, pre+":0")
			return storage.ErrPreconditionFailed
		}
		d.actions = append(d.actions, pre+":1")
		v.class = target
		return nil
	}
	pre := "T:" + tokBytes(key.String()) + ":" + tokBytes(target) + ":" + c25Guard(im)
	i, o := d.findObj(key.String())
	if o == nil || !d.clientOp(i, o) {
		d.actions = append(d.actions, pre+":0")
		return storage.ErrNoSuchKey
	}
	if im != nil && *im != o.etag {
		d.actions = append(d.actions, pre+":0")
		return storage.ErrPreconditionFailed
	}
	d.actions = append(d.actions, pre+":1")
	o.class = target
	return nil
}
func (d *c25Double) AbortMultipartUpload(_ context.Context, _ storage.BucketName, key storage.ObjectKey, id storage.UploadId) error {
	d.actions = append(d.actions, "A:"+tokBytes(key.String())+":"+tokBytes(id.String()))
	var rest []c25Upl
	for _, u := range d.upls {
		if !(u.key == key.String() && u.id == id.String()) {
			rest = append(rest, u)
		}
	}
	d.upls = rest
	return nil
}

// ---- generator ----
const c25Base = 19675 * c25Day // 2023-11-14T00:00:00Z

var c25Keys = []string{"a", "a/1", "a/2", "b", "log", "c", "A"}
var c25Prefixes = []string{"", "a", "a/", "b", "lo", "x", "A"}
var c25TagPool = []c25Tag{{"t", "1"}, {"t", "2"}, {"u", "1"}, {"u", ""}}
var c25Classes = []string{"STANDARD_IA", "GLACIER", "STANDARD", "DEEP_ARCHIVE"}

func c25N(p *int64) string {
	if p == nil {
		return "N"
	}
	return strconv.FormatInt(*p, 10)
}
func c25ShowTags(ts []c25Tag) string {
	if len(ts) == 0 {
		return "_"
	}
	s := make([]string, len(ts))
	for i, t := range ts {
		s[i] = tokBytes(t.k) + ":" + tokBytes(t.v)
	}
	return strings.Join(s, ",")
}
func c25GenTags(r *Rng, p int) []c25Tag {
	var ts []c25Tag
	seen := map[string]bool{}
	for r.Chance(p) && len(ts) < 2 {
		t := c25TagPool[r.Intn(len(c25TagPool))]
		if !seen[t.k] {
			seen[t.k] = true
			ts = append(ts, t)
		}
	}
	return ts
}
func c25P(v int64) *int64 { return &v }

// a time whose distance to `now` sits on a day boundary +-1s, or anywhere within some days
func c25Past(r *Rng, now int64) int64 {
	d := int64(r.Intn(7))
	switch r.Intn(6) {
	case 0: // exactly midnight
		return (now/c25Day - d) * c25Day
	case 1:
		return (now/c25Day-d)*c25Day - 1
	case 2:
		return (now/c25Day-d)*c25Day + 1
	case 3:
		return now - d*c25Day
	default:
		return now - d*c25Day - int64(r.Intn(c25Day))
	}
}

func c25GenRule(r *Rng, now int64) string {
	en := "1"
	if r.Chance(12) {
		en = "0"
	}
	shape := r.Pick([]string{"P", "F", "F", "A", "A"})
	prefix := "N"
	if r.Chance(70) {
		prefix = "S" + tokBytes(r.Pick(c25Prefixes))
	}
	var tags []c25Tag
	var gt, lt *int64
	if shape != "P" {
		tags = c25GenTags(r, 25)
		if r.Chance(20) {
			gt = c25P(int64(r.Pick([]string{"0", "4", "5", "9"})[0] - '0'))
		}
		if r.Chance(20) {
			lt = c25P(int64(r.Pick([]string{"1", "5", "6", "9"})[0] - '0'))
		}
	}
	date := func() *int64 {
		v := (now/c25Day + int64(r.Intn(5)) - 2) * c25Day
		if r.Chance(15) {
			v += int64(r.Intn(c25Day))
		}
		return &v
	}
	var ed, edt *int64
	edm := "N"
	switch k := r.Intn(10); {
	case k < 4:
		ed = c25P(int64(1 + r.Intn(5)))
	case k < 5:
		edt = date()
	case k < 6:
		edm = r.Pick([]string{"1", "1", "0"})
	case k < 7 && r.Chance(30): // malformed combination: still evaluated by the reconciler
		ed = c25P(int64(r.Intn(3)))
		edt = date()
	}
	var trs []string
	for r.Chance(30) && len(trs) < 3 {
		var d, dt *int64
		if r.Chance(80) {
			d = c25P(int64(r.Intn(5)))
		} else {
			dt = date()
		}
		trs = append(trs, c25N(d)+":"+c25N(dt)+":"+tokBytes(r.Pick(c25Classes)))
	}
	tr := "_"
	if len(trs) > 0 {
		tr = strings.Join(trs, ",")
	}
	var nd, nn *int64
	if r.Chance(35) {
		nd = c25P(int64(1 + r.Intn(3)))
		if r.Chance(50) {
			nn = c25P(int64(r.Intn(3)))
		}
	} else if r.Chance(4) {
		nn = c25P(1)
	}
	var ab *int64
	if r.Chance(25) {
		ab = c25P(int64(1 + r.Intn(3)))
	}
	var ncts []string
	for r.Chance(22) && len(ncts) < 2 {
		var d, nw *int64
		if r.Chance(92) {
			d = c25P(int64(1 + r.Intn(3)))
		}
		if r.Chance(40) {
			nw = c25P(int64(r.Intn(3)))
		}
		ncts = append(ncts, c25N(d)+":"+c25N(nw)+":"+tokBytes(r.Pick(c25Classes)))
	}
	nct := "_"
	if len(ncts) > 0 {
		nct = strings.Join(ncts, ",")
	}
	return strings.Join([]string{en, shape, prefix, c25ShowTags(tags), c25N(gt), c25N(lt), c25N(ed), c25N(edt), edm, tr, c25N(nd), c25N(nn), nct, c25N(ab)}, "/")
}

var c25MoreKeys = []string{"a", "a/1", "a/2", "b", "log", "c", "A", "a/3", "b/1", "d", "e", "lo"}

func c25J(l []string) string {
	if len(l) == 0 {
		return "~"
	}
	return strings.Join(l, "|")
}

// the version stack of one key: recency order with ties/perturbations, one latest, delete markers (often: a
// current delete marker over older data versions), optionally a null version whose id is reused by a
// concurrent overwrite
func c25GenStack(r *Rng, now int64, k string, nv int) []string {
	lms := make([]int64, nv)
	for i := range lms {
		lms[i] = c25Past(r, now)
		if i > 0 && r.Chance(15) {
			lms[i] = lms[i-1] // tie
		}
	}
	if r.Chance(80) {
		sort.Slice(lms, func(i, j int) bool { return lms[i] > lms[j] })
	}
	latest := 0
	if r.Chance(10) {
		latest = r.Intn(nv)
	}
	allDM := r.Chance(12)
	topDM := r.Chance(30)
	nullAt := -1
	if r.Chance(25) {
		nullAt = r.Intn(nv)
	}
	var out []string
	for i := 0; i < nv; i++ {
		dm := allDM || r.Chance(10) || (topDM && i == latest)
		id := "v" + strconv.Itoa(i)
		swap := "N"
		etag := r.Pick([]string{"e1", "e2"})
		if i == nullAt {
			id = "null"
			if r.Chance(60) {
				e2 := etag
				if r.Chance(50) {
					e2 = "e9"
				}
				swap = tokBytes(e2) + ":" + strconv.FormatInt(now-int64(r.Intn(3600)), 10)
			}
		}
		out = append(out, strings.Join([]string{tokBytes(k), tokBytes(id), c06Bool(i == latest), c06Bool(dm),
			strconv.FormatInt(lms[i], 10), strconv.Itoa(r.Intn(11)), c25ShowTags(c25GenTags(r, 30)),
			tokBytes(etag), tokBytes(r.Pick([]string{"", "", "STANDARD_IA", "GLACIER"})), swap}, "/"))
	}
	return out
}

// > 1000 entries with the storage's full page size: the page boundary falls inside a key's version stack
// (between a current delete marker and the data version under it, between counted noncurrent versions,
// between two keys), resp. inside the object / upload listing
func c25GenBig(r *Rng, now int64) string {
	old := now - 9*c25Day
	var rules, objs, vers, upls []string
	switch r.Intn(3) {
	case 0: // versions: filler key "a" (noncurrent versions, nothing due for prefix b), then the stack of "b" across the boundary
		rules = []string{"1/P/S62/_/N/N/N/N/1/_/1/" + r.Pick([]string{"N", "1", "2"}) + "/1:N:" + tokBytes("GLACIER") + "/N"}
		fill := 996 + r.Intn(6)
		for i := 0; i < fill; i++ {
			vers = append(vers, strings.Join([]string{tokBytes("a"), tokBytes("f" + strconv.Itoa(i)), c06Bool(i == 0), "0",
				strconv.FormatInt(old-int64(i), 10), "1", "_", tokBytes("e1"), "-", "N"}, "/"))
		}
		top := r.Intn(3) // 0: current delete marker over data versions, 1: all delete markers, 2: data only
		for i := 0; i < 2+r.Intn(5); i++ {
			dm := (top == 0 && i == 0) || top == 1
			vers = append(vers, strings.Join([]string{tokBytes("b"), tokBytes("v" + strconv.Itoa(i)), c06Bool(i == 0), c06Bool(dm),
				strconv.FormatInt(old-int64(i*c25Day), 10), "1", "_", tokBytes("e1"), "-", "N"}, "/"))
		}
		vers = append(vers, c25GenStack(r, now, "c", 1+r.Intn(3))...)
	case 1: // objects: 1003 current objects, every third due
		rules = []string{"1/P/S6f/_/N/N/2/N/N/4:N:" + tokBytes("GLACIER") + "/N/N/_/N"}
		for i := 0; i < 1000+r.Intn(6); i++ {
			lm := now - 3600
			if i%3 == 0 || i >= 998 {
				lm = old
			}
			objs = append(objs, strings.Join([]string{tokBytes(fmt.Sprintf("o%04d", i)), "1", "_", strconv.FormatInt(lm, 10), tokBytes("e1"), "-", "N"}, "/"))
		}
	default: // uploads
		rules = []string{"1/P/S75/_/N/N/N/N/N/_/N/N/_/1"}
		for i := 0; i < 1000+r.Intn(6); i++ {
			in := now - 3600
			if i%4 == 0 || i >= 997 {
				in = old
			}
			upls = append(upls, strings.Join([]string{tokBytes(fmt.Sprintf("u%02d", i%7)), tokBytes(fmt.Sprintf("id%04d", i)), strconv.FormatInt(in, 10)}, "/"))
		}
	}
	return strings.Join([]string{strconv.FormatInt(now, 10), "0", c25J(rules), c25J(objs), c25J(vers), c25J(upls)}, " ")
}

func (c25) Gen(r *Rng, tier string, n int) []string {
	cases := make([]string, 0, n)
	big := 3
	if tier == "thorough" {
		big = 25
	}
	for len(cases) < n {
		now := int64(c25Base) + int64(r.Intn(4))*c25Day + []int64{0, 1, 43200, 86399, int64(r.Intn(c25Day))}[r.Intn(5)]
		if big > 0 && len(cases)%97 == 5 {
			big--
			cases = append(cases, c25GenBig(r, now))
			continue
		}
		nr := 1 + r.Intn(4)
		rules := make([]string, nr)
		for i := range rules {
			rules[i] = c25GenRule(r, now)
		}
		// page size of the storage: mostly tiny, so that every listing of the sweep spans several pages and
		// the boundaries fall everywhere inside the stacks; 0 = the reconciler's own MaxKeys
		pg := []int{0, 1, 1, 2, 2, 3, 3, 4, 6}[r.Intn(9)]
		var objs []string
		seen := map[string]bool{}
		for i := r.Intn(7); i > 0; i-- {
			k := r.Pick(c25MoreKeys)
			if seen[k] {
				continue
			}
			seen[k] = true
			etag := r.Pick([]string{"e1", "e2"})
			client := "N"
			switch k := r.Intn(100); {
			case k < 14: // concurrent PUT, same or different bytes
				e2 := etag
				if r.Chance(50) {
					e2 = "e9"
				}
				client = tokBytes(e2) + ":" + strconv.FormatInt(now-int64(r.Intn(3600)), 10)
			case k < 19: // concurrent DELETE
				client = "X"
			}
			objs = append(objs, strings.Join([]string{tokBytes(k), strconv.Itoa(r.Intn(11)), c25ShowTags(c25GenTags(r, 40)),
				strconv.FormatInt(c25Past(r, now), 10), tokBytes(etag), tokBytes(r.Pick([]string{"", "", "STANDARD", "STANDARD_IA", "GLACIER"})), client}, "/"))
		}
		var vers []string
		vseen := map[string]bool{}
		for kk := r.Intn(4); kk > 0; kk-- {
			k := r.Pick(c25MoreKeys)
			if vseen[k] {
				continue
			}
			vseen[k] = true
			vers = append(vers, c25GenStack(r, now, k, 1+r.Intn(6))...)
		}
		var upls []string
		useen := map[string]bool{}
		for i := r.Intn(5); i > 0; i-- {
			u := strings.Join([]string{tokBytes(r.Pick(c25Keys)), tokBytes("u" + strconv.Itoa(r.Intn(4)))}, "/")
			if useen[u] {
				continue
			}
			useen[u] = true
			upls = append(upls, u+"/"+strconv.FormatInt(c25Past(r, now), 10))
		}
		cases = append(cases, strings.Join([]string{strconv.FormatInt(now, 10), strconv.Itoa(pg), c25J(rules), c25J(objs), c25J(vers), c25J(upls)}, " "))
	}
	return cases
}

// ---- independent oracle: every performed action is justified by the S3 rules ----
func c25S3RoundUp(t int64) int64 { return ((t + c25Day - 1) / c25Day) * c25Day } // t >= 0

// the rule applies to (key, size, tags): prefix, every tag, size bounds — straight from the S3 filter definition
func c25Applies(r c25Rule, key string, size int64, tags map[string]string) bool {
	if r.prefix != nil && !strings.HasPrefix(key, *r.prefix) {
		return false
	}
	if r.shape == "P" {
		return true
	}
	ts := r.tags
	if r.shape == "F" && len(ts) > 1 {
		ts = ts[:1]
	}
	for _, t := range ts {
		if v, ok := tags[t.k]; !ok || v != t.v {
			return false
		}
	}
	if r.gt != nil && !(size > *r.gt) {
		return false
	}
	if r.lt != nil && !(size < *r.lt) {
		return false
	}
	return true
}

func c25ExpirationDue(rules []c25Rule, now int64, key string, size int64, tags map[string]string, created int64, strictLater bool) bool {
	for _, r := range rules {
		if !r.enabled || !c25Applies(r, key, size, tags) {
			continue
		}
		if r.expDate != nil && now >= *r.expDate {
			return true
		}
		if r.expDate == nil && r.expDays != nil {
			due := c25S3RoundUp(created + *r.expDays*c25Day)
			if strictLater {
				due = ((created+*r.expDays*c25Day)/c25Day + 1) * c25Day
			}
			if now >= due {
				return true
			}
		}
	}
	return false
}

var c25Quiet sync.Once
var c25Hung atomic.Bool

func (c25) Run(in string, scratch string) Result {
	// the reconciler logs every action at Info level; thousands of sweeps would spend their time there
	c25Quiet.Do(func() { slog.SetDefault(slog.New(slog.NewTextHandler(io.Discard, nil))) })
	f := strings.Split(in, " ")
	now := c25I(f[0])
	pg, _ := strconv.Atoi(f[1])
	var rules []c25Rule
	cfg := &storage.BucketLifecycleConfiguration{}
	for _, t := range c25Items(f[2]) {
		r := c25ParseRule(t)
		rules = append(rules, r)
		cfg.Rules = append(cfg.Rules, c25Build(r))
	}
	d := &c25Double{DelegatingStorage: delegator.Wrap(nil), config: cfg, page: pg}
	orig := map[string]c25Obj{}
	for _, t := range c25Items(f[3]) {
		o := c25ParseObj(t)
		orig[o.key] = *o
		d.objs = append(d.objs, o)
	}
	sort.SliceStable(d.objs, func(i, j int) bool { return d.objs[i].key < d.objs[j].key })
	var vers []c25Ver
	for _, t := range c25Items(f[4]) {
		v := c25ParseVer(t)
		vers = append(vers, v)
		c := v
		d.vers = append(d.vers, &c)
	}
	var upls []c25Upl
	for _, t := range c25Items(f[5]) {
		upls = append(upls, c25ParseUpl(t))
	}
	d.upls = append([]c25Upl{}, upls...)
	sort.SliceStable(d.upls, func(i, j int) bool {
		if d.upls[i].key != d.upls[j].key {
			return d.upls[i].key < d.upls[j].key
		}
		return d.upls[i].id < d.upls[j].id
	})

	mw := lifecyclereconciler.NewStorageMiddleware(d, lifecyclereconciler.WithNow(func() time.Time { return c25Time(now) }), lifecyclereconciler.WithReconcileInterval(0))
	// a sweep that does not end (a paging loop that never advances its marker) is stopped through the
	// reconciler's own cancellation flag and reported
	var cancel atomic.Bool
	finished := make(chan struct{})
	go func() {
		defer close(finished)
		mw.(interface {
			ReconcileOnce(context.Context, *atomic.Bool)
		}).ReconcileOnce(context.Background(), &cancel)
	}()
	hung := false
	limit := 20 * time.Second
	if c25Hung.Load() { // once a sweep hung in this process, do not wait that long again
		limit = 2 * time.Second
	}
	select {
	case <-finished:
	case <-time.After(limit):
		hung = true
		c25Hung.Store(true)
		cancel.Store(true)
		<-finished
	}
	if hung {
		return Result{Out: "TIMEOUT", Oracle: "FAIL:the sweep does not terminate", Tags: []string{"timeout"}}
	}

	acts := append([]string{}, d.actions...)
	sort.Strings(acts)
	out := "-"
	if len(acts) > 0 {
		out = strings.Join(acts, " ")
	}
	tags := []string{}
	kinds := map[string]bool{}
	oracle := "OK"
	fail := func(format string, a ...any) {
		if oracle == "OK" {
			oracle = "FAIL:" + fmt.Sprintf(format, a...)
		}
	}
	// the whole version stack of a key, as given (never a page of it)
	stack := func(key string) []c25Ver {
		var same []c25Ver
		for _, v := range vers {
			if v.key == key {
				same = append(same, v)
			}
		}
		return same
	}
	// noncurrent-since and number of newer noncurrent versions of v within its whole stack (lenient towards ties)
	recency := func(v c25Ver) (since int64, have bool, newer int64) {
		for _, w := range stack(v.key) {
			if w.id == v.id || w.lm < v.lm {
				continue
			}
			if !have || w.lm < since {
				since, have = w.lm, true
			}
			if !w.latest && !w.dm {
				newer++
			}
		}
		return
	}
	for _, a := range acts {
		p := strings.Split(a, ":")
		kinds[p[0]] = true
		switch p[0] {
		case "D", "T":
			key := untokBytes(p[1])
			o, ok := orig[key]
			if !ok {
				fail("%s on unknown object %q", p[0], key)
				continue
			}
			okFlag := p[len(p)-1] == "1"
			guard := p[len(p)-2]
			// the listing the call was derived from showed either the original object or, after a failed
			// guarded delete earlier in the same sweep, the concurrently written one
			if guard != tokBytes(o.etag) && !(o.swap && p[0] == "T" && guard == tokBytes(o.swapEtag)) {
				fail("%s of %q not guarded by the listed ETag (guard %s)", p[0], key, guard)
			}
			if !okFlag {
				kinds["PF"] = true
				continue // nothing happened to the data
			}
			if o.gone {
				fail("%s of %q succeeded although the key had been deleted by another client", p[0], key)
				continue
			}
			cur := o // the object the call actually acted on
			if o.swap {
				cur.lm, cur.etag = o.swapLm, o.swapEtag
			}
			tm := c25TagMap(cur.tags)
			if p[0] == "D" {
				if !c25ExpirationDue(rules, now, key, cur.size, tm, cur.lm, false) {
					fail("object %q (last modified %d, size %d) deleted at %d but no enabled matching rule makes it due", key, cur.lm, cur.size, now)
				}
			} else {
				target := untokBytes(p[2])
				just := false
				for _, r := range rules {
					if !r.enabled || !c25Applies(r, key, cur.size, tm) {
						continue
					}
					for _, t := range r.trans {
						if t.class != target {
							continue
						}
						if t.date != nil && now >= *t.date {
							just = true
						}
						if t.date == nil && t.days != nil && now >= c25S3RoundUp(cur.lm+*t.days*c25Day) {
							just = true
						}
					}
				}
				if !just {
					fail("object %q (last modified %d) transitioned to %s at %d but no enabled matching rule makes that due", key, cur.lm, target, now)
				}
				// preference is decided on the sweep's own listing; an object that was replaced concurrently
				// during the sweep (failed guarded delete, then transition of the new object) is left to the next sweep
				if !o.swap && c25ExpirationDue(rules, now, key, cur.size, tm, cur.lm, true) {
					fail("object %q transitioned although it is due for expiration", key)
				}
			}
		case "V", "W":
			key, id := untokBytes(p[1]), untokBytes(p[2])
			var v *c25Ver
			same := stack(key)
			for i := range same {
				if same[i].id == id {
					v = &same[i]
				}
			}
			if v == nil {
				fail("%s on unknown version %q %q", p[0], key, id)
				continue
			}
			if p[0] == "V" && p[3] == "412" {
				kinds["PF"] = true
				continue // refused by a guard: nothing happened
			}
			if p[0] == "V" && p[3] == "1" {
				fail("version %q %q: the generation removed is not the one that was listed (the id was reused by a %d-second-old overwrite)", key, id, now-v.swapLm)
				continue
			}
			if p[0] == "W" {
				if p[5] != "1" {
					kinds["PF"] = true
					continue
				}
				if p[4] != tokBytes(v.etag) {
					fail("transition of version %q %q not guarded by the listed ETag", key, id)
				}
				if v.swap {
					fail("version %q %q: the generation transitioned is not the one that was listed (identical re-upload %d s ago)", key, id, now-v.swapLm)
					continue
				}
			}
			if v.dm {
				if p[0] == "W" {
					fail("delete marker %q %q transitioned", key, id)
					continue
				}
				only := true
				for _, w := range same {
					if !w.dm {
						only = false
					}
				}
				just := false
				for _, r := range rules {
					if r.enabled && r.expDM != nil && *r.expDM && c25Applies(r, key, v.size, map[string]string{}) {
						just = true
					}
				}
				if !v.latest || !only || !just {
					fail("delete marker %q %q removed (latest=%v, the key's whole stack holds only delete markers=%v, rule=%v)", key, id, v.latest, only, just)
				}
				continue
			}
			if v.latest {
				fail("current version %q %q touched by a noncurrent-version action", key, id)
				continue
			}
			since, have, newer := recency(*v)
			if !have {
				fail("version %q %q has no successor but was treated as noncurrent", key, id)
				continue
			}
			just := false
			for _, r := range rules {
				if !r.enabled || !c25Applies(r, key, v.size, c25TagMap(v.tags)) {
					continue
				}
				if p[0] == "V" {
					if r.ncDays == nil || now < c25S3RoundUp(since+*r.ncDays*c25Day) || (r.ncNewer != nil && newer < *r.ncNewer) {
						continue
					}
					just = true
				} else {
					for _, t := range r.nct {
						if t.class == untokBytes(p[3]) && t.days != nil && now >= c25S3RoundUp(since+*t.days*c25Day) && (t.newer == nil || newer >= *t.newer) {
							just = true
						}
					}
				}
			}
			if !just {
				fail("noncurrent version %q %q (noncurrent since %d, %d newer noncurrent in the whole stack) %s at %d without a due matching rule", key, id, since, newer, map[string]string{"V": "expired", "W": "transitioned to " + untokBytes(p[3])}[p[0]], now)
			}
		case "A":
			key, id := untokBytes(p[1]), untokBytes(p[2])
			just := false
			for _, u := range upls {
				if u.key != key || u.id != id {
					continue
				}
				for _, r := range rules {
					if r.enabled && r.abortDs != nil && (r.prefix == nil || strings.HasPrefix(key, *r.prefix)) && now >= c25S3RoundUp(u.init+*r.abortDs*c25Day) {
						just = true
					}
				}
			}
			if !just {
				fail("upload %q %q aborted at %d without a due matching rule", key, id, now)
			}
		default:
			fail("unexpected call %s", a)
		}
	}
	for _, k := range []string{"D", "T", "V", "W", "A", "PF"} {
		if kinds[k] {
			tags = append(tags, "act-"+k)
		}
	}
	if len(acts) == 0 {
		tags = append(tags, "no-action")
	}
	if d.lists > 6 {
		tags = append(tags, "multi-page")
	}
	if len(vers)+len(orig)+len(upls) > 1000 {
		tags = append(tags, "big")
	}
	swapSame, swapAny, vswap, gone := false, false, false, false
	for _, o := range orig {
		if o.swap {
			swapAny = true
			if o.swapEtag == o.etag {
				swapSame = true
			}
		}
		gone = gone || o.gone
	}
	for _, v := range vers {
		if v.swap {
			vswap = true
			if v.swapEtag == v.etag {
				swapSame = true
			}
		}
	}
	if swapAny || vswap {
		tags = append(tags, "replaced")
	}
	if gone {
		tags = append(tags, "client-delete")
	}
	if swapSame {
		tags = append(tags, "kf:C25-etag-guard-identical-reupload")
	}
	if vswap {
		tags = append(tags, "kf:C25-version-id-delete-unguarded")
	}
	return Result{Out: out, Oracle: oracle, Tags: tags}
}
