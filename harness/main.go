//go:build verif

// Command verifharness runs the implementation side of the correspondence checks.
// It is injected into the /repo module at build time with `go build -overlay` (nothing is
// committed to /repo). For a property it generates case lines (same line protocol as the
// Gallina model's run_line), runs every case on the real code, evaluates the property's direct
// oracle on the implementation's outputs and writes one TSV record per case:
//
//	input-line \t impl-output-line \t oracle (OK | - | FAIL:<msg>) \t comma-separated tags
package main

import (
	"bufio"
	"encoding/hex"
	"flag"
	"fmt"
	"os"
	"runtime"
	"sort"
	"strings"
	"sync"
)

// Result of running one case on the implementation.
type Result struct {
	Out    string   // canonical output line, compared with the model's
	Oracle string   // "OK", "-" (no direct oracle for this case) or "FAIL:<why>"
	Tags   []string // classification for distribution / non-triviality / known-finding predicates
}

// Property is the implementation-side driver of one property.
type Property interface {
	// Gen produces n case lines from the PRNG (tier is "quick" or "thorough").
	Gen(rng *Rng, tier string, n int) []string
	// Run executes one case line against the real code. scratch is a private empty directory.
	Run(in string, scratch string) Result
	// Parallel reports whether Run may be called concurrently.
	Parallel() bool
}

var registry = map[string]Property{}

func register(name string, p Property) { registry[name] = p }

// ---- PRNG: splitmix64, every random choice derives from one state ----
type Rng struct{ s uint64 }

// the seed is scrambled through one splitmix64 output so that neighbouring seeds give unrelated streams
// (seed 1 keeps its historical stream start so committed corpora/evidence stay comparable)
func NewRng(seed uint64) *Rng {
	if seed == 1 {
		return &Rng{s: seed*0x9E3779B97F4A7C15 + 0x1234567}
	}
	r := &Rng{s: seed ^ 0xD1B54A32D192ED03}
	return &Rng{s: r.Next()}
}
func (r *Rng) Next() uint64 {
	r.s += 0x9E3779B97F4A7C15
	z := r.s
	z = (z ^ (z >> 30)) * 0xBF58476D1CE4E5B9
	z = (z ^ (z >> 27)) * 0x94D049BB133111EB
	return z ^ (z >> 31)
}
func (r *Rng) Intn(n int) int {
	if n <= 0 {
		return 0
	}
	return int(r.Next() % uint64(n))
}
func (r *Rng) Bool() bool        { return r.Next()&1 == 1 }
func (r *Rng) Chance(p int) bool { return r.Intn(100) < p } // p percent
func (r *Rng) Pick(xs []string) string {
	return xs[r.Intn(len(xs))]
}
func (r *Rng) Bytes(n int) []byte {
	b := make([]byte, n)
	for i := range b {
		b[i] = byte(r.Next())
	}
	return b
}
func (r *Rng) Fork() *Rng { return &Rng{s: r.Next()} }

// ---- line protocol helpers (mirror coq/Base/Codec.v) ----
func tokBytes(s string) string {
	if s == "" {
		return "-"
	}
	return hex.EncodeToString([]byte(s))
}
func untokBytes(t string) string {
	if t == "-" {
		return ""
	}
	b, err := hex.DecodeString(t)
	if err != nil {
		panic("bad hex token " + t)
	}
	return string(b)
}
func tokList(l []string) string {
	if len(l) == 0 {
		return "_"
	}
	out := make([]string, len(l))
	for i, s := range l {
		out[i] = tokBytes(s)
	}
	return strings.Join(out, ",")
}
func untokList(t string) []string {
	if t == "_" {
		return nil
	}
	parts := strings.Split(t, ",")
	out := make([]string, len(parts))
	for i, p := range parts {
		out[i] = untokBytes(p)
	}
	return out
}
func tokOpt(s *string) string {
	if s == nil {
		return "N"
	}
	return "S" + tokBytes(*s)
}

func main() {
	prop := flag.String("prop", "", "property driver name")
	seed := flag.Uint64("seed", 1, "PRNG seed")
	n := flag.Int("n", 100, "number of generated cases")
	tier := flag.String("tier", "quick", "quick|thorough")
	inputs := flag.String("inputs", "", "file with case lines to run first (corpus / replay)")
	onlyInputs := flag.Bool("only-inputs", false, "run only the cases of -inputs")
	out := flag.String("out", "", "output TSV")
	scratch := flag.String("scratch", "", "scratch directory (created, caller removes)")
	list := flag.Bool("list", false, "list property drivers")
	flag.Parse()
	if *list {
		names := []string{}
		for k := range registry {
			names = append(names, k)
		}
		sort.Strings(names)
		fmt.Println(strings.Join(names, "\n"))
		return
	}
	p, ok := registry[*prop]
	if !ok {
		fmt.Fprintln(os.Stderr, "unknown property driver", *prop)
		os.Exit(2)
	}
	var cases []string
	if *inputs != "" {
		f, err := os.Open(*inputs)
		if err != nil {
			fmt.Fprintln(os.Stderr, err)
			os.Exit(2)
		}
		sc := bufio.NewScanner(f)
		sc.Buffer(make([]byte, 1<<20), 1<<28)
		for sc.Scan() {
			l := strings.TrimRight(sc.Text(), "\r\n")
			if l != "" && !strings.HasPrefix(l, "#") {
				cases = append(cases, l)
			}
		}
		f.Close()
	}
	if !*onlyInputs {
		cases = append(cases, p.Gen(NewRng(*seed), *tier, *n)...)
	}
	results := make([]Result, len(cases))
	workers := 1
	if p.Parallel() {
		workers = runtime.NumCPU()
	}
	if err := os.MkdirAll(*scratch, 0o755); err != nil {
		fmt.Fprintln(os.Stderr, err)
		os.Exit(2)
	}
	var wg sync.WaitGroup
	idx := make(chan int)
	for w := 0; w < workers; w++ {
		wg.Add(1)
		go func(w int) {
			defer wg.Done()
			for i := range idx {
				dir := fmt.Sprintf("%s/w%d-c%d", *scratch, w, i)
				os.MkdirAll(dir, 0o755)
				results[i] = runCase(p, cases[i], dir)
				os.RemoveAll(dir)
			}
		}(w)
	}
	for i := range cases {
		idx <- i
	}
	close(idx)
	wg.Wait()
	f, err := os.Create(*out)
	if err != nil {
		fmt.Fprintln(os.Stderr, err)
		os.Exit(2)
	}
	bw := bufio.NewWriterSize(f, 1<<20)
	for i, c := range cases {
		r := results[i]
		if r.Oracle == "" {
			r.Oracle = "-"
		}
		fmt.Fprintf(bw, "%s\t%s\t%s\t%s\n", c, clean(r.Out), clean(r.Oracle), strings.Join(r.Tags, ","))
	}
	bw.Flush()
	f.Close()
}

func clean(s string) string {
	s = strings.ReplaceAll(s, "\t", " ")
	s = strings.ReplaceAll(s, "\n", " ")
	return s
}

// a panic in the implementation is an observable outcome, not a harness crash
func runCase(p Property, in string, dir string) (res Result) {
	defer func() {
		if e := recover(); e != nil {
			buf := make([]byte, 2048)
			buf = buf[:runtime.Stack(buf, false)]
			res = Result{Out: "PANIC", Oracle: "FAIL:panic: " + fmt.Sprint(e) + " " + string(buf), Tags: []string{"panic"}}
		}
	}()
	return p.Run(in, dir)
}
