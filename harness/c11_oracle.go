//go:build verif

package main

// Direct oracle of C11: the S3 write rules for content type / system metadata / user metadata /
// tags / storage class, re-implemented independently of pithos and of the Gallina model, applied to
// the same history; every observation of the implementation is compared with the expected record.

import (
	"net/http"
	"sort"
	"strconv"
	"strings"
	"unicode/utf8"

	"github.com/jdillenkofer/pithos/internal/http/server"
	"github.com/jdillenkofer/pithos/internal/storage"
)

var c11ValidClasses = map[string]bool{"STANDARD": true, "REDUCED_REDUNDANCY": true, "STANDARD_IA": true, "ONEZONE_IA": true,
	"INTELLIGENT_TIERING": true, "GLACIER_IR": true, "GLACIER": true, "DEEP_ARCHIVE": true, "EXPRESS_ONEZONE": true, "OUTPOSTS": true}

// first header of that name (case-insensitive); nil when absent or empty
func c11SpecGet(hs []c11Hdr, name string) *string {
	for _, h := range hs {
		if strings.EqualFold(h.name, name) {
			if h.value == "" {
				return nil
			}
			v := h.value
			return &v
		}
	}
	return nil
}

// S3: user metadata keys are lower-cased, repeated headers combined with ","; total size <= 2 KB
func c11SpecUserMeta(hs []c11Hdr) (map[string]string, bool) {
	const prefix = "x-amz-meta-"
	m := map[string]string{}
	var order []string
	vals := map[string][]string{}
	for _, h := range hs {
		ln := strings.ToLower(h.name)
		if !strings.HasPrefix(ln, prefix) || len(ln) == len(prefix) {
			continue
		}
		k := ln[len(prefix):]
		if _, seen := vals[k]; !seen {
			order = append(order, k)
		}
		vals[k] = append(vals[k], h.value)
	}
	size := 0
	for _, k := range order {
		m[k] = strings.Join(vals[k], ",")
		size += len(k) + len(m[k])
	}
	return m, size <= 2048
}

func c11SpecUnescape(s string) (string, bool) {
	var out []byte
	for i := 0; i < len(s); i++ {
		switch s[i] {
		case '+':
			out = append(out, ' ')
		case '%':
			if i+2 >= len(s) {
				return "", false
			}
			v, err := strconv.ParseUint(s[i+1:i+3], 16, 8)
			if err != nil || strings.ContainsAny(s[i+1:i+3], "+-") {
				return "", false
			}
			out = append(out, byte(v))
			i += 2
		default:
			out = append(out, s[i])
		}
	}
	return string(out), true
}

// x-amz-tagging: URL-query encoded tag set; duplicate keys rejected; <= 10 tags, key 1..128, value <= 256 characters
func c11SpecTagging(v string) (map[string]string, bool) {
	tags := map[string]string{}
	ok := true
	for _, seg := range strings.Split(v, "&") {
		if seg == "" {
			continue
		}
		if strings.Contains(seg, ";") {
			ok = false
			continue
		}
		ks, vs := seg, ""
		if i := strings.IndexByte(seg, '='); i >= 0 {
			ks, vs = seg[:i], seg[i+1:]
		}
		k, ok1 := c11SpecUnescape(ks)
		val, ok2 := c11SpecUnescape(vs)
		if !ok1 || !ok2 {
			ok = false
			continue
		}
		if _, dup := tags[k]; dup {
			ok = false
		}
		tags[k] = val
	}
	if !ok {
		return nil, false
	}
	return tags, c11SpecTagsValid(tags)
}
func c11SpecTagsValid(tags map[string]string) bool {
	if len(tags) > 10 {
		return false
	}
	for k, v := range tags {
		if k == "" || c11Chars(k) > 128 || c11Chars(v) > 256 {
			return false
		}
	}
	return true
}
func c11Chars(s string) int {
	n := 0
	for len(s) > 0 {
		_, sz := utf8.DecodeRuneInString(s)
		s = s[sz:]
		n++
	}
	return n
}

type c11Exp struct {
	rec *c11Rec
	ord int // version ordinal (bucket 1), -1 in the plain bucket
}
type c11Oracle struct {
	objs    map[[2]int][]c11Exp // (b,k) -> versions, newest last
	pending map[int]struct {
		b, k int
		rec  *c11Rec
	}
	nextOrd int
	fails   []string
	checked int
	desync  bool
}

func c11NewOracle() *c11Oracle {
	return &c11Oracle{objs: map[[2]int][]c11Exp{}, pending: map[int]struct {
		b, k int
		rec  *c11Rec
	}{}}
}
func (o *c11Oracle) failf(s string) {
	if len(o.fails) < 4 {
		o.fails = append(o.fails, s)
	}
}
func (o *c11Oracle) fail() {}

func (o *c11Oracle) status(what string, wantOK bool, st string) bool {
	if o.desync {
		return false
	}
	o.checked++
	if wantOK != (st == "ok") {
		o.failf(what + ": expected " + map[bool]string{true: "success", false: "rejection"}[wantOK] + ", got " + st)
		o.desync = true
		return false
	}
	return wantOK
}

// record a request's headers describe (PutObject / CreateMultipartUpload); valid=false => must be rejected
func c11SpecRecord(hs []c11Hdr) (*c11Rec, bool) {
	r := &c11Rec{class: "STANDARD"}
	r.ct = c11SpecGet(hs, "Content-Type")
	for i, n := range c11SysHeaders {
		r.sys[i] = c11SpecGet(hs, n)
	}
	um, ok := c11SpecUserMeta(hs)
	if !ok {
		return nil, false
	}
	r.um = um
	r.tags = map[string]string{}
	if tv := c11SpecGet(hs, "x-amz-tagging"); tv != nil {
		tags, ok := c11SpecTagging(*tv)
		if !ok {
			return nil, false
		}
		r.tags = tags
	}
	if c := c11SpecGet(hs, "x-amz-storage-class"); c != nil {
		if !c11ValidClasses[*c] {
			return nil, false
		}
		r.class = *c
	}
	return r, true
}

func (o *c11Oracle) install(b, k int, r *c11Rec) {
	key := [2]int{b, k}
	if b == 0 {
		o.objs[key] = []c11Exp{{rec: r, ord: -1}}
		return
	}
	o.objs[key] = append(o.objs[key], c11Exp{rec: r, ord: o.nextOrd})
	o.nextOrd++
}
func (o *c11Oracle) lookup(b, k int, v string) *c11Exp {
	vs := o.objs[[2]int{b, k}]
	if len(vs) == 0 {
		return nil
	}
	if v == "L" {
		return &vs[len(vs)-1]
	}
	n, err := strconv.Atoi(v)
	if err != nil {
		return nil
	}
	for i := range vs {
		if vs[i].ord == n {
			return &vs[i]
		}
	}
	return nil
}

func (o *c11Oracle) put(b, k int, hs []c11Hdr, st string) {
	r, valid := c11SpecRecord(hs)
	if o.status("PutObject", valid, st) {
		o.install(b, k, r)
	}
}
func (o *c11Oracle) create(ord, b, k int, hs []c11Hdr, st string) {
	r, valid := c11SpecRecord(hs)
	if o.status("CreateMultipartUpload", valid, st) {
		o.pending[ord] = struct {
			b, k int
			rec  *c11Rec
		}{b, k, r}
	}
}
func (o *c11Oracle) complete(u int, st string) {
	p, ok := o.pending[u]
	if o.status("CompleteMultipartUpload", ok, st) {
		delete(o.pending, u)
		o.install(p.b, p.k, p.rec)
	}
}

func c11CopyRec(r *c11Rec) *c11Rec {
	n := *r
	n.um = map[string]string{}
	for k, v := range r.um {
		n.um[k] = v
	}
	n.tags = map[string]string{}
	for k, v := range r.tags {
		n.tags[k] = v
	}
	return &n
}

func c11Directive(hs []c11Hdr, name string) (replace bool, valid bool) {
	d := c11SpecGet(hs, name)
	if d == nil {
		return false, true
	}
	switch strings.ToUpper(*d) {
	case "COPY":
		return false, true
	case "REPLACE":
		return true, true
	}
	return false, false
}

func (o *c11Oracle) copy(sb, sk int, sv string, db, dk int, hs []c11Hdr, st string) {
	mrep, ok1 := c11Directive(hs, "x-amz-metadata-directive")
	trep, ok2 := c11Directive(hs, "x-amz-tagging-directive")
	req, reqValid := c11SpecRecord(hs) // the values the request itself supplies
	src := o.lookup(sb, sk, sv)
	valid := ok1 && ok2 && src != nil
	classHdr := c11SpecGet(hs, "x-amz-storage-class")
	if classHdr != nil && !c11ValidClasses[*classHdr] {
		valid = false
	}
	var reqTags map[string]string
	if trep {
		tv := ""
		if p := c11SpecGet(hs, "x-amz-tagging"); p != nil {
			tv = *p
		}
		t, ok := c11SpecTagging(tv)
		if !ok {
			valid = false
		}
		reqTags = t
	}
	um, umOK := c11SpecUserMeta(hs)
	if mrep && !umOK {
		valid = false
	}
	// a copy of an object onto itself must change something (metadata REPLACE or a storage class)
	if !mrep && classHdr == nil && sb == db && sk == dk {
		valid = false
	}
	_ = reqValid
	if valid && !mrep && !umOK {
		// over-long x-amz-meta-* headers on a COPY-directive request: S3 ignores them, rejecting is
		// also defensible; not judged
		if st != "ok" {
			o.desync = true
			return
		}
	}
	if !o.status("CopyObject", valid, st) {
		return
	}
	n := &c11Rec{class: "STANDARD", um: map[string]string{}, tags: map[string]string{}}
	if mrep {
		n.ct = c11SpecGet(hs, "Content-Type")
		for i, h := range c11SysHeaders {
			n.sys[i] = c11SpecGet(hs, h)
		}
		n.um = um
	} else {
		s := c11CopyRec(src.rec)
		n.ct, n.sys, n.um = s.ct, s.sys, s.um
		// the website redirect location is never copied; it is taken from the request only
		n.sys[5] = c11SpecGet(hs, c11SysHeaders[5])
	}
	if trep {
		n.tags = reqTags
	} else {
		n.tags = c11CopyRec(src.rec).tags
	}
	if classHdr != nil {
		n.class = *classHdr
	}
	_ = req
	o.install(db, dk, n)
}

func (o *c11Oracle) appendOp(b, k int, st string) {
	if !o.status("AppendObject", true, st) {
		return
	}
	cur := o.lookup(b, k, "L")
	if cur == nil {
		o.install(b, k, &c11Rec{class: "STANDARD", um: map[string]string{}, tags: map[string]string{}})
		return
	}
	if b == 1 {
		o.install(b, k, c11CopyRec(cur.rec)) // new version, same fields
	}
}
func (o *c11Oracle) transition(b, k int, v string, cls string, st string) {
	x := o.lookup(b, k, v)
	if o.status("TransitionObjectStorageClass", x != nil && c11ValidClasses[cls], st) {
		x.rec.class = cls
	}
}
func (o *c11Oracle) putTagging(b, k int, v string, ts []c11Hdr, st string) {
	x := o.lookup(b, k, v)
	tags := map[string]string{}
	valid := x != nil
	for _, t := range ts {
		if _, dup := tags[t.name]; dup {
			valid = false
		}
		tags[t.name] = t.value
	}
	if !c11SpecTagsValid(tags) {
		valid = false
	}
	if o.status("PutObjectTagging", valid, st) {
		x.rec.tags = tags
	}
}
func (o *c11Oracle) deleteTagging(b, k int, v string, st string) {
	x := o.lookup(b, k, v)
	if o.status("DeleteObjectTagging", x != nil, st) {
		x.rec.tags = map[string]string{}
	}
}
func (o *c11Oracle) observe(b, k int, v string, got *c11Rec) {
	if o.desync {
		return
	}
	o.checked++
	x := o.lookup(b, k, v)
	where := "(" + strconv.Itoa(b) + "," + strconv.Itoa(k) + "," + v + ")"
	if x == nil {
		o.failf("object " + where + " is visible but should not exist")
		return
	}
	if d := c11Diff(x.rec, got); d != "" {
		o.failf("object " + where + ": " + d)
	}
}
func (o *c11Oracle) observeErr(b, k int, v string, errc string) {
	if o.desync {
		return
	}
	o.checked++
	if x := o.lookup(b, k, v); x != nil {
		o.failf("object (" + strconv.Itoa(b) + "," + strconv.Itoa(k) + "," + v + ") should exist, got " + errc)
	}
}

func c11Diff(want, got *c11Rec) string {
	names := append([]string{"content-type"}, c11SysHeaders...)
	w := append([]*string{want.ct}, want.sys[:]...)
	g := append([]*string{got.ct}, got.sys[:]...)
	var d []string
	for i := range names {
		if tokOpt(w[i]) != tokOpt(g[i]) {
			d = append(d, names[i]+" want "+c11Show(w[i])+" got "+c11Show(g[i]))
		}
	}
	if c11TokMap(want.um) != c11TokMap(got.um) {
		d = append(d, "user metadata want "+c11ShowMap(want.um)+" got "+c11ShowMap(got.um))
	}
	if c11TokMap(want.tags) != c11TokMap(got.tags) {
		d = append(d, "tags want "+c11ShowMap(want.tags)+" got "+c11ShowMap(got.tags))
	}
	if want.class != got.class {
		d = append(d, "storage class want "+want.class+" got "+got.class)
	}
	return strings.Join(d, ", ")
}
func c11Show(p *string) string {
	if p == nil {
		return "<absent>"
	}
	return strconv.Quote(*p)
}
func c11ShowMap(m map[string]string) string {
	ks := make([]string, 0, len(m))
	for k := range m {
		ks = append(ks, k)
	}
	sort.Strings(ks)
	var out []string
	for _, k := range ks {
		out = append(out, strconv.Quote(k)+"="+strconv.Quote(m[k]))
	}
	return "{" + strings.Join(out, ",") + "}"
}

// ---------- pure entry points ----------
func c11RunUserMeta(toks []string) Result {
	if len(toks) != 2 {
		return Result{Out: "PARSE-ERROR", Oracle: "-", Tags: []string{"invalid"}}
	}
	hs, ok := c11ParseHdrs(toks[1])
	if !ok {
		return Result{Out: "PARSE-ERROR", Oracle: "-", Tags: []string{"invalid"}}
	}
	h := http.Header{}
	for _, x := range hs {
		h.Add(x.name, x.value)
	}
	md, err := server.VerifC11ParseObjectMetadataHeaders(h)
	um, fits := c11SpecUserMeta(hs)
	tags := []string{"pure:usermeta"}
	if len(um) > 0 {
		tags = append(tags, "um:some")
	}
	for _, x := range hs {
		if x.name != strings.ToLower(x.name) && strings.HasPrefix(strings.ToLower(x.name), "x-amz-meta-") {
			tags = append(tags, "um:mixed-case")
			break
		}
	}
	var out string
	oracle := "OK"
	switch {
	case err == storage.ErrMetadataTooLarge:
		out = "MetadataTooLarge"
		tags = append(tags, "um:too-large")
		if fits {
			oracle = "FAIL:user metadata within 2 KB rejected"
		}
	case err != nil:
		out = "Err(" + err.Error() + ")"
		oracle = "FAIL:unexpected error " + err.Error()
	case md == nil:
		out = "nil"
		if !fits || len(um) > 0 {
			oracle = "FAIL:no metadata returned"
		}
		for _, n := range c11SysHeaders {
			if c11SpecGet(hs, n) != nil {
				oracle = "FAIL:no metadata returned"
			}
		}
	default:
		f := []string{}
		got := []*string{md.CacheControl, md.ContentDisposition, md.ContentEncoding, md.ContentLanguage, md.Expires, md.WebsiteRedirectLocation}
		for i, p := range got {
			f = append(f, tokOpt(p))
			if tokOpt(p) != tokOpt(c11SpecGet(hs, c11SysHeaders[i])) {
				oracle = "FAIL:" + c11SysHeaders[i] + " parsed wrongly"
			}
		}
		f = append(f, c11TokMap(md.UserMetadata))
		out = strings.Join(f, "|")
		if !fits {
			oracle = "FAIL:user metadata above 2 KB accepted"
		} else if c11TokMap(md.UserMetadata) != c11TokMap(um) {
			oracle = "FAIL:user metadata want " + c11ShowMap(um) + " got " + c11ShowMap(md.UserMetadata)
		}
	}
	size := 0
	for k, v := range um {
		size += len(k) + len(v)
	}
	if size >= 2040 && size <= 2056 {
		tags = append(tags, "um:boundary")
	}
	return Result{Out: out, Oracle: oracle, Tags: tags}
}

func c11RunTagging(toks []string) Result {
	if len(toks) != 2 {
		return Result{Out: "PARSE-ERROR", Oracle: "-", Tags: []string{"invalid"}}
	}
	v, ok := c11Unhex(toks[1])
	if !ok {
		return Result{Out: "PARSE-ERROR", Oracle: "-", Tags: []string{"invalid"}}
	}
	got, err := storage.ParseTaggingHeader(v)
	want, valid := c11SpecTagging(v)
	tags := []string{"pure:tagging"}
	if strings.ContainsAny(v, "%+") {
		tags = append(tags, "tag:encoded")
	}
	oracle := "OK"
	var out string
	if err != nil {
		out = "InvalidTag"
		tags = append(tags, "tag:rejected")
		if err != storage.ErrInvalidTag {
			oracle = "FAIL:unexpected error " + err.Error()
		} else if valid {
			oracle = "FAIL:valid tagging header rejected"
		}
	} else {
		out = "ok " + c11TokMap(got)
		tags = append(tags, "tag:accepted-"+strconv.Itoa(len(got)))
		if !valid {
			oracle = "FAIL:invalid tagging header accepted"
		} else if c11TokMap(got) != c11TokMap(want) {
			oracle = "FAIL:tags want " + c11ShowMap(want) + " got " + c11ShowMap(got)
		}
	}
	return Result{Out: out, Oracle: oracle, Tags: tags}
}
