//go:build verif

package main

import (
	"bytes"
	"context"
	"database/sql"
	"errors"
	"fmt"
	"io"
	"path/filepath"
	"sort"
	"strconv"
	"strings"
	"sync"
	"sync/atomic"
	"time"

	"github.com/jdillenkofer/pithos/internal/storage/database"
	repositoryFactory "github.com/jdillenkofer/pithos/internal/storage/database/repository"
	partOutboxEntry "github.com/jdillenkofer/pithos/internal/storage/database/repository/partoutboxentry"
	"github.com/jdillenkofer/pithos/internal/storage/metadatapart/partstore"
	filesystemPartStore "github.com/jdillenkofer/pithos/internal/storage/metadatapart/partstore/filesystem"
	partOutbox "github.com/jdillenkofer/pithos/internal/storage/metadatapart/partstore/outbox"
	"github.com/oklog/ulid/v2"
	"github.com/prometheus/client_golang/prometheus"
)

// C18 — outbox part store. Case line: <lease> <pids> <step>... (see coq/Model/PartOutbox.v).
// REAL outbox part stores (one instance per flush worker, all on one SQLite DB and one outbox id)
// over a REAL filesystem part store. Each worker runs the real maybeProcessOutboxEntries on its own
// goroutine and is parked by doubles at its three atomic steps: before ClaimFirstPartOutboxEntry
// (repository double, which also maps the harness' virtual clock onto the `now`/`claimUntil`
// arguments), before the tx-free inner PutPart/DeletePart (inner-store double) and before
// DeletePartOutboxEntryByClaimOwner. A crash cancels the worker and replaces the instance.
type c18 struct{}

func init() { register("C18", c18{}) }

func (c18) Parallel() bool { return true }

const c18Unit = time.Hour

type c18Clock struct {
	mu  sync.Mutex
	off time.Duration
}

func (c *c18Clock) get() time.Duration { c.mu.Lock(); defer c.mu.Unlock(); return c.off }
func (c *c18Clock) add(d time.Duration) { c.mu.Lock(); c.off += d; c.mu.Unlock() }

// one gate set per worker incarnation
type c18Gates struct {
	at     chan string   // the worker announces the gate it reached: claim | inner | final
	permit chan struct{} // the harness lets it pass
	res    chan string   // outcome of the gated call
}

func newC18Gates() *c18Gates {
	return &c18Gates{at: make(chan string, 1), permit: make(chan struct{}), res: make(chan string, 1)}
}
func (g *c18Gates) pass(ctx context.Context, kind string) error {
	select {
	case g.at <- kind:
	case <-ctx.Done():
		return ctx.Err()
	}
	select {
	case <-g.permit:
		return nil
	case <-ctx.Done():
		return ctx.Err()
	}
}

// database double of the client instance: counts the read transactions the store opens ITSELF
// (getPartTxFree) and how many of them were finalized — each must be released exactly once, when
// the returned reader is closed or on every early-return path
type c18CountDB struct {
	database.Database
	begun, finalized atomic.Int64
}

func (d *c18CountDB) BeginTx(ctx context.Context, opts *sql.TxOptions) (*database.TxController, error) {
	_, nested := database.TxControllerFromContext(ctx)
	tx, err := d.Database.BeginTx(ctx, opts)
	if err == nil && !nested {
		d.begun.Add(1)
		var once sync.Once
		fin := func(context.Context) error { once.Do(func() { d.finalized.Add(1) }); return nil }
		tx.OnRollback(fin)
		tx.OnAfterCommit(fin)
	}
	return tx, err
}

// statement-level isolation for ONE stepped tx-free read (marked by its context): every repository
// lookup of that read parks first, then runs in a fresh read transaction, i.e. sees the latest
// committed entries (what Postgres READ COMMITTED gives; SQLite's snapshot hides it)
type c18RCKey struct{}
type c18RC struct {
	raw    database.Database
	at     chan struct{}
	permit chan struct{}
}

func (rc *c18RC) lookup(ctx context.Context, f func(ctx context.Context, tx *sql.Tx) error) error {
	select {
	case rc.at <- struct{}{}:
	case <-ctx.Done():
		return ctx.Err()
	}
	select {
	case <-rc.permit:
	case <-ctx.Done():
		return ctx.Err()
	}
	return database.WithTx(context.WithoutCancel(ctx), rc.raw, &sql.TxOptions{ReadOnly: true}, func(c2 context.Context, tx database.Tx) error {
		return f(c2, tx.SqlTx())
	})
}

// parks a client's GetPartIds between its two reads (whichever read comes first in the code)
type c18Mid struct {
	armed  atomic.Bool
	at     chan struct{}
	permit chan struct{}
}

func (m *c18Mid) hit(ctx context.Context) {
	if m == nil || !m.armed.CompareAndSwap(true, false) {
		return
	}
	m.at <- struct{}{}
	select {
	case <-m.permit:
	case <-ctx.Done():
	}
}

type c18Repo struct {
	partOutboxEntry.Repository
	clock *c18Clock
	gates *c18Gates // nil for the client-side instance
	saved *[]string // entry ids saved by the current writer transaction
	mid   *c18Mid
}

func (r *c18Repo) FindLastPartOutboxEntryByPartId(ctx context.Context, tx *sql.Tx, outboxId string, partId partstore.PartId) (*partOutboxEntry.Entity, error) {
	if rc, ok := ctx.Value(c18RCKey{}).(*c18RC); ok {
		var e *partOutboxEntry.Entity
		err := rc.lookup(ctx, func(c2 context.Context, tx2 *sql.Tx) error {
			var err error
			e, err = r.Repository.FindLastPartOutboxEntryByPartId(c2, tx2, outboxId, partId)
			return err
		})
		return e, err
	}
	return r.Repository.FindLastPartOutboxEntryByPartId(ctx, tx, outboxId, partId)
}
func (r *c18Repo) FindPartOutboxEntryChunkByIndexWithEntryPresence(ctx context.Context, tx *sql.Tx, outboxId string, id ulid.ULID, idx int) (*partOutboxEntry.ContentChunk, bool, error) {
	if rc, ok := ctx.Value(c18RCKey{}).(*c18RC); ok {
		var c *partOutboxEntry.ContentChunk
		var present bool
		err := rc.lookup(ctx, func(c2 context.Context, tx2 *sql.Tx) error {
			var err error
			c, present, err = r.Repository.FindPartOutboxEntryChunkByIndexWithEntryPresence(c2, tx2, outboxId, id, idx)
			return err
		})
		return c, present, err
	}
	return r.Repository.FindPartOutboxEntryChunkByIndexWithEntryPresence(ctx, tx, outboxId, id, idx)
}
func (r *c18Repo) FindLastPartOutboxEntryGroupedByPartId(ctx context.Context, tx *sql.Tx, outboxId string) ([]partOutboxEntry.Entity, error) {
	es, err := r.Repository.FindLastPartOutboxEntryGroupedByPartId(ctx, tx, outboxId)
	r.mid.hit(ctx)
	return es, err
}

func (r *c18Repo) SavePartOutboxEntry(ctx context.Context, tx *sql.Tx, outboxId string, e *partOutboxEntry.Entity) error {
	err := r.Repository.SavePartOutboxEntry(ctx, tx, outboxId, e)
	if err == nil && r.saved != nil && e.Id != nil {
		*r.saved = append(*r.saved, e.Id.String())
	}
	return err
}
func (r *c18Repo) ClaimFirstPartOutboxEntry(ctx context.Context, tx *sql.Tx, outboxId string, owner string, now time.Time, until time.Time) (*partOutboxEntry.Entity, bool, error) {
	off := r.clock.get()
	e, c, err := r.Repository.ClaimFirstPartOutboxEntry(ctx, tx, outboxId, owner, now.Add(off), until.Add(off))
	if r.gates != nil {
		out := "-"
		if err != nil {
			out = "ERR:" + err.Error()
		} else if e != nil && c {
			out = "c" + e.Id.String()
		}
		r.gates.res <- out
	}
	return e, c, err
}
func (r *c18Repo) DeletePartOutboxEntryByClaimOwner(ctx context.Context, tx *sql.Tx, outboxId string, id ulid.ULID, owner string) (bool, error) {
	d, err := r.Repository.DeletePartOutboxEntryByClaimOwner(ctx, tx, outboxId, id, owner)
	if r.gates != nil {
		out := "l"
		if err != nil {
			out = "ERR:" + err.Error()
		} else if d {
			out = "d"
		}
		r.gates.res <- out
	}
	return d, err
}
func (r *c18Repo) ExtendPartOutboxEntryClaim(ctx context.Context, tx *sql.Tx, outboxId string, id ulid.ULID, owner string, now time.Time, until time.Time) (bool, error) {
	off := r.clock.get()
	return r.Repository.ExtendPartOutboxEntryClaim(ctx, tx, outboxId, id, owner, now.Add(off), until.Add(off))
}

// database double of a worker instance: the worker is parked BEFORE it begins a write transaction
// (claim, finalize), so a parked worker never holds the single SQLite writer connection
type c18DB struct {
	database.Database
	gates *c18Gates
}

func (d *c18DB) BeginTx(ctx context.Context, opts *sql.TxOptions) (*database.TxController, error) {
	if opts != nil && !opts.ReadOnly {
		if _, nested := database.TxControllerFromContext(ctx); !nested {
			if err := d.gates.pass(ctx, "wtx"); err != nil {
				return nil, err
			}
		}
	}
	return d.Database.BeginTx(ctx, opts)
}

type c18Inner struct {
	partstore.PartStore
	gates *c18Gates
	mid   *c18Mid
}

func (i *c18Inner) GetPartIds(ctx context.Context, tx database.Tx) ([]partstore.PartId, error) {
	ids, err := i.PartStore.GetPartIds(ctx, tx)
	i.mid.hit(ctx)
	return ids, err
}

func (i *c18Inner) Capabilities() partstore.Capabilities { return partstore.CapabilitiesOf(i.PartStore) }
func (i *c18Inner) Start(ctx context.Context) error       { return nil }
func (i *c18Inner) Stop(ctx context.Context) error        { return nil }
// A worker's tx-free PutPart: the entry's chunks are streamed out of the outbox first (as a slow
// external store would have consumed them), then the worker is parked before the external write.
func (i *c18Inner) PutPart(ctx context.Context, tx database.Tx, id partstore.PartId, r io.Reader) error {
	if i.gates == nil || tx != nil {
		return i.PartStore.PutPart(ctx, tx, id, r)
	}
	b, err := io.ReadAll(r)
	if err != nil {
		return err
	}
	if err := i.gates.pass(ctx, "inner"); err != nil {
		return err
	}
	err = i.PartStore.PutPart(ctx, tx, id, bytes.NewReader(b))
	i.gates.res <- c18ErrStr(err)
	return err
}
func (i *c18Inner) DeletePart(ctx context.Context, tx database.Tx, id partstore.PartId) error {
	if i.gates == nil || tx != nil {
		return i.PartStore.DeletePart(ctx, tx, id)
	}
	if err := i.gates.pass(ctx, "inner"); err != nil {
		return err
	}
	err := i.PartStore.DeletePart(ctx, tx, id)
	i.gates.res <- c18ErrStr(err)
	return err
}
func c18ErrStr(err error) string {
	if err == nil {
		return "ok"
	}
	return "ERR:" + strings.ReplaceAll(err.Error(), " ", "_")
}

type c18Worker struct {
	store   partstore.PartStore
	gates   *c18Gates
	cancel  context.CancelFunc
	done    chan struct{}
	phase   string // gate the worker is parked at
	heldID  string
	started bool
}

type c18Env struct {
	db       database.Database
	realRepo partOutboxEntry.Repository
	fs       partstore.PartStore
	clock    *c18Clock
	lease    int
	client   partstore.PartStore
	saved    []string
	seq      map[string]int
	nseq     int
	workers  map[int]*c18Worker
}

func (e *c18Env) newWorker() (*c18Worker, error) {
	g := newC18Gates()
	repo := &c18Repo{Repository: e.realRepo, clock: e.clock, gates: g}
	st, err := partOutbox.New(&c18DB{Database: e.db, gates: g}, "default", &c18Inner{PartStore: e.fs, gates: g}, repo, prometheus.NewRegistry(), time.Duration(e.lease)*c18Unit)
	if err != nil {
		return nil, err
	}
	ctx, cancel := context.WithCancel(context.Background())
	w := &c18Worker{store: st, gates: g, cancel: cancel, done: make(chan struct{})}
	go func() {
		defer close(w.done)
		for ctx.Err() == nil {
			partOutbox.VerifMaybeProcess(ctx, st)
		}
	}()
	w.await()
	return w, nil
}

// waits until the worker is parked again and derives its program phase: a write transaction is
// the finalize iff the inner replay of the held entry has just been done
func (w *c18Worker) await() {
	k := c18Await(w.gates)
	switch {
	case k == "inner":
		w.phase = "inner"
	case k == "wtx" && w.phase == "inner-done":
		w.phase = "final"
	case k == "wtx" && w.phase == "failed":
		w.phase = "release"
	case k == "wtx":
		w.phase = "claim"
	default:
		w.phase = k
	}
}
func c18Await(g *c18Gates) string {
	select {
	case k := <-g.at:
		return k
	case <-time.After(120 * time.Second):
		return "stuck"
	}
}
func c18Res(g *c18Gates) string {
	select {
	case r := <-g.res:
		return r
	case <-time.After(120 * time.Second):
		return "TIMEOUT"
	}
}
func (e *c18Env) worker(w int) *c18Worker {
	if e.workers[w] == nil {
		nw, err := e.newWorker()
		if err != nil {
			panic(err)
		}
		e.workers[w] = nw
	}
	return e.workers[w]
}

func c18Content(cid int) []byte {
	if cid == 0 {
		return nil
	}
	n := 1 + cid%4
	if cid >= 900 { // 9.1 MB: spans two 8 MiB outbox chunks
		n = 700000
	}
	return bytes.Repeat([]byte(fmt.Sprintf("c18-part-%d|", cid)), n)
}
func c18CidOf(b []byte) string {
	if len(b) == 0 {
		return "=0"
	}
	s := string(b)
	i := strings.Index(s, "|")
	if !strings.HasPrefix(s, "c18-part-") || i < 0 {
		return "=BAD"
	}
	n, err := strconv.Atoi(s[len("c18-part-"):i])
	if err != nil || !bytes.Equal(c18Content(n), b) {
		return "=BAD"
	}
	return "=" + strconv.Itoa(n)
}

type c18Step struct {
	kind byte
	n    int
	ops  [][2]int // pid, cid (-1 = delete)
}

func c18Parse(t string) c18Step {
	s := c18Step{kind: t[0]}
	switch t[0] {
	case 'X', 'Y':
		if t[1:] != "_" {
			for _, o := range strings.Split(t[1:], ",") {
				if strings.HasSuffix(o, "-") {
					p, _ := strconv.Atoi(o[:len(o)-1])
					s.ops = append(s.ops, [2]int{p, -1})
				} else {
					pc := strings.Split(o, "+")
					p, _ := strconv.Atoi(pc[0])
					c, _ := strconv.Atoi(pc[1])
					s.ops = append(s.ops, [2]int{p, c})
				}
			}
		}
	case 'I':
	default:
		s.n, _ = strconv.Atoi(t[1:])
	}
	return s
}

// ---- shadow of the claim/lease bookkeeping: tags (steal => known-finding region) and generation
type c18ShEntry struct {
	id, pid, cid int
	owner        int // -1 none
	until        int
}
type c18Shadow struct {
	lease   int
	es      []c18ShEntry
	now     int
	next    int
	phase   map[int]byte // 0 idle, 'h' holding, 'r' replayed
	held    map[int]int
	steal   bool
	commits int
	claims  int
	expired bool
	crashes int
	rd      *c18ShRead // stepped tx-free read in progress
	txfree  bool
	stepped bool
	vanish  bool // an entry vanished under a stepped read
}
type c18ShRead struct {
	pid, id, cid, next int
	phase              byte // 'p' about to look the last entry up, 'l' looked, 's' streaming
}

func c18NChunks(cid int) int {
	switch {
	case cid == 0:
		return 0
	case cid >= 900:
		return 2
	}
	return 1
}
func (s *c18Shadow) present(id int) bool {
	for _, e := range s.es {
		if e.id == id {
			return true
		}
	}
	return false
}
func (s *c18Shadow) lookup(pid int) {
	for i := len(s.es) - 1; i >= 0; i-- {
		if s.es[i].pid == pid {
			if s.es[i].cid < 0 {
				s.rd = nil
			} else {
				s.rd = &c18ShRead{pid: pid, id: s.es[i].id, cid: s.es[i].cid, phase: 'l'}
			}
			return
		}
	}
	s.rd = nil
}

func newC18Shadow(lease int) *c18Shadow {
	return &c18Shadow{lease: lease, next: 1, phase: map[int]byte{}, held: map[int]int{}}
}
func (s *c18Shadow) step(st c18Step) {
	w := st.n
	switch st.kind {
	case 'X':
		for _, o := range st.ops {
			s.es = append(s.es, c18ShEntry{id: s.next, pid: o[0], cid: o[1], owner: -1})
			s.next++
		}
		s.commits++
	case 'C':
		if s.phase[w] != 0 || len(s.es) == 0 {
			return
		}
		e := &s.es[0]
		if e.owner >= 0 && e.until > s.now {
			return
		}
		for w2, ph := range s.phase {
			if w2 != w && ph != 0 && s.held[w2] == e.id {
				s.steal = true
			}
		}
		if e.owner >= 0 {
			s.expired = true
		}
		e.owner, e.until = w, s.now+s.lease
		s.phase[w], s.held[w] = 'h', e.id
		s.claims++
	case 'R':
		if s.phase[w] == 'h' {
			s.phase[w] = 'r'
		}
	case 'F':
		if s.phase[w] == 'r' {
			for i, e := range s.es {
				if e.id == s.held[w] && e.owner == w {
					s.es = append(s.es[:i:i], s.es[i+1:]...)
					break
				}
			}
			s.phase[w] = 0
		}
	case 'H':
		if s.phase[w] != 0 {
			for i := range s.es {
				if s.es[i].id == s.held[w] && s.es[i].owner == w {
					s.es[i].until = s.now + s.lease
				}
			}
		}
	case 'g':
		s.txfree = true
	case 'r':
		if s.rd == nil {
			s.stepped = true
			s.lookup(st.n)
		}
	case 's':
		if s.rd == nil {
			return
		}
		r := s.rd
		switch r.phase {
		case 'p':
			s.lookup(r.pid)
		case 'l':
			if !s.present(r.id) {
				s.vanish = true
				r.phase = 'p'
			} else if c18NChunks(r.cid) == 0 {
				s.rd = nil
			} else {
				r.phase, r.next = 's', 1
			}
		case 's':
			if !s.present(r.id) {
				s.vanish = true
				s.rd = nil
			} else if r.next < c18NChunks(r.cid) {
				r.next++
			} else {
				s.rd = nil
			}
		}
	case 'K':
		s.phase[w] = 0
		s.crashes++
	case 'T':
		s.now += st.n
	}
}

func (c18) Gen(r *Rng, tier string, n int) []string {
	cases := make([]string, 0, n)
	for len(cases) < n {
		cases = append(cases, c18GenCase(r.Fork()))
	}
	return cases
}

func c18GenCase(r *Rng) string {
	lease := 2 + r.Intn(2)
	npid := 1 + r.Intn(3)
	nw := 1 + r.Intn(2)
	if r.Chance(60) {
		nw = 2
	}
	sh := newC18Shadow(lease)
	var toks []string
	cid := 1
	emit := func(t string) { toks = append(toks, t); sh.step(c18Parse(t)) }
	genOps := func() string {
		k := 1 + r.Intn(2)
		var os []string
		for i := 0; i < k; i++ {
			p := 1 + r.Intn(npid)
			if r.Chance(35) {
				os = append(os, fmt.Sprintf("%d-", p))
			} else {
				c := cid
				cid++
				if r.Chance(6) {
					c = 0
				} else if r.Chance(2) && r.Chance(35) { // two-chunk parts cost ~1 s each: rare here, always in the corpus
					c = 900 + cid
				}
				os = append(os, fmt.Sprintf("%d+%d", p, c))
			}
		}
		return strings.Join(os, ",")
	}
	next := func(w int) string {
		switch sh.phase[w] {
		case 'h':
			return fmt.Sprintf("R%d", w)
		case 'r':
			return fmt.Sprintf("F%d", w)
		}
		return fmt.Sprintf("C%d", w)
	}
	steps := 8 + r.Intn(18)
	if nw == 2 && r.Chance(7) {
		// a holder that lost its entry keeps sending heartbeats: they must not extend the thief's lease
		emit("X" + genOps())
		emit("C0")
		emit(fmt.Sprintf("T%d", lease))
		emit("C1")
		emit("T1")
		emit("H0")
		emit(fmt.Sprintf("T%d", lease-1))
		emit("K1")
		emit("C1")
		steps = 4
	}
	for i := 0; i < steps; i++ {
		x := r.Intn(100)
		w := r.Intn(nw)
		switch {
		case x < 22:
			emit("X" + genOps())
		case x < 26:
			emit("Y" + genOps())
		case x < 62:
			if r.Chance(85) {
				emit(next(w))
			} else {
				emit(string("CRF"[r.Intn(3)]) + strconv.Itoa(w))
			}
		case x < 72:
			if r.Chance(55) {
				emit(fmt.Sprintf("T%d", lease))
			} else {
				emit(fmt.Sprintf("T%d", 1+r.Intn(lease)))
			}
		case x < 76:
			emit(fmt.Sprintf("K%d", w))
		case x < 79:
			emit(fmt.Sprintf("H%d", w))
		case x < 87:
			if r.Chance(30) {
				emit(fmt.Sprintf("g%d", 1+r.Intn(npid)))
			} else {
				emit(fmt.Sprintf("G%d", 1+r.Intn(npid)))
			}
		case x < 90:
			// a tx-free read stepped lookup by lookup with flush steps in between (no commit in between)
			emit(fmt.Sprintf("r%d", 1+r.Intn(npid)))
			for j := 0; j < 6 && sh.rd != nil; j++ {
				w := r.Intn(nw)
				switch y := r.Intn(100); {
				case y < 35:
					emit("s")
				case y < 80:
					// a burst of flush steps by one worker: the looked-up entry may be gone afterwards
					for k := 0; k < 3*(1+r.Intn(3)) && len(sh.es) > 0; k++ {
						if sh.phase[w] == 0 && sh.es[0].owner >= 0 && sh.es[0].until > sh.now {
							emit(fmt.Sprintf("T%d", lease))
						}
						emit(next(w))
					}
				case y < 92:
					emit(next(w))
				default:
					emit(fmt.Sprintf("K%d", w))
				}
			}
			for j := 0; j < 8 && sh.rd != nil; j++ {
				emit("s")
			}
		case x < 95:
			// GetPartIds with flush steps between its two reads (no commit in between)
			emit("B")
			for j := r.Intn(7); j > 0; j-- {
				w := r.Intn(nw)
				switch y := r.Intn(100); {
				case y < 80:
					emit(next(w))
				case y < 90:
					emit(fmt.Sprintf("T%d", lease))
				default:
					emit(fmt.Sprintf("K%d", w))
				}
			}
			emit("E")
		default:
			emit("I")
		}
	}
	if r.Chance(75) {
		// drain: the stalled worker (if any) wakes up at a random point of the drain
		late := -1
		for w := 0; w < nw; w++ {
			if sh.phase[w] == 'h' && r.Chance(60) {
				late = w
			}
		}
		d := 0
		if late == 0 {
			d = 1
		}
		if late < 0 || nw == 1 {
			late = -1
			d = r.Intn(nw)
			for w := 0; w < nw; w++ {
				if w != d && sh.phase[w] != 0 {
					emit(fmt.Sprintf("K%d", w))
				}
			}
		}
		for g := 0; g < 80 && len(sh.es) > 0; g++ {
			if sh.phase[d] == 0 && sh.es[0].owner >= 0 && sh.es[0].until > sh.now {
				emit(fmt.Sprintf("T%d", lease))
			}
			emit(next(d))
			if r.Chance(10) {
				emit("X" + genOps())
			}
		}
		if late >= 0 {
			emit(fmt.Sprintf("R%d", late))
			emit(fmt.Sprintf("F%d", late))
		}
		for p := 1; p <= npid; p++ {
			if r.Chance(30) {
				emit(fmt.Sprintf("g%d", p))
			} else {
				emit(fmt.Sprintf("G%d", p))
			}
		}
		emit("I")
	}
	pids := make([]string, npid)
	for i := range pids {
		pids[i] = strconv.Itoa(i + 1)
	}
	return strconv.Itoa(lease) + " " + strings.Join(pids, ",") + " " + strings.Join(toks, " ")
}

func (c18) Run(in string, scratch string) Result {
	if strings.HasPrefix(in, "ORD ") {
		return c18OrdRun("part", in, scratch)
	}
	if strings.HasPrefix(in, "STO ") {
		return c18StoRun(in, scratch)
	}
	f := strings.Fields(in)
	lease, _ := strconv.Atoi(f[0])
	var pids []int
	for _, p := range strings.Split(f[1], ",") {
		n, _ := strconv.Atoi(p)
		pids = append(pids, n)
	}
	steps := make([]c18Step, len(f)-2)
	sh := newC18Shadow(lease)
	wset := map[int]bool{}
	for i, t := range f[2:] {
		steps[i] = c18Parse(t)
		sh.step(steps[i])
		switch steps[i].kind {
		case 'C', 'R', 'F', 'H', 'K':
			wset[steps[i].n] = true
		}
	}
	var tags []string
	if sh.commits == 0 || sh.claims == 0 {
		tags = append(tags, "no-flush")
	} else {
		tags = append(tags, "flush")
	}
	if len(wset) > 1 {
		tags = append(tags, "two-workers")
	}
	if sh.expired {
		tags = append(tags, "lease-expired")
	}
	if sh.crashes > 0 {
		tags = append(tags, "crash")
	}
	if len(sh.es) == 0 {
		tags = append(tags, "drained")
	} else {
		tags = append(tags, "pending")
	}
	if sh.steal {
		tags = append(tags, "steal", "kf:C18-lost-lease-replay-not-fenced")
	}
	for _, st := range steps {
		if st.kind == 'B' {
			tags = append(tags, "listing-two-reads")
			break
		}
	}
	if sh.txfree {
		tags = append(tags, "txfree-read")
	}
	if sh.stepped {
		tags = append(tags, "txfree-stepped")
	}
	if sh.vanish {
		tags = append(tags, "entry-vanished-mid-read")
	}

	db, err := c21OpenDB(scratch, filepath.Join(scratch, "db", "pithos.db"))
	if err != nil {
		return Result{Out: "SETUP-ERROR " + err.Error(), Oracle: "FAIL:setup"}
	}
	defer db.Close()
	fs, err := filesystemPartStore.New(filepath.Join(scratch, "parts"))
	if err != nil {
		return Result{Out: "SETUP-ERROR " + err.Error(), Oracle: "FAIL:setup"}
	}
	bg := context.Background()
	if err := fs.Start(bg); err != nil {
		return Result{Out: "SETUP-ERROR " + err.Error(), Oracle: "FAIL:setup"}
	}
	defer fs.Stop(bg)
	realRepo, err := repositoryFactory.NewPartOutboxEntryRepository(db)
	if err != nil {
		return Result{Out: "SETUP-ERROR " + err.Error(), Oracle: "FAIL:setup"}
	}
	env := &c18Env{db: db, realRepo: realRepo, fs: fs, clock: &c18Clock{}, lease: lease, seq: map[string]int{}, workers: map[int]*c18Worker{}}
	mid := &c18Mid{at: make(chan struct{}, 1), permit: make(chan struct{})}
	var listingRes chan string
	rcPid, rcDirty, rcStart := 0, false, ""
	cdb := &c18CountDB{Database: db}
	rc := &c18RC{raw: db, at: make(chan struct{}), permit: make(chan struct{})}
	var rcRes chan string
	var rcCancel context.CancelFunc
	env.client, err = partOutbox.New(cdb, "default", &c18Inner{PartStore: fs, mid: mid}, &c18Repo{Repository: realRepo, clock: env.clock, saved: &env.saved, mid: mid}, prometheus.NewRegistry(), time.Duration(lease)*c18Unit)
	if err != nil {
		return Result{Out: "SETUP-ERROR " + err.Error(), Oracle: "FAIL:setup"}
	}
	partIDs := map[int]partstore.PartId{}
	pidOf := map[string]int{}
	for _, p := range pids {
		id, _ := partstore.NewRandomPartId()
		partIDs[p] = *id
		pidOf[id.String()] = p
	}
	defer func() {
		if rcRes != nil {
			rcCancel()
			<-rcRes
		}
		if listingRes != nil {
			close(mid.permit)
			<-listingRes
		}
		for _, w := range env.workers {
			w.cancel()
			<-w.done
		}
	}()
	listIDs := func() string {
		var ids []partstore.PartId
		err := database.WithTx(bg, db, &sql.TxOptions{ReadOnly: true}, func(ctx context.Context, tx database.Tx) error {
			var err error
			ids, err = env.client.GetPartIds(ctx, tx)
			return err
		})
		if err != nil {
			return c18ErrStr(err)
		}
		var ns []int
		for _, id := range ids {
			if p, ok := pidOf[id.String()]; ok {
				ns = append(ns, p)
			} else {
				ns = append(ns, 9999)
			}
		}
		sort.Ints(ns)
		return "i" + c18Ints(ns)
	}
	committedIDs := func(committed map[int]int) string {
		var want []int
		for _, p := range pids {
			if _, ok := committed[p]; ok {
				want = append(want, p)
			}
		}
		return "i" + c18Ints(want)
	}

	errRollback := errors.New("rollback")
	committed := map[int]int{} // oracle: pid -> cid of the latest committed put (absent = no part)
	var oracleFail string
	outs := make([]string, len(steps))
	for i, st := range steps {
		switch st.kind {
		case 'X', 'Y':
			env.saved = env.saved[:0]
			err := database.WithTx(bg, db, &sql.TxOptions{ReadOnly: false}, func(ctx context.Context, tx database.Tx) error {
				for _, o := range st.ops {
					pid, ok := partIDs[o[0]]
					if !ok {
						continue
					}
					var err error
					if o[1] < 0 {
						err = env.client.DeletePart(ctx, tx, pid)
					} else {
						err = env.client.PutPart(ctx, tx, pid, bytes.NewReader(c18Content(o[1])))
					}
					if err != nil {
						return err
					}
				}
				if st.kind == 'Y' {
					return errRollback
				}
				return nil
			})
			if st.kind == 'Y' && errors.Is(err, errRollback) {
				err = nil
			}
			if err == nil && st.kind == 'X' {
				for _, id := range env.saved {
					env.nseq++
					env.seq[id] = env.nseq
				}
				for _, o := range st.ops {
					if o[1] < 0 {
						delete(committed, o[0])
					} else {
						committed[o[0]] = o[1]
					}
					if rcRes != nil && o[0] == rcPid {
						rcDirty = true
					}
				}
			}
			outs[i] = c18ErrStr(err)
		case 'C':
			w := env.worker(st.n)
			if w.phase != "claim" {
				outs[i] = "-"
				continue
			}
			w.gates.permit <- struct{}{}
			r := c18Res(w.gates)
			if strings.HasPrefix(r, "c") {
				w.heldID = r[1:]
				r = "c" + strconv.Itoa(env.seq[r[1:]])
			}
			outs[i] = r
			w.await()
		case 'R':
			w := env.worker(st.n)
			if w.phase != "inner" {
				outs[i] = "-"
				continue
			}
			w.gates.permit <- struct{}{}
			outs[i] = c18Res(w.gates)
			if strings.HasPrefix(outs[i], "ERR") {
				w.phase = "failed" // the worker goes on to release the claim, not to finalize
			} else {
				w.phase = "inner-done"
			}
			w.await()
		case 'F':
			w := env.worker(st.n)
			if w.phase != "final" {
				outs[i] = "-"
				continue
			}
			w.gates.permit <- struct{}{}
			outs[i] = c18Res(w.gates)
			w.phase = ""
			w.heldID = ""
			w.await()
		case 'H':
			w := env.worker(st.n)
			if w.phase == "claim" || w.heldID == "" {
				outs[i] = "-"
				continue
			}
			id := ulid.MustParse(w.heldID)
			now := time.Now().UTC().Add(env.clock.get())
			err := database.WithTx(bg, db, &sql.TxOptions{ReadOnly: false}, func(ctx context.Context, tx database.Tx) error {
				_, err := realRepo.ExtendPartOutboxEntryClaim(ctx, tx.SqlTx(), "default", id, partOutbox.VerifClaimOwner(w.store), now, now.Add(time.Duration(lease)*c18Unit))
				return err
			})
			outs[i] = c18ErrStr(err)
		case 'K':
			if w := env.workers[st.n]; w != nil {
				w.cancel()
				<-w.done
				delete(env.workers, st.n)
			}
			outs[i] = "ok"
		case 'T':
			env.clock.add(time.Duration(st.n) * c18Unit)
			outs[i] = "ok"
		case 'L':
			outs[i] = "UNSUPPORTED"
		case 'r':
			pid, ok := partIDs[st.n]
			if rcRes != nil || !ok {
				outs[i] = "-"
				continue
			}
			rctx, cancel := context.WithCancel(context.WithValue(bg, c18RCKey{}, rc))
			ch := make(chan string, 1)
			go func() { ch <- c18Get(rctx, db, env.client, pid, true) }()
			rcRes, rcCancel, rcPid, rcDirty = ch, cancel, st.n, false
			rcStart = "NF"
			if c, ok := committed[st.n]; ok {
				rcStart = "=" + strconv.Itoa(c)
			}
			<-rc.at // parked before the first lookup: let it run
			fallthrough
		case 's':
			if rcRes == nil {
				outs[i] = "-"
				continue
			}
			rc.permit <- struct{}{}
			select {
			case <-rc.at:
				outs[i] = "ok"
			case got := <-rcRes:
				rcCancel()
				rcRes = nil
				if got == "=BAD" {
					got = "MIX"
				}
				outs[i] = got
				want := "NF"
				if c, ok := committed[rcPid]; ok {
					want = "=" + strconv.Itoa(c)
				}
				// a commit on the part during the read: the value before or after it, or a failed read —
				// never mixed bytes or a short body reported as complete
				okDirty := rcDirty && (got == rcStart || got == "RERR")
				if got != want && !okDirty && oracleFail == "" {
					oracleFail = fmt.Sprintf("step %d tx-free GetPart(%d), lookups interleaved with flush steps, returned %s, the latest committed operation says %s (at its start: %s)", i, rcPid, got, want, rcStart)
				}
			case <-time.After(120 * time.Second):
				outs[i] = "TIMEOUT"
			}
		case 'G', 'g':
			pid, ok := partIDs[st.n]
			var got string
			if !ok {
				got = "NF"
			} else {
				got = c18Get(bg, db, env.client, pid, st.kind == 'g')
			}
			outs[i] = got
			want := "NF"
			if c, ok := committed[st.n]; ok {
				want = "=" + strconv.Itoa(c)
			}
			if got != want && oracleFail == "" {
				oracleFail = fmt.Sprintf("step %d GetPart(%d) returned %s, the latest committed operation says %s", i, st.n, got, want)
			}
		case 'B':
			if listingRes != nil {
				outs[i] = "-"
				continue
			}
			mid.armed.Store(true)
			ch := make(chan string, 1)
			go func() { ch <- listIDs() }()
			select {
			case <-mid.at:
				listingRes = ch
				outs[i] = "ok"
			case r := <-ch:
				outs[i] = "NOTPARKED:" + r
			case <-time.After(120 * time.Second):
				outs[i] = "TIMEOUT"
			}
		case 'E':
			if listingRes == nil {
				outs[i] = "-"
				continue
			}
			mid.permit <- struct{}{}
			outs[i] = <-listingRes
			listingRes = nil
			if want := committedIDs(committed); outs[i] != want && oracleFail == "" {
				oracleFail = fmt.Sprintf("step %d GetPartIds (two reads, flush in between) returned %s, committed parts are %s", i, outs[i], want)
			}
		case 'I':
			var ids []partstore.PartId
			err := database.WithTx(bg, db, &sql.TxOptions{ReadOnly: true}, func(ctx context.Context, tx database.Tx) error {
				var err error
				ids, err = env.client.GetPartIds(ctx, tx)
				return err
			})
			if err != nil {
				outs[i] = c18ErrStr(err)
				continue
			}
			var ns []int
			for _, id := range ids {
				if p, ok := pidOf[id.String()]; ok {
					ns = append(ns, p)
				} else {
					ns = append(ns, 9999)
				}
			}
			sort.Ints(ns)
			var want []int
			for _, p := range pids {
				if _, ok := committed[p]; ok {
					want = append(want, p)
				}
			}
			outs[i] = "i" + c18Ints(ns)
			if c18Ints(ns) != c18Ints(want) && oracleFail == "" {
				oracleFail = fmt.Sprintf("step %d GetPartIds returned %s, committed parts are %s", i, c18Ints(ns), c18Ints(want))
			}
		}
	}
	// inner store sweep + pending entries
	var inner []string
	innerMap := map[int]string{}
	for _, p := range pids {
		rc, err := fs.GetPart(bg, nil, partIDs[p])
		if err != nil {
			continue
		}
		b, _ := io.ReadAll(rc)
		rc.Close()
		innerMap[p] = c18CidOf(b)
		inner = append(inner, strconv.Itoa(p)+c18CidOf(b))
	}
	pending := -1
	database.WithTx(bg, db, &sql.TxOptions{ReadOnly: true}, func(ctx context.Context, tx database.Tx) error {
		var err error
		pending, err = realRepo.Count(ctx, tx.SqlTx(), "default")
		return err
	})
	innerTok := "_"
	if len(inner) > 0 {
		innerTok = strings.Join(inner, ",")
	}
	if pending == 0 && oracleFail == "" {
		for _, p := range pids {
			want, got := "", innerMap[p]
			if c, ok := committed[p]; ok {
				want = "=" + strconv.Itoa(c)
			}
			if want != got {
				oracleFail = fmt.Sprintf("outbox empty but inner store holds part %d as %q, committed history says %q", p, got, want)
				break
			}
		}
	}
	oracle := "OK"
	if oracleFail != "" {
		oracle = "FAIL:" + oracleFail
	}
	if rcRes != nil {
		rcCancel()
		<-rcRes
		rcRes = nil
	}
	leaked := cdb.begun.Load() - cdb.finalized.Load()
	if leaked != 0 && oracle == "OK" {
		oracle = fmt.Sprintf("FAIL:%d of the %d read transactions the tx-free GetPart opened itself were not released", leaked, cdb.begun.Load())
	}
	return Result{Out: strings.Join(outs, " ") + " # " + innerTok + " Q" + strconv.Itoa(pending) + " L" + strconv.FormatInt(leaked, 10), Oracle: oracle, Tags: tags}
}

func c18Ints(ns []int) string {
	if len(ns) == 0 {
		return "_"
	}
	s := make([]string, len(ns))
	for i, n := range ns {
		s[i] = strconv.Itoa(n)
	}
	return strings.Join(s, ",")
}

func c18Get(ctx context.Context, db database.Database, st partstore.PartStore, pid partstore.PartId, txFree bool) string {
	read := func(rc io.ReadCloser, err error) string {
		if errors.Is(err, partstore.ErrPartNotFound) {
			return "NF"
		}
		if err != nil {
			return c18ErrStr(err)
		}
		defer rc.Close()
		b, err := io.ReadAll(rc)
		if err != nil {
			return "RERR"
		}
		return c18CidOf(b)
	}
	if txFree {
		return read(st.GetPart(ctx, nil, pid))
	}
	var out string
	database.WithTx(ctx, db, &sql.TxOptions{ReadOnly: true}, func(ctx context.Context, tx database.Tx) error {
		out = read(st.GetPart(ctx, tx, pid))
		return nil
	})
	return out
}
