//go:build verif

package main

// C20 — the object-cache middleware is transparent.
// Case line: "<mode> <op>;<op>;…"  (fields of an op are comma separated; see coq/Model/ObjCache.v).
// The REAL objectcache middleware runs over a REAL MetadataPartStorage (SQLite + SQL part store);
// the cache behind it is a mutex-protected map (mode c0; Set of a failing reader removes the key,
// like GenericCache does) or the real GenericCache over the in-memory persistor (mode c1).

import (
	"errors"
	"crypto/md5"
	"encoding/hex"
	"fmt"
	"io"
	"os"
	"path/filepath"
	"strconv"
	"strings"
	"sync"
	"time"

	cachepkg "github.com/jdillenkofer/pithos/internal/cache"
	"github.com/jdillenkofer/pithos/internal/cache/evictionpolicy/evictnothing"
	"github.com/jdillenkofer/pithos/internal/cache/persistor/inmemory"
	"github.com/jdillenkofer/pithos/internal/storage"
	"github.com/jdillenkofer/pithos/internal/storage/middlewares/objectcache"
)

type c20 struct{}

func init() { register("C20", c20{}) }

func (c20) Parallel() bool { return true }

// ---- cache double ----
type c20Cache struct {
	mu   sync.Mutex
	data map[string][]byte
}

func (c *c20Cache) Set(key string, reader io.Reader, size int64) error {
	data, err := io.ReadAll(reader)
	c.mu.Lock()
	defer c.mu.Unlock()
	if err != nil {
		delete(c.data, key)
		return err
	}
	c.data[key] = append([]byte(nil), data...)
	return nil
}
func (c *c20Cache) Get(key string) (io.ReadCloser, error) {
	c.mu.Lock()
	defer c.mu.Unlock()
	d, ok := c.data[key]
	if !ok {
		return nil, cachepkg.ErrCacheMiss
	}
	return io.NopCloser(strings.NewReader(string(d))), nil
}
func (c *c20Cache) Remove(key string) error {
	c.mu.Lock()
	defer c.mu.Unlock()
	delete(c.data, key)
	return nil
}

var c20Keys = []string{"k0", "k1", "dir/k2"}

// ---- pooled inner storages: opening a fresh SQLite database (migrations) per case costs far more
// than the case itself, so every worker re-uses a storage and isolates cases by fresh bucket names;
// cache and middleware are new for every case.
type c20Pooled struct {
	inner storage.Storage
	cases int
}

var c20PoolMu sync.Mutex
var c20Pool []*c20Pooled
var c20PoolN int
var c20CaseSeq int

func c20Acquire(scratch string) (*c20Pooled, error) {
	c20PoolMu.Lock()
	if n := len(c20Pool); n > 0 {
		pe := c20Pool[n-1]
		c20Pool = c20Pool[:n-1]
		c20PoolMu.Unlock()
		return pe, nil
	}
	c20PoolN++
	id := c20PoolN
	c20PoolMu.Unlock()
	dir := filepath.Join(filepath.Dir(scratch), fmt.Sprintf("c20-pool-%d", id))
	if err := os.MkdirAll(dir, 0o755); err != nil {
		return nil, err
	}
	inner, _, err := c20NewInner(dir, "c20")
	if err != nil {
		return nil, err
	}
	if err = inner.Start(c20Ctx); err != nil {
		return nil, err
	}
	return &c20Pooled{inner: inner}, nil
}
func c20Release(pe *c20Pooled) {
	c20PoolMu.Lock()
	c20Pool = append(c20Pool, pe)
	c20PoolMu.Unlock()
}
func (e *c20Env) B(i int) storage.BucketName {
	if i < 0 || i >= len(e.buckets) {
		return storage.MustNewBucketName("c20-missing")
	}
	return e.buckets[i]
}
func c20K(i int) storage.ObjectKey {
	if i < 0 || i >= len(c20Keys) {
		return storage.MustNewObjectKey("kx" + strconv.Itoa(i))
	}
	return storage.MustNewObjectKey(c20Keys[i])
}

type c20Upload struct {
	b, k int
	id   storage.UploadId
}
type c20Handle struct {
	b, k      int
	live      bool
	reader    io.ReadCloser
	innerBody []byte
	innerOK   bool
	obj       *storage.Object
}
type c20Version struct {
	etag string
	size int64
	sum  string
}

type c20Env struct {
	buckets   []storage.BucketName
	inner, mw storage.Storage
	uploads   []c20Upload
	vids      []string // real version ids in creation order (the case line refers to them by ordinal)
	handles   []*c20Handle
	committed map[string][]c20Version
	fails     []string
	tags      map[string]bool
	opIdx     int
	strictKey bool
}

func (e *c20Env) fail(kind, detail string) {
	e.fails = append(e.fails, fmt.Sprintf("op%d:%s:%s", e.opIdx, kind, detail))
}

// compare every field of the object returned through the middleware with the inner storage's
// answer to the same call at the same moment. The Key field is compared only in strict mode
// (mode k0): the cached head is a JSON round trip of storage.Object and loses it (finding
// C20-cached-object-loses-key), which would otherwise mask every other difference.
func (e *c20Env) compare(what string, mw, inner *storage.Object) {
	a, b := strings.Split(c20Full(mw, true), " "), strings.Split(c20Full(inner, true), " ")
	var diff []string
	for i := range a {
		if i < len(b) && a[i] != b[i] {
			if strings.HasPrefix(a[i], "key=") {
				if e.strictKey {
					e.fail(what+"-key-lost", "mw{"+a[i]+"} inner{"+b[i]+"}")
				}
				continue
			}
			diff = append(diff, "mw{"+a[i]+"} inner{"+b[i]+"}")
		}
	}
	if len(diff) > 0 {
		e.fail(what+"-differs", strings.Join(diff, " "))
	}
}

// noteVid records a version id handed out by the storage (once, in creation order)
func (e *c20Env) noteVid(id *string) {
	if id == nil || *id == "null" || *id == "" {
		return
	}
	for _, v := range e.vids {
		if v == *id {
			return
		}
	}
	e.vids = append(e.vids, *id)
}

// vref decodes a version reference of the case line: N/"" none, n = "null", v<i> = i-th created id
func (e *c20Env) vref(t string) *string {
	switch {
	case t == "" || t == "N":
		return nil
	case t == "n":
		s := "null"
		return &s
	case t[0] == 'v':
		i := c20Atoi(t[1:])
		s := "00000000000000000000000000"
		if i >= 0 && i < len(e.vids) {
			s = e.vids[i]
		}
		return &s
	}
	return nil
}

// c20Faulty builds the body reader and checksum input of a put/append: flt 0 plain, 1 a correct
// Content-MD5 (ETag) is sent, 2 a wrong ETag, 3 a wrong SHA-256, 4 the reader fails half way.
type c20FailingReader struct {
	data []byte
	pos  int
}

func (r *c20FailingReader) Read(p []byte) (int, error) {
	if r.pos >= len(r.data) {
		return 0, errors.New("c20 reader failure")
	}
	n := copy(p, r.data[r.pos:])
	r.pos += n
	return n, nil
}

func c20Faulty(cid, flt int) (io.Reader, *storage.ChecksumInput) {
	body := c20Body(cid)
	switch flt {
	case 1:
		return strings.NewReader(string(body)), &storage.ChecksumInput{ETag: c20ETag("s" + strconv.Itoa(cid))}
	case 2:
		wrong := c20ETagQuote("00000000000000000000000000000000")
		return strings.NewReader(string(body)), &storage.ChecksumInput{ETag: &wrong}
	case 3:
		wrong := "AAAAAAAAAAAAAAAAAAAAAAAAAAAAAAAAAAAAAAAAAAA="
		return strings.NewReader(string(body)), &storage.ChecksumInput{ChecksumSHA256: &wrong}
	case 4:
		return &c20FailingReader{data: body[:len(body)/2]}, nil
	}
	return strings.NewReader(string(body)), nil
}

// c20Range: the byte range a single-range GetObject must return, written from the S3 range rules
// (suffix ranges, end clamped to the size); the harness only calls it after the call succeeded.
func c20Range(size int64, br storage.ByteRange) (int64, int64) {
	switch {
	case br.Start == nil && br.End == nil:
		return 0, size
	case br.Start == nil:
		n := *br.End
		if n > size {
			n = size
		}
		return size - n, n
	case br.End == nil:
		return *br.Start, size - *br.Start
	}
	end := *br.End
	if end > size {
		end = size
	}
	return *br.Start, end - *br.Start
}

func c20Sum(b []byte) string { s := md5.Sum(b); return hex.EncodeToString(s[:]) }

// record the version the inner storage currently exposes at (b,k) as committed
func (e *c20Env) recordCommitted(b, k int) {
	o, err := e.inner.HeadObject(c20Ctx, e.B(b), c20K(k), nil)
	if err != nil {
		return
	}
	var body []byte
	if _, rs, err := e.inner.GetObject(c20Ctx, e.B(b), c20K(k), nil, nil); err == nil {
		body, _ = c20ReadAll(rs)
	}
	key := fmt.Sprintf("%d/%d", b, k)
	e.committed[key] = append(e.committed[key], c20Version{o.ETag, o.Size, c20Sum(body)})
}

func (e *c20Env) checkCommitted(b, k int, o *storage.Object, body []byte) {
	if int64(len(body)) != o.Size {
		e.fail("body-size", fmt.Sprintf("size=%d len(body)=%d", o.Size, len(body)))
		return
	}
	for _, v := range e.committed[fmt.Sprintf("%d/%d", b, k)] {
		if v.etag == o.ETag && v.size == o.Size && v.sum == c20Sum(body) {
			return
		}
	}
	e.fail("body-etag", fmt.Sprintf("no committed version of %d/%d has etag=%s size=%d body=%s", b, k, o.ETag, o.Size, c20DecodeBody(body)))
}

func c20HeadOpts(im, inm string) *storage.HeadObjectOptions {
	if im == "N" && inm == "N" {
		return nil
	}
	return &storage.HeadObjectOptions{IfMatchETag: c20ETag(im), IfNoneMatchETag: c20ETag(inm)}
}
func c20GetOpts(im, inm string) *storage.GetObjectOptions {
	if im == "N" && inm == "N" {
		return nil
	}
	return &storage.GetObjectOptions{IfMatchETag: c20ETag(im), IfNoneMatchETag: c20ETag(inm)}
}

func (e *c20Env) pending(b, k int) bool {
	for _, h := range e.handles {
		if h.live && h.b == b && h.k == k {
			return true
		}
	}
	return false
}

func (e *c20Env) op(f []string) string {
	arg := func(i int) string {
		if i < len(f) {
			return f[i]
		}
		return ""
	}
	n := func(i int) int { return c20Atoi(arg(i)) }
	st := e.mw
	switch arg(0) {
	case "P", "A", "D", "X", "T", "U", "R", "MC", "H", "G", "GO", "V", "GR":
		// bucket 2 does not exist: PutObject is really called on it, every other call is answered
		// NoSuchBucket without a call (same rule as the model)
		if n(1) != 0 && n(1) != 1 && !(arg(0) == "P" && n(1) == 2) {
			if arg(0) == "GO" {
				e.handles = append(e.handles, &c20Handle{})
			}
			return "NoSuchBucket"
		}
	case "C":
		if (n(1) != 0 && n(1) != 1) || (n(3) != 0 && n(3) != 1) {
			return "NoSuchBucket"
		}
	}
	switch arg(0) {
	case "P":
		b, k, cid := n(1), n(2), n(3)
		opts := &storage.PutObjectOptions{Tags: c20Tags(n(6)), Metadata: c20Meta(n(5)), StorageClass: c20Class(n(7))}
		switch c := arg(8); c {
		case "N":
		case "S":
			opts.IfNoneMatchStar = true
		default:
			opts.IfMatchETag = c20ETag(c)
		}
		data, ck := c20Faulty(cid, n(9))
		pres, err := st.PutObject(c20Ctx, e.B(b), c20K(k), c20CType(n(4)), data, ck, opts)
		if err == nil {
			e.noteVid(pres.VersionID)
		}
		if b != 2 {
			e.recordCommitted(b, k)
		}
		return c20Err(err)
	case "A":
		b, k, cid := n(1), n(2), n(3)
		var opts *storage.AppendObjectOptions
		if arg(4) != "N" {
			off := int64(n(4))
			opts = &storage.AppendObjectOptions{WriteOffset: &off}
		}
		adata, ack := c20Faulty(cid, n(5))
		if n(5) >= 2 && opts != nil {
			return "BadOp"
		}
		_, err := st.AppendObject(c20Ctx, e.B(b), c20K(k), adata, ack, opts)
		if err == nil {
			// AppendObjectResult carries no version id: ask the inner storage directly
			if o, herr := e.inner.HeadObject(c20Ctx, e.B(b), c20K(k), nil); herr == nil {
				e.noteVid(o.VersionID)
			}
		}
		e.recordCommitted(b, k)
		return c20Err(err)
	case "C":
		sb, sk, db, dk := n(1), n(2), n(3), n(4)
		opts := &storage.CopyObjectOptions{ReplaceMetadata: n(5) == 1, ContentType: c20CType(n(6)), Metadata: c20Meta(n(7)),
			ReplaceTags: n(8) == 1, Tags: c20Tags(n(9)), StorageClass: c20Class(n(10))}
		cres, err := st.CopyObject(c20Ctx, e.B(sb), c20K(sk), e.B(db), c20K(dk), opts)
		if err == nil {
			e.noteVid(cres.VersionID)
		}
		e.recordCommitted(db, dk)
		return c20Err(err)
	case "D":
		b, k := n(1), n(2)
		var opts *storage.DeleteObjectOptions
		if arg(3) != "N" || e.vref(arg(4)) != nil {
			opts = &storage.DeleteObjectOptions{IfMatchETag: c20ETag(arg(3)), VersionID: e.vref(arg(4))}
		}
		dres, err := st.DeleteObject(c20Ctx, e.B(b), c20K(k), opts)
		if err == nil && dres != nil && dres.IsDeleteMarker && e.vref(arg(4)) == nil {
			e.noteVid(dres.VersionID)
		}
		e.recordCommitted(b, k)
		return c20Err(err)
	case "X":
		b := n(1)
		var entries []storage.DeleteObjectsInputEntry
		var ks []int
		for _, p := range f[2:] {
			kc := strings.Split(p, ":")
			if len(kc) != 2 && len(kc) != 3 {
				continue
			}
			k := c20Atoi(kc[0])
			ks = append(ks, k)
			en := storage.DeleteObjectsInputEntry{Key: c20K(k)}
			if kc[1] != "N" {
				en.IfMatchETag = c20ETag(kc[1])
			}
			if len(kc) == 3 {
				en.VersionID = e.vref(kc[2])
			}
			entries = append(entries, en)
		}
		res, err := st.DeleteObjects(c20Ctx, e.B(b), entries)
		for _, k := range ks {
			e.recordCommitted(b, k)
		}
		out := c20Err(err)
		if err == nil {
			out += "="
			for _, en := range res.Entries {
				e.noteVid(en.DeleteMarkerVersionID)
				switch {
				case en.Deleted:
					out += "d"
				case en.ErrCode == "PreconditionFailed":
					out += "p"
				default:
					out += "e"
				}
			}
		}
		return out
	case "T":
		b, k := n(1), n(2)
		var topts *storage.ObjectTaggingOptions
		if v := e.vref(arg(4)); v != nil {
			topts = &storage.ObjectTaggingOptions{VersionID: v}
		}
		err := st.PutObjectTagging(c20Ctx, e.B(b), c20K(k), c20Tags(n(3)), topts)
		e.recordCommitted(b, k)
		return c20Err(err)
	case "U":
		b, k := n(1), n(2)
		var topts *storage.ObjectTaggingOptions
		if v := e.vref(arg(3)); v != nil {
			topts = &storage.ObjectTaggingOptions{VersionID: v}
		}
		err := st.DeleteObjectTagging(c20Ctx, e.B(b), c20K(k), topts)
		e.recordCommitted(b, k)
		return c20Err(err)
	case "R":
		b, k := n(1), n(2)
		var opts *storage.TransitionObjectStorageClassOptions
		if arg(4) != "N" || e.vref(arg(5)) != nil {
			opts = &storage.TransitionObjectStorageClassOptions{IfMatchETag: c20ETag(arg(4)), VersionID: e.vref(arg(5))}
		}
		cls := c20Class(n(3))
		target := ""
		if cls != nil {
			target = *cls
		}
		err := st.TransitionObjectStorageClass(c20Ctx, e.B(b), c20K(k), target, opts)
		e.recordCommitted(b, k)
		return c20Err(err)
	case "MC":
		b, k := n(1), n(2)
		opts := &storage.CreateMultipartUploadOptions{Tags: c20Tags(n(5)), Metadata: c20Meta(n(4)), StorageClass: c20Class(n(6))}
		res, err := st.CreateMultipartUpload(c20Ctx, e.B(b), c20K(k), c20CType(n(3)), nil, opts)
		if err == nil {
			e.uploads = append(e.uploads, c20Upload{b, k, res.UploadId})
		}
		return c20Err(err)
	case "MP", "MF", "MA":
		u := n(1)
		if u < 0 || u >= len(e.uploads) {
			return "NoUpload"
		}
		up := e.uploads[u]
		var err error
		switch arg(0) {
		case "MP":
			_, err = st.UploadPart(c20Ctx, e.B(up.b), c20K(up.k), up.id, int32(n(2)), strings.NewReader(string(c20Body(n(3)))), nil)
		case "MF":
			var cres *storage.CompleteMultipartUploadResult
			cres, err = st.CompleteMultipartUpload(c20Ctx, e.B(up.b), c20K(up.k), up.id, nil, nil)
			if err == nil {
				e.noteVid(cres.VersionID)
			}
			e.recordCommitted(up.b, up.k)
		case "MA":
			err = st.AbortMultipartUpload(c20Ctx, e.B(up.b), c20K(up.k), up.id)
		}
		return c20Err(err)
	case "V":
		stt := storage.BucketVersioningStatusEnabled
		switch arg(2) {
		case "E":
		case "S":
			stt = storage.BucketVersioningStatusSuspended
		default:
			return "BadOp"
		}
		if len(f) != 3 {
			return "BadOp"
		}
		return c20Err(st.PutBucketVersioningConfiguration(c20Ctx, e.B(n(1)), &storage.BucketVersioningConfiguration{Status: &stt}))
	case "H":
		b, k := n(1), n(2)
		opts := c20HeadOpts(arg(3), arg(4))
		if v := e.vref(arg(5)); v != nil {
			if opts == nil {
				opts = &storage.HeadObjectOptions{}
			}
			opts.VersionID = v
		}
		io_, ierr := e.inner.HeadObject(c20Ctx, e.B(b), c20K(k), opts)
		o, err := st.HeadObject(c20Ctx, e.B(b), c20K(k), opts)
		if c20Err(ierr) != c20Err(err) {
			e.fail("head-status", "mw="+c20Err(err)+" inner="+c20Err(ierr))
		} else if err == nil {
			e.compare("head", o, io_)
		}
		if err != nil {
			return c20Err(err)
		}
		return "ok=" + c20Desc(o, nil, false)
	case "G", "GO":
		b, k := n(1), n(2)
		ver := e.vref(arg(5))
		if ver != nil && arg(0) == "GO" {
			return "BadOp"
		}
		if ver == nil && e.pending(b, k) {
			if arg(0) == "GO" {
				e.handles = append(e.handles, &c20Handle{b: b, k: k})
			}
			return "BLOCK"
		}
		opts := c20GetOpts(arg(3), arg(4))
		if ver != nil {
			if opts == nil {
				opts = &storage.GetObjectOptions{}
			}
			opts.VersionID = ver
		}
		io_, irs, ierr := e.inner.GetObject(c20Ctx, e.B(b), c20K(k), nil, opts)
		var ibody []byte
		if ierr == nil {
			ibody, _ = c20ReadAll(irs)
		}
		o, rs, err := st.GetObject(c20Ctx, e.B(b), c20K(k), nil, opts)
		if c20Err(ierr) != c20Err(err) {
			e.fail("get-status", "mw="+c20Err(err)+" inner="+c20Err(ierr))
		} else if err == nil {
			e.compare("get", o, io_)
		}
		if arg(0) == "GO" {
			h := &c20Handle{b: b, k: k}
			e.handles = append(e.handles, h)
			if err != nil {
				return c20Err(err)
			}
			if len(rs) != 1 {
				c20ReadAll(rs)
				return "Readers" + strconv.Itoa(len(rs))
			}
			h.live, h.reader, h.innerBody, h.innerOK, h.obj = true, rs[0], ibody, ierr == nil, o
			return "ok=" + c20Desc(o, nil, false)
		}
		if err != nil {
			return c20Err(err)
		}
		body, rerr := c20ReadAll(rs)
		if rerr != nil {
			return "ReadErr"
		}
		if ierr == nil && string(body) != string(ibody) {
			e.fail("get-body-differs", "mw="+c20DecodeBody(body)+" inner="+c20DecodeBody(ibody))
		}
		e.checkCommitted(b, k, o, body)
		return "ok=" + c20Desc(o, body, true)
	case "GR":
		// one byte range, optionally of a version: never served from the cache
		b, k := n(1), n(2)
		if len(f) != 6 {
			return "BadOp"
		}
		var br storage.ByteRange
		if arg(3) != "N" {
			v := int64(n(3))
			br.Start = &v
		}
		if arg(4) != "N" {
			v := int64(n(4))
			br.End = &v
		}
		var opts *storage.GetObjectOptions
		if v := e.vref(arg(5)); v != nil {
			opts = &storage.GetObjectOptions{VersionID: v}
		}
		io_, irs, ierr := e.inner.GetObject(c20Ctx, e.B(b), c20K(k), []storage.ByteRange{br}, opts)
		var ibody []byte
		if ierr == nil {
			ibody, _ = c20ReadAll(irs)
		}
		o, rs, err := st.GetObject(c20Ctx, e.B(b), c20K(k), []storage.ByteRange{br}, opts)
		if c20Err(ierr) != c20Err(err) {
			e.fail("range-status", "mw="+c20Err(err)+" inner="+c20Err(ierr))
		} else if err == nil {
			e.compare("range", o, io_)
		}
		if err != nil {
			return c20Err(err)
		}
		body, rerr := c20ReadAll(rs)
		if rerr != nil {
			return "ReadErr"
		}
		if ierr == nil && string(body) != string(ibody) {
			e.fail("range-body-differs", fmt.Sprintf("mw=%d bytes inner=%d bytes", len(body), len(ibody)))
		}
		// independent range arithmetic on the full body of the addressed object
		st0, ln := c20Range(o.Size, br)
		_, frs, ferr := e.inner.GetObject(c20Ctx, e.B(b), c20K(k), nil, opts)
		if ferr == nil {
			full, _ := c20ReadAll(frs)
			if st0 < 0 || st0+ln > int64(len(full)) || string(full[st0:st0+ln]) != string(body) {
				e.fail("range-bytes", fmt.Sprintf("range [%d,+%d) of a %d byte object: got %d bytes %s", st0, ln, len(full), len(body), c20DecodeBody(body)))
			}
		}
		return "ok=" + c20Desc(o, nil, false) + ":r" + strconv.FormatInt(st0, 10) + "." + strconv.FormatInt(ln, 10)
	case "GF", "GX":
		hi := n(1)
		if hi < 0 || hi >= len(e.handles) || !e.handles[hi].live {
			return "NoHandle"
		}
		h := e.handles[hi]
		h.live = false
		if arg(0) == "GX" {
			h.reader.Close() // closed before EOF: the streaming cache.Set fails
			return "ok"
		}
		body, rerr := c20ReadAll([]io.ReadCloser{h.reader})
		if rerr != nil {
			return "ReadErr"
		}
		if h.innerOK && string(body) != string(h.innerBody) {
			e.fail("get-body-differs", "mw="+c20DecodeBody(body)+" inner(at open)="+c20DecodeBody(h.innerBody))
		}
		e.checkCommitted(h.b, h.k, h.obj, body)
		return "ok=" + c20DecodeBody(body)
	}
	return "BadOp"
}

// Run executes the case under a watchdog: a call that never returns (e.g. a GET waiting for an
// in-flight fill that the same goroutine holds open) is an observable failure of the implementation,
// not a reason for the whole check to hang until the harness timeout.
func (p c20) Run(in string, scratch string) Result {
	done := make(chan Result, 1)
	go func() {
		defer func() {
			if e := recover(); e != nil {
				done <- Result{Out: "PANIC", Oracle: "FAIL:panic: " + fmt.Sprint(e), Tags: []string{"panic"}}
			}
		}()
		done <- p.run(in, scratch)
	}()
	select {
	case r := <-done:
		return r
	case <-time.After(c20CaseTimeout):
		return Result{Out: "TIMEOUT", Oracle: "FAIL:timeout: a storage call did not return within " + c20CaseTimeout.String(), Tags: []string{"timeout"}}
	}
}

const c20CaseTimeout = 60 * time.Second

func (c20) run(in string, scratch string) Result {
	toks := strings.SplitN(in, " ", 2)
	if len(toks) != 2 || (toks[0] != "c0" && toks[0] != "c1" && toks[0] != "k0") {
		return Result{Out: "PARSE-ERROR", Tags: []string{"invalid"}}
	}
	pe, err := c20Acquire(scratch)
	if err != nil {
		return Result{Out: "SETUP-ERROR " + err.Error(), Oracle: "FAIL:setup " + err.Error()}
	}
	defer c20Release(pe)
	inner := pe.inner
	var cache cachepkg.Cache
	if toks[0] != "c1" {
		cache = &c20Cache{data: map[string][]byte{}}
	} else {
		p, _ := inmemory.New()
		ev, _ := evictnothing.New()
		cache, err = cachepkg.NewGenericCache(p, ev)
		if err != nil {
			return Result{Out: "SETUP-ERROR " + err.Error(), Oracle: "FAIL:setup " + err.Error()}
		}
	}
	mw, err := objectcache.NewStorageMiddleware(inner, cache, objectcache.Options{MaxObjectSizeBytes: c20MaxCached})
	if err != nil {
		return Result{Out: "SETUP-ERROR " + err.Error(), Oracle: "FAIL:setup " + err.Error()}
	}
	// fresh buckets for this case inside the pooled storage: <prefix>-plain (unversioned), <prefix>-vers (versioning enabled)
	c20PoolMu.Lock()
	c20CaseSeq++
	pe.cases = c20CaseSeq
	c20PoolMu.Unlock()
	bn := []storage.BucketName{storage.MustNewBucketName(fmt.Sprintf("c%d-%d-plain", os.Getpid(), pe.cases)), storage.MustNewBucketName(fmt.Sprintf("c%d-%d-vers", os.Getpid(), pe.cases))}
	for _, b := range bn {
		if err = inner.CreateBucket(c20Ctx, b); err != nil {
			return Result{Out: "SETUP-ERROR " + err.Error(), Oracle: "FAIL:setup " + err.Error()}
		}
	}
	en := storage.BucketVersioningStatusEnabled
	if err = inner.PutBucketVersioningConfiguration(c20Ctx, bn[1], &storage.BucketVersioningConfiguration{Status: &en}); err != nil {
		return Result{Out: "SETUP-ERROR " + err.Error(), Oracle: "FAIL:setup " + err.Error()}
	}
	e := &c20Env{buckets: bn, inner: inner, mw: mw, committed: map[string][]c20Version{}, tags: map[string]bool{}, strictKey: toks[0] == "k0"}
	var outs []string
	ops := strings.Split(toks[1], ";")
	for i, o := range ops {
		e.opIdx = i
		f := strings.Split(o, ",")
		if toks[0] == "c1" && (f[0] == "GO" || f[0] == "GF" || f[0] == "GX") {
			outs = append(outs, "BadOp")
			continue
		}
		r := e.op(f)
		outs = append(outs, r)
		e.tags["op:"+f[0]] = true
		if strings.HasPrefix(r, "ok") {
			e.tags["ok:"+f[0]] = true
		}
	}
	for _, h := range e.handles {
		if h.live {
			h.reader.Close()
		}
	}
	res := Result{Out: strings.Join(outs, " "), Oracle: "OK"}
	if len(e.fails) > 0 {
		res.Oracle = "FAIL:" + strings.Join(e.fails, " || ")
		if len(res.Oracle) > 1500 {
			res.Oracle = res.Oracle[:1500]
		}
	}
	res.Tags = c20TagsOf(toks[0], ops, e.tags)
	return res
}

// tags: classification + known-finding tags computed from the INPUT alone
func c20TagsOf(mode string, ops []string, seen map[string]bool) []string {
	tags := []string{"mode:" + mode}
	has := map[string]bool{}
	for _, o := range ops {
		f := strings.Split(o, ",")
		has[f[0]] = true
		if f[0] != "GF" && f[0] != "GX" && f[0] != "MP" && f[0] != "MF" && f[0] != "MA" {
			for _, x := range f[1:] {
				if x == "n" || strings.HasSuffix(x, ":n") || (len(x) > 1 && x[0] == 'v') || strings.Contains(x, ":v") {
					has["vid"] = true
				}
			}
		}
		if (f[0] == "P" || f[0] == "A" || f[0] == "MP") && len(f) > 3 && f[3] == "0" {
			has["empty"] = true
		}
	}
	for _, k := range []string{"R", "A", "C", "X", "MF", "GO", "T", "empty", "V", "vid"} {
		if has[k] {
			tags = append(tags, "has:"+k)
		}
	}
	for _, k := range []string{"ok:R", "ok:A", "ok:C", "ok:MF", "ok:D", "ok:X", "ok:T", "ok:U", "ok:GO"} {
		if seen[k] {
			tags = append(tags, k)
		}
	}
	if mode == "k0" {
		tags = append(tags, "kf:C20-cached-object-loses-key")
	}
	if has["GO"] {
		tags = append(tags, "kf:C20-fill-races-put")
	}
	if len(ops) < 3 {
		tags = append(tags, "short")
	}
	return tags
}


// ---- generator ----
type c20Gen struct {
	r                     *Rng
	allowR, allowGO, allow0 bool
	uploads               int
	handles               int
	open                  []int // handle ordinals not yet finished
	ops                   []string
	vers                  bool   // generate version ids / versioning toggles
	vidEst                int    // upper bound of the version ids created so far
	vstate                [2]int // 0 unset, 1 enabled, 2 suspended (bucket 1 starts enabled)
}

func (g *c20Gen) cid() int {
	if g.allow0 && g.r.Chance(12) {
		return 0
	}
	x := g.r.Intn(100)
	switch {
	case x < 34:
		return 3
	case x < 62:
		return 4
	case x < 70:
		return 1
	case x < 76:
		return 2
	case x < 82:
		return 5
	case x < 88:
		return 6
	case x < 94:
		return 7
	case x < 96:
		return 8
	case x < 98:
		return 9
	}
	return 3
}
func (g *c20Gen) small() int { return g.r.Intn(3) }
func (g *c20Gen) etag() string {
	c := []int{3, 4, 3, 4, 1, 6, 7}
	if g.r.Chance(65) {
		return "s" + strconv.Itoa(c[g.r.Intn(len(c))])
	}
	n := 1 + g.r.Intn(2)
	parts := make([]string, n)
	for i := range parts {
		parts[i] = strconv.Itoa(c[g.r.Intn(5)])
	}
	return "m" + strings.Join(parts, ".")
}
func (g *c20Gen) cond(p int) string {
	if !g.r.Chance(p) {
		return "N"
	}
	if g.r.Chance(15) {
		return "*"
	}
	return g.etag()
}
func (g *c20Gen) bk() (int, int) {
	b := 0
	if g.r.Chance(30) {
		b = 1
	}
	k := g.r.Intn(3)
	if g.r.Chance(55) {
		k = 0
	}
	return b, k
}
// a version reference: mostly none; otherwise biased to the most recently created ids (likely current)
func (g *c20Gen) vr(p int) string {
	if !g.vers || !g.r.Chance(p) {
		return "N"
	}
	x := g.r.Intn(100)
	switch {
	case x < 18:
		return "n"
	case x < 24:
		return "v" + strconv.Itoa(g.vidEst+g.r.Intn(3))
	case g.vidEst == 0:
		return "v0"
	case x < 75:
		return "v" + strconv.Itoa(g.vidEst-1-g.r.Intn(min(g.vidEst, 3)))
	}
	return "v" + strconv.Itoa(g.r.Intn(g.vidEst))
}
func (g *c20Gen) mayAlloc(b int) {
	if g.vstate[b] == 1 {
		g.vidEst++
	}
}
func (g *c20Gen) add(format string, a ...interface{}) { g.ops = append(g.ops, fmt.Sprintf(format, a...)) }
func (g *c20Gen) rng() (string, string) {
	st := []string{"N", "N", "0", "1", "5", "60", "64", "100", "4095"}[g.r.Intn(9)]
	en := []string{"N", "N", "0", "1", "3", "7", "64", "999", "4096"}[g.r.Intn(9)]
	return st, en
}
func (g *c20Gen) ranged(b, k int, vr string) {
	st, en := g.rng()
	g.add("GR,%d,%d,%s,%s,%s", b, k, st, en, vr)
}
func (g *c20Gen) read(b, k int) {
	x := g.r.Intn(100)
	if g.r.Chance(10) {
		g.ranged(b, k, g.vr(25))
		return
	}
	switch {
	case x < 40:
		g.add("H,%d,%d,%s,%s,%s", b, k, g.cond(15), g.cond(12), g.vr(12))
	case x < 85 || !g.allowGO:
		g.add("G,%d,%d,%s,%s,%s", b, k, g.cond(15), g.cond(12), g.vr(12))
	default:
		g.add("GO,%d,%d,%s,%s", b, k, g.cond(8), g.cond(6))
		g.open = append(g.open, g.handles)
		g.handles++
	}
}
func (g *c20Gen) toggle(b int) {
	if g.vstate[b] == 1 || (g.vstate[b] == 0 && g.r.Chance(40)) {
		g.add("V,%d,S", b)
		g.vstate[b] = 2
	} else {
		g.add("V,%d,E", b)
		g.vstate[b] = 1
	}
}

// scripted openings: cache the current version, then remove / replace / change it by id
func (g *c20Gen) scenario() {
	b := 1
	if g.r.Chance(35) {
		b = 0
		g.add("V,0,E")
		g.vstate[0] = 1
	}
	k := g.r.Intn(3)
	n := 1 + g.r.Intn(3)
	for i := 0; i < n; i++ {
		g.add("P,%d,%d,%d,%d,%d,%d,%d,N", b, k, g.cid(), g.small(), g.small(), g.small(), g.r.Intn(4))
		g.vidEst++
	}
	if g.r.Chance(30) {
		g.add("D,%d,%d,N,N", b, k)
		g.vidEst++
	}
	if g.r.Chance(25) {
		g.toggle(b)
		if g.r.Chance(60) {
			g.add("P,%d,%d,%d,0,0,0,0,N", b, k, g.cid())
		}
	}
	g.read(b, k)
	if g.r.Chance(50) {
		g.add("H,%d,%d,N,N,N", b, k)
	}
	cur := "v" + strconv.Itoa(g.vidEst-1)
	if g.r.Chance(15) {
		cur = "n"
	}
	switch g.r.Intn(6) {
	case 0, 1:
		g.add("D,%d,%d,N,%s", b, k, cur)
	case 2:
		g.add("X,%d,%d:N:%s", b, k, cur)
	case 3:
		g.add("T,%d,%d,%d,%s", b, k, 1+g.r.Intn(2), cur)
	case 4:
		if g.allowR {
			g.add("R,%d,%d,%d,N,%s", b, k, 1+g.r.Intn(3), cur)
		} else {
			g.add("U,%d,%d,%s", b, k, cur)
		}
	default:
		g.add("X,%d,%d:N:%s,%d:N:N", b, (k+1)%3, cur, k)
		if g.vstate[b] != 0 {
			g.vidEst++
		}
	}
	g.add("G,%d,%d,N,N,N", b, k)
	g.add("H,%d,%d,N,N,N", b, k)
}

// small bodies (under the cache threshold) that differ from each other
func (g *c20Gen) smallCid(not int) int {
	for {
		c := []int{1, 2, 3, 4, 5, 6, 9}[g.r.Intn(7)]
		if c != not {
			return c
		}
	}
}

// scripted opening: a key is written, its head and/or body entry warmed, then writes follow that the
// inner storage rejects only after (or while) consuming the whole body; afterwards plain, ranged and
// versioned reads
func (g *c20Gen) rejectedScenario() {
	b := g.r.Intn(2)
	k := g.r.Intn(3)
	c0 := g.smallCid(-1)
	g.add("P,%d,%d,%d,%d,%d,%d,%d,N", b, k, c0, g.small(), g.small(), g.small(), g.r.Intn(4))
	g.mayAlloc(b)
	switch g.r.Intn(4) { // which entries are warm: put warms both; otherwise re-warm selectively
	case 0:
	case 1:
		g.add("T,%d,%d,%d,N", b, k, g.small())
		g.add("H,%d,%d,N,N,N", b, k)
	case 2:
		g.add("T,%d,%d,%d,N", b, k, g.small())
		g.add("G,%d,%d,N,N,N", b, k)
	default:
		g.add("T,%d,%d,%d,N", b, k, g.small())
	}
	for i := 0; i <= g.r.Intn(3); i++ {
		c1 := g.smallCid(c0)
		switch g.r.Intn(9) {
		case 0, 1:
			g.add("P,%d,%d,%d,%d,%d,%d,%d,S,0", b, k, c1, g.small(), g.small(), g.small(), g.r.Intn(4))
		case 2:
			g.add("P,%d,%d,%d,0,0,0,0,s%d,%d", b, k, c1, c1, g.r.Intn(2))
		case 3, 4:
			g.add("P,%d,%d,%d,%d,%d,%d,%d,N,%d", b, k, c1, g.small(), g.small(), g.small(), g.r.Intn(4), 2+g.r.Intn(2))
		case 5:
			g.add("P,%d,%d,%d,0,0,0,0,N,4", b, k, c1)
		case 6:
			g.add("A,%d,%d,%d,N,%d", b, k, c1, 2+g.r.Intn(3))
		case 7:
			g.add("C,%d,%d,%d,%d,0,0,0,0,0,0", b, (k+1)%3, b, k) // source usually missing: rejected copy onto the warm key
		default:
			g.add("P,2,%d,%d,0,0,0,0,N,%d", k, c1, []int{0, 0, 2, 4}[g.r.Intn(4)])
		}
		if g.r.Chance(50) {
			g.read(b, k)
		}
	}
	g.add("G,%d,%d,N,N,N", b, k)
	g.add("H,%d,%d,N,N,N", b, k)
	g.ranged(b, k, "N")
	if g.vers {
		g.add("G,%d,%d,N,N,%s", b, k, g.vr(100))
	}
}

// scripted opening: the null version is not the current one (written while unversioned or Suspended,
// then Enabled + a newer put / copy / multipart object), or it is current while older id-carrying
// versions exist; reads by "null" interleaved with key-only reads that warm the cache
func (g *c20Gen) nullScenario() {
	b := 0
	k := g.r.Intn(3)
	if g.r.Chance(40) {
		g.add("V,0,S")
		g.vstate[0] = 2
	}
	g.add("P,0,%d,%d,%d,%d,%d,%d,N", k, g.smallCid(-1), g.small(), g.small(), g.small(), g.r.Intn(4))
	if g.r.Chance(50) {
		g.add("G,0,%d,N,N,N", k)
	}
	g.add("V,0,E")
	g.vstate[0] = 1
	switch g.r.Intn(4) {
	case 0, 1:
		g.add("P,0,%d,%d,%d,%d,%d,%d,N", k, g.smallCid(-1), g.small(), g.small(), g.small(), g.r.Intn(4))
		g.vidEst++
	case 2:
		g.add("P,0,%d,%d,0,0,0,0,N", (k+1)%3, g.smallCid(-1))
		g.vidEst++
		g.add("C,0,%d,0,%d,0,0,0,0,0,0", (k+1)%3, k)
		g.vidEst++
	default:
		u := g.uploads
		g.uploads++
		g.add("MC,0,%d,%d,%d,%d,%d", k, g.small(), g.small(), g.small(), g.r.Intn(4))
		g.add("MP,%d,1,%d", u, g.smallCid(-1))
		g.add("MF,%d", u)
		g.vidEst++
	}
	reads := func() {
		for i := 0; i < 2+g.r.Intn(3); i++ {
			switch g.r.Intn(6) {
			case 0:
				g.add("H,0,%d,N,N,n", k)
			case 1:
				g.add("G,0,%d,N,N,n", k)
			case 2:
				g.ranged(0, k, "n")
			case 3:
				g.add("G,0,%d,N,N,N", k)
			case 4:
				g.add("H,0,%d,N,N,N", k)
			default:
				g.add("G,0,%d,N,N,v%d", k, max(g.vidEst-1, 0))
			}
		}
		g.add("G,0,%d,N,N,N", k)
		g.add("H,0,%d,N,N,N", k)
	}
	reads()
	if g.r.Chance(55) {
		// the reverse: null becomes current again while the id-carrying versions stay
		g.add("V,0,S")
		g.vstate[0] = 2
		g.add("P,0,%d,%d,0,0,0,0,N", k, g.smallCid(-1))
		reads()
	}
	_ = b
}

func (g *c20Gen) step() {
	b, k := g.bk()
	if g.vers && g.r.Chance(4) {
		g.toggle(b)
		return
	}
	x := g.r.Intn(100)
	switch {
	case x < 22:
		c := "N"
		if g.r.Chance(25) {
			if g.r.Chance(40) {
				c = "S"
			} else {
				c = g.cond(100)
			}
		}
		flt := 0
		if g.r.Chance(14) {
			flt = 1 + g.r.Intn(4)
		}
		pb := b
		if g.r.Chance(2) {
			pb = 2 // a bucket that does not exist
		}
		g.add("P,%d,%d,%d,%d,%d,%d,%d,%s,%d", pb, k, g.cid(), g.small(), g.small(), g.small(), g.r.Intn(4), c, flt)
		if flt < 2 && pb != 2 {
			g.mayAlloc(b)
		}
	case x < 30:
		off := "N"
		if g.r.Chance(35) {
			off = strconv.Itoa([]int{0, 7, 64, 8, 71, 14, 1}[g.r.Intn(7)])
		}
		if off == "N" && g.r.Chance(15) {
			g.add("A,%d,%d,%d,N,%d", b, k, g.cid(), 1+g.r.Intn(4))
		} else {
			g.add("A,%d,%d,%d,%s", b, k, g.cid(), off)
		}
		g.mayAlloc(b)
	case x < 38:
		sb, sk := g.bk()
		g.add("C,%d,%d,%d,%d,%d,%d,%d,%d,%d,%d", sb, sk, b, k, g.r.Intn(2), g.small(), g.small(), g.r.Intn(2), g.small(), g.r.Intn(4))
		g.mayAlloc(b)
	case x < 46:
		v := g.vr(40)
		g.add("D,%d,%d,%s,%s", b, k, g.cond(25), v)
		if v == "N" && g.vstate[b] != 0 {
			g.vidEst++
		}
	case x < 51:
		n := 1 + g.r.Intn(3)
		es := make([]string, n)
		for i := range es {
			v := g.vr(35)
			es[i] = fmt.Sprintf("%d:%s:%s", g.r.Intn(3), g.cond(30), v)
			if v == "N" && g.vstate[b] != 0 {
				g.vidEst++
			}
		}
		g.add("X,%d,%s", b, strings.Join(es, ","))
	case x < 57:
		g.add("T,%d,%d,%d,%s", b, k, g.small(), g.vr(35))
	case x < 60:
		g.add("U,%d,%d,%s", b, k, g.vr(35))
	case x < 68:
		if g.allowR {
			cls := 1 + g.r.Intn(3)
			if g.r.Chance(8) {
				cls = []int{0, 4, 9}[g.r.Intn(3)]
			}
			g.add("R,%d,%d,%d,%s,%s", b, k, cls, g.cond(20), g.vr(35))
		} else {
			g.read(b, k)
		}
	case x < 73:
		g.add("MC,%d,%d,%d,%d,%d,%d", b, k, g.small(), g.small(), g.small(), g.r.Intn(4))
		u := g.uploads
		g.uploads++
		for i := 0; i <= g.r.Intn(3); i++ {
			g.add("MP,%d,%d,%d", u, 1+g.r.Intn(3), g.cid())
		}
		if g.r.Chance(70) {
			if g.r.Chance(30) {
				g.read(b, k)
			}
			g.add("MF,%d", u)
			g.mayAlloc(b)
		}
	case x < 77:
		if g.uploads > 0 || g.r.Chance(20) {
			u := g.r.Intn(g.uploads + 1)
			switch g.r.Intn(3) {
			case 0:
				g.add("MP,%d,%d,%d", u, 1+g.r.Intn(3), g.cid())
			case 1:
				g.add("MF,%d", u)
			default:
				g.add("MA,%d", u)
			}
		}
	case x < 83:
		if len(g.open) > 0 {
			i := g.r.Intn(len(g.open))
			h := g.open[i]
			g.open = append(g.open[:i], g.open[i+1:]...)
			if g.r.Chance(80) {
				g.add("GF,%d", h)
			} else {
				g.add("GX,%d", h)
			}
		} else {
			g.read(b, k)
		}
	default:
		g.read(b, k)
	}
	if len(g.ops) == 0 {
		return
	}
	last := g.ops[len(g.ops)-1]
	if last[0] != 'H' && last[0] != 'G' && g.r.Chance(55) {
		g.read(b, k)
	}
}

func (c20) Gen(r *Rng, tier string, n int) []string {
	out := make([]string, 0, n)
	for i := 0; i < n; i++ {
		g := &c20Gen{r: r.Fork()}
		g.vstate[1] = 1
		mode := "c0"
		x := g.r.Intn(100)
		switch {
		case x < 40: // clean, cache double
		case x < 58: // clean, real GenericCache
			mode = "c1"
		case x < 72:
			g.allowR = true
		case x < 87:
			g.allowGO = true
		case x < 92:
			g.allow0 = true
		case x < 96:
			mode = "k0"
		default:
			g.allowR, g.allowGO, g.allow0 = true, true, true
		}
		// two thirds of the histories use version ids, versioning toggles and a scripted opening
		g.vers = g.r.Chance(66)
		switch y := g.r.Intn(100); {
		case y < 28:
			g.rejectedScenario()
		case y < 46 && g.vers:
			g.nullScenario()
		case y < 80 && g.vers:
			g.scenario()
		}
		steps := 6 + g.r.Intn(22)
		for j := 0; j < steps; j++ {
			g.step()
		}
		for _, h := range g.open {
			g.add("GF,%d", h)
		}
		for b := 0; b < 2; b++ {
			for k := 0; k < 3; k++ {
				g.add("H,%d,%d,N,N", b, k)
				g.add("G,%d,%d,N,N", b, k)
			}
		}
		out = append(out, mode+" "+strings.Join(g.ops, ";"))
	}
	return out
}
var _ = os.Getenv
