//go:build verif

package main

// C14 — storage-class transitions preserve objects and route data.
//
// Case line (see coq/Model/Transition.v):  h <tok> <tok> ...
//   M=hexclass.store,...   (re)open the storage on the same database and directories with this
//                          class -> store mapping (stores: 0 default, 1 "s1", 2 "s2"); M=_ = no mapping
//   P:b:k:cls:cont:meta:tags   PutObject (cls = N | hex class; cont = content id; meta/tags = ids, 0 = none)
//   A:b:k:cont                 AppendObject
//   C:sb:sk:sv:db:dk:cls       CopyObject
//   T:b:k:v:hexcls             TransitionObjectStorageClass
//   D:b:k:v                    DeleteObject (unversioned key / one version of the versioned bucket)
//   R:b:k:v                    read: class|content ids|meta|tags|store of every part
//   N                          number of distinct contents held per store
//   S                          sweep: R of every key and version + N
// b = 0 unversioned bucket | 1 versioning-enabled bucket; v = L | version ordinal.

import (
	"bytes"
	"context"
	"fmt"
	"io"
	"log/slog"
	"os"
	"path/filepath"
	"strconv"
	"strings"
	"sync"

	"github.com/jdillenkofer/pithos/internal/storage"
	"github.com/jdillenkofer/pithos/internal/storage/database"
	repositoryFactory "github.com/jdillenkofer/pithos/internal/storage/database/repository"
	"github.com/jdillenkofer/pithos/internal/storage/database/sqlite"
	"github.com/jdillenkofer/pithos/internal/storage/metadatapart"
	"github.com/jdillenkofer/pithos/internal/storage/metadatapart/metadatastore"
	sqlMetadataStore "github.com/jdillenkofer/pithos/internal/storage/metadatapart/metadatastore/sql"
	"github.com/jdillenkofer/pithos/internal/storage/metadatapart/partstore"
	filesystemPartStore "github.com/jdillenkofer/pithos/internal/storage/metadatapart/partstore/filesystem"
)

type c14 struct{}

func init() { register("C14", c14{}) }

func (c14) Parallel() bool { return true }

var c14StoreNames = []string{"default", "s1", "s2"}
var c14Ctx = context.Background()

type c14Pooled struct {
	dir string
	db  database.Database
}

// a metadata store can be started only once, so every (re)opened storage gets its own
func c14NewMetadataStore(db database.Database) (metadatastore.MetadataStore, error) {
	bucketRepository, err := repositoryFactory.NewBucketRepository(db)
	if err != nil {
		return nil, err
	}
	objectRepository, err := repositoryFactory.NewObjectRepository(db)
	if err != nil {
		return nil, err
	}
	partRepository, err := repositoryFactory.NewPartRepository(db)
	if err != nil {
		return nil, err
	}
	tagRepository, err := repositoryFactory.NewTagRepository(db)
	if err != nil {
		return nil, err
	}
	userMetadataRepository, err := repositoryFactory.NewUserMetadataRepository(db)
	if err != nil {
		return nil, err
	}
	return sqlMetadataStore.New(db, bucketRepository, objectRepository, partRepository, tagRepository, userMetadataRepository)
}

var c14PoolMu sync.Mutex
var c14Pool []*c14Pooled
var c14PoolN, c14CaseSeq int
var c14Quiet sync.Once

func c14Acquire(scratch string) (*c14Pooled, error) {
	c14Quiet.Do(func() { slog.SetDefault(slog.New(slog.NewTextHandler(io.Discard, nil))) })
	c14PoolMu.Lock()
	if n := len(c14Pool); n > 0 {
		pe := c14Pool[n-1]
		c14Pool = c14Pool[:n-1]
		c14PoolMu.Unlock()
		return pe, nil
	}
	c14PoolN++
	id := c14PoolN
	c14PoolMu.Unlock()
	dir := filepath.Join(filepath.Dir(scratch), fmt.Sprintf("c14-pool-%d", id))
	if err := os.MkdirAll(dir, 0o755); err != nil {
		return nil, err
	}
	db, err := sqlite.OpenDatabase(filepath.Join(dir, "pithos.db"))
	if err != nil {
		return nil, err
	}
	return &c14Pooled{dir: dir, db: db}, nil
}
func c14Release(pe *c14Pooled) {
	c14PoolMu.Lock()
	c14Pool = append(c14Pool, pe)
	c14PoolMu.Unlock()
}

type c14Ver struct {
	b, k int
	id   string
}
type c14Env struct {
	pe      *c14Pooled
	seq     int
	st      storage.Storage
	stores  []partstore.PartStore
	mapping map[string]int // class -> store index (the oracle's own copy of the configuration)
	base    [3]int
	buckets [2]string
	vers    []c14Ver
	orc     *c14Oracle
	tags    map[string]bool
}

// (re)opens the storage over the same database and part directories with a class -> store mapping
func (e *c14Env) open(mapping map[string]int) error {
	if e.st != nil {
		if err := e.st.Stop(c14Ctx); err != nil {
			return err
		}
		e.st = nil
	}
	e.stores = nil
	for _, n := range c14StoreNames {
		ps, err := filesystemPartStore.New(filepath.Join(e.pe.dir, "parts-"+n))
		if err != nil {
			return err
		}
		e.stores = append(e.stores, ps)
	}
	m := map[string]string{}
	for c, i := range mapping {
		m[c] = c14StoreNames[i]
	}
	ms, err := c14NewMetadataStore(e.pe.db)
	if err != nil {
		return err
	}
	st, err := metadatapart.NewStorageWithNamedPartStores(e.pe.db, ms, e.stores[0],
		map[string]partstore.PartStore{"s1": e.stores[1], "s2": e.stores[2]}, m)
	if err != nil {
		return err
	}
	if err := st.Start(c14Ctx); err != nil {
		return err
	}
	e.st = st
	e.mapping = mapping
	return nil
}

func (e *c14Env) partIDs(i int) (map[string]bool, error) {
	ids, err := e.stores[i].GetPartIds(c14Ctx, nil)
	if err != nil {
		return nil, err
	}
	m := map[string]bool{}
	for _, id := range ids {
		m[id.String()] = true
	}
	return m, nil
}
// number of distinct contents of THIS case each store holds (see Model/Transition.v count_store)
func (e *c14Env) rawCounts() ([3]int, error) {
	var c [3]int
	prefix := []byte(fmt.Sprintf("<%d.%d:", os.Getpid(), e.seq))
	for i := range e.stores {
		ids, err := e.stores[i].GetPartIds(c14Ctx, nil)
		if err != nil {
			return c, err
		}
		seen := map[string]bool{}
		for _, id := range ids {
			r, err := e.stores[i].GetPart(c14Ctx, nil, id)
			if err != nil {
				continue // deleted meanwhile by another worker's case? pools are exclusive, so: not ours
			}
			b, _ := io.ReadAll(r)
			r.Close()
			if bytes.HasPrefix(b, prefix) {
				seen[string(b)] = true
			}
		}
		c[i] = len(seen)
	}
	return c, nil
}

func (e *c14Env) content(c int) []byte {
	// unique per process and case: the pooled database must never deduplicate across cases or runs
	return []byte(fmt.Sprintf("<%d.%d:%d>%s", os.Getpid(), e.seq, c, strings.Repeat("x", (c%7)*5)))
}
func (e *c14Env) decode(body []byte) string {
	if len(body) == 0 {
		return "-"
	}
	var out []string
	for _, ch := range strings.Split(string(body), "<")[1:] {
		i := strings.IndexByte(ch, '>')
		if i < 0 {
			return "?"
		}
		f := strings.Split(ch[:i], ":")
		if len(f) != 2 || f[0] != strconv.Itoa(os.Getpid())+"."+strconv.Itoa(e.seq) {
			return "?"
		}
		c, err := strconv.Atoi(f[1])
		if err != nil || string(e.content(c)) != "<"+ch {
			return "?"
		}
		out = append(out, f[1])
	}
	if !bytes.HasPrefix(body, []byte("<")) {
		return "?"
	}
	return strings.Join(out, ".")
}

func (e *c14Env) bucket(b int) storage.BucketName { return storage.MustNewBucketName(e.buckets[b]) }
func c14Key(k int) storage.ObjectKey               { return storage.MustNewObjectKey(c11Keys[k]) }

func (e *c14Env) ver(b, k int, v string) (vid *string, known bool) {
	if v == "L" {
		return nil, true
	}
	n, err := strconv.Atoi(v)
	if err != nil || n < 0 || n >= len(e.vers) || e.vers[n].b != b || e.vers[n].k != k || e.vers[n].id == "" {
		return nil, false
	}
	s := e.vers[n].id
	return &s, true
}
func (e *c14Env) noteVersion(b, k int) {
	if b != 1 {
		return
	}
	o, err := e.st.HeadObject(c14Ctx, e.bucket(b), c14Key(k), nil)
	vid := ""
	if err == nil && o.VersionID != nil {
		vid = *o.VersionID
	}
	e.vers = append(e.vers, c14Ver{b, k, vid})
}

func c14ErrName(err error) string {
	if err == nil {
		return "ok"
	}
	switch err {
	case storage.ErrNoSuchKey:
		return "NoSuchKey"
	case storage.ErrNoSuchBucket:
		return "NoSuchBucket"
	case storage.ErrInvalidStorageClass:
		return "InvalidStorageClass"
	case storage.ErrPreconditionFailed:
		return "PreconditionFailed"
	}
	return "Err(" + strings.ReplaceAll(err.Error(), " ", "_") + ")"
}

type c14Obs struct {
	class, content, meta, tags, stores string
	etag, vid                        string
	size                             int64
	partsOK                          string // "" or why a part row does not point at stored bytes
}

func (o *c14Obs) String() string {
	return strings.Join([]string{tokBytes(o.class), o.content, o.meta, o.tags, o.stores}, "|")
}

func c14ID(m map[string]string, key string) string {
	if len(m) == 0 {
		return "0"
	}
	if v, ok := m[key]; ok && len(m) == 1 {
		return v
	}
	return "?"
}

func (e *c14Env) read(b, k int, v string) (*c14Obs, string) {
	vid, known := e.ver(b, k, v)
	if !known {
		return nil, "NoSuchVersion"
	}
	var opts *storage.GetObjectOptions
	if vid != nil {
		opts = &storage.GetObjectOptions{VersionID: vid}
	}
	obj, rs, err := e.st.GetObject(c14Ctx, e.bucket(b), c14Key(k), nil, opts)
	if err != nil {
		return nil, c14ErrName(err)
	}
	body, rerr := c20ReadAllC14(rs)
	if rerr != nil {
		return nil, "Unreadable"
	}
	o := &c14Obs{class: storage.EffectiveStorageClass(obj.StorageClass), content: e.decode(body), etag: obj.ETag, size: obj.Size}
	if obj.VersionID != nil {
		o.vid = *obj.VersionID
	}
	if int64(len(body)) != obj.Size {
		o.partsOK = "size " + strconv.FormatInt(obj.Size, 10) + " but body of " + strconv.Itoa(len(body)) + " bytes"
	}
	o.meta = c14ID(obj.Metadata.UserMetadata, "m")
	o.tags = c14ID(obj.Tags, "t")
	parts, perr := metadatapart.VerifC14Parts(c14Ctx, e.st, e.bucket(b), c14Key(k), vid)
	if perr != nil {
		return nil, "PartsErr(" + perr.Error() + ")"
	}
	var ss []string
	for _, p := range parts {
		idx := -1
		for i, n := range c14StoreNames {
			if n == p.Store {
				idx = i
			}
		}
		ss = append(ss, strconv.Itoa(idx))
		if idx >= 0 {
			ids, err := e.partIDs(idx)
			if err != nil || !ids[p.Id.String()] {
				o.partsOK = "part " + p.Id.String() + " is not in store " + p.Store
			}
		}
	}
	o.stores = "-"
	if len(ss) > 0 {
		o.stores = strings.Join(ss, ".")
	}
	return o, ""
}

func c20ReadAllC14(rs []io.ReadCloser) ([]byte, error) {
	var buf bytes.Buffer
	var first error
	for _, r := range rs {
		if _, err := io.Copy(&buf, r); err != nil && first == nil {
			first = err
		}
		if err := r.Close(); err != nil && first == nil {
			first = err
		}
	}
	return buf.Bytes(), first
}

func c14Cls(t string) (*string, bool) {
	if t == "N" {
		return nil, true
	}
	s, ok := c11Unhex(t)
	if !ok {
		return nil, false
	}
	return &s, true
}

func (e *c14Env) counts() string {
	c, err := e.rawCounts()
	if err != nil {
		return "CountErr"
	}
	return fmt.Sprintf("%d,%d,%d", c[0], c[1], c[2])
}

func (e *c14Env) op(tok string) string {
	bad := "BadOp"
	if strings.HasPrefix(tok, "M=") {
		m := map[string]int{}
		if tok[2:] != "_" {
			for _, it := range strings.Split(tok[2:], ",") {
				f := strings.Split(it, ".")
				if len(f) != 2 {
					return "BadCfg"
				}
				c, ok := c11Unhex(f[0])
				n, ok2 := c11Int(f[1], 3)
				if !ok || !ok2 {
					return "BadCfg"
				}
				if _, dup := m[c]; !dup { // the first entry of a class wins, as in the model
					m[c] = n
				}
			}
		}
		if err := e.open(m); err != nil {
			return "CfgErr(" + strings.ReplaceAll(err.Error(), " ", "_") + ")"
		}
		e.orc.mapping = m
		return "cfg"
	}
	f := strings.Split(tok, ":")
	switch f[0] {
	case "P":
		if len(f) != 7 {
			return bad
		}
		b, ok1 := c11Int(f[1], 2)
		k, ok2 := c11Int(f[2], 3)
		cls, ok3 := c14Cls(f[3])
		cont, e1 := strconv.Atoi(f[4])
		meta, e2 := strconv.Atoi(f[5])
		tg, e3 := strconv.Atoi(f[6])
		if !ok1 || !ok2 || !ok3 || e1 != nil || e2 != nil || e3 != nil || cont < 0 || meta < 0 || tg < 0 {
			return bad
		}
		opts := &storage.PutObjectOptions{StorageClass: cls}
		if meta > 0 {
			opts.Metadata = &storage.ObjectMetadata{UserMetadata: map[string]string{"m": strconv.Itoa(meta)}}
		}
		if tg > 0 {
			opts.Tags = map[string]string{"t": strconv.Itoa(tg)}
		}
		_, err := e.st.PutObject(c14Ctx, e.bucket(b), c14Key(k), nil, bytes.NewReader(e.content(cont)), nil, opts)
		st := c14ErrName(err)
		if st == "ok" {
			e.noteVersion(b, k)
		}
		e.orc.put(b, k, cls, cont, meta, tg, st)
		return st
	case "A":
		if len(f) != 4 {
			return bad
		}
		b, ok1 := c11Int(f[1], 2)
		k, ok2 := c11Int(f[2], 3)
		cont, e1 := strconv.Atoi(f[3])
		if !ok1 || !ok2 || e1 != nil || cont < 0 {
			return bad
		}
		_, err := e.st.AppendObject(c14Ctx, e.bucket(b), c14Key(k), bytes.NewReader(e.content(cont)), nil, nil)
		st := c14ErrName(err)
		if st == "ok" {
			e.noteVersion(b, k)
		}
		var after *c14Obs
		if st == "ok" {
			after, _ = e.read(b, k, "L")
		}
		e.orc.appendOp(b, k, cont, st, after)
		return st
	case "C":
		if len(f) != 7 {
			return bad
		}
		sb, ok1 := c11Int(f[1], 2)
		sk, ok2 := c11Int(f[2], 3)
		db, ok3 := c11Int(f[4], 2)
		dk, ok4 := c11Int(f[5], 3)
		cls, ok5 := c14Cls(f[6])
		if !ok1 || !ok2 || !ok3 || !ok4 || !ok5 {
			return bad
		}
		if f[3] != "L" {
			if _, err := strconv.Atoi(f[3]); err != nil {
				return bad
			}
		}
		vid, known := e.ver(sb, sk, f[3])
		if !known {
			return "NoSuchVersion"
		}
		_, err := e.st.CopyObject(c14Ctx, e.bucket(sb), c14Key(sk), e.bucket(db), c14Key(dk), &storage.CopyObjectOptions{SourceVersionID: vid, StorageClass: cls})
		st := c14ErrName(err)
		if st == "ok" {
			e.noteVersion(db, dk)
		}
		e.orc.copy(sb, sk, f[3], db, dk, cls, st)
		return st
	case "T", "D", "R":
		want := map[string]int{"T": 5, "D": 4, "R": 4}[f[0]]
		if len(f) != want {
			return bad
		}
		b, ok1 := c11Int(f[1], 2)
		k, ok2 := c11Int(f[2], 3)
		if !ok1 || !ok2 {
			return bad
		}
		if f[3] != "L" {
			if _, err := strconv.Atoi(f[3]); err != nil {
				return bad
			}
		}
		vid, known := e.ver(b, k, f[3])
		switch f[0] {
		case "R":
			o, errc := e.read(b, k, f[3])
			if o == nil {
				e.orc.readErr(b, k, f[3], errc)
				return errc
			}
			e.orc.read(b, k, f[3], o)
			return o.String()
		case "T":
			cls, okc := c11Unhex(f[4])
			if !okc {
				return bad
			}
			if !known {
				return "NoSuchVersion"
			}
			before, _ := e.read(b, k, f[3])
			var opts *storage.TransitionObjectStorageClassOptions
			if vid != nil {
				opts = &storage.TransitionObjectStorageClassOptions{VersionID: vid}
			}
			err := e.st.TransitionObjectStorageClass(c14Ctx, e.bucket(b), c14Key(k), cls, opts)
			st := c14ErrName(err)
			after, _ := e.read(b, k, f[3])
			e.orc.transition(b, k, f[3], cls, st, before, after)
			return st
		default: // D
			if (b == 0) != (f[3] == "L") {
				return bad
			}
			if !known {
				e.orc.note("delete-unknown-version")
				return "NoSuchVersion"
			}
			var opts *storage.DeleteObjectOptions
			if vid != nil {
				opts = &storage.DeleteObjectOptions{VersionID: vid}
			}
			_, err := e.st.DeleteObject(c14Ctx, e.bucket(b), c14Key(k), opts)
			st := c14ErrName(err)
			if st == "ok" && vid != nil {
				n, _ := strconv.Atoi(f[3])
				e.vers[n].id = ""
			}
			e.orc.delete(b, k, f[3], st)
			return st
		}
	case "N":
		if len(f) != 1 {
			return bad
		}
		return e.counts()
	case "S":
		if len(f) != 1 {
			return bad
		}
		var parts []string
		one := func(b, k int, v string) {
			o, errc := e.read(b, k, v)
			if o == nil {
				e.orc.readErr(b, k, v, errc)
				parts = append(parts, errc)
				return
			}
			e.orc.read(b, k, v, o)
			parts = append(parts, o.String())
		}
		for b := 0; b < 2; b++ {
			for k := 0; k < 3; k++ {
				one(b, k, "L")
			}
		}
		for n, v := range e.vers {
			if v.id != "" {
				one(v.b, v.k, strconv.Itoa(n))
			}
		}
		parts = append(parts, e.counts())
		return strings.Join(parts, "/")
	}
	return bad
}

func (c14) Run(in string, scratch string) Result {
	toks := strings.Split(in, " ")
	if toks[0] != "h" {
		return Result{Out: "PARSE-ERROR", Oracle: "-", Tags: []string{"invalid"}}
	}
	pe, err := c14Acquire(scratch)
	if err != nil {
		return Result{Out: "SETUP-ERROR " + err.Error(), Oracle: "FAIL:setup " + err.Error()}
	}
	defer c14Release(pe)
	c14PoolMu.Lock()
	c14CaseSeq++
	seq := c14CaseSeq
	c14PoolMu.Unlock()
	e := &c14Env{pe: pe, seq: seq, tags: map[string]bool{}, orc: c14NewOracle()}
	if err := e.open(map[string]int{}); err != nil {
		return Result{Out: "SETUP-ERROR " + err.Error(), Oracle: "FAIL:setup " + err.Error()}
	}
	defer func() {
		if e.st != nil {
			e.st.Stop(c14Ctx)
		}
	}()
	e.base, err = e.rawCounts()
	if err != nil {
		return Result{Out: "SETUP-ERROR " + err.Error(), Oracle: "FAIL:setup " + err.Error()}
	}
	e.buckets = [2]string{fmt.Sprintf("c14-%d-%d-p", os.Getpid(), seq), fmt.Sprintf("c14-%d-%d-v", os.Getpid(), seq)}
	for _, b := range e.buckets {
		if err := e.st.CreateBucket(c14Ctx, storage.MustNewBucketName(b)); err != nil {
			return Result{Out: "SETUP-ERROR " + err.Error(), Oracle: "FAIL:setup " + err.Error()}
		}
	}
	en := storage.BucketVersioningStatusEnabled
	if err := e.st.PutBucketVersioningConfiguration(c14Ctx, storage.MustNewBucketName(e.buckets[1]), &storage.BucketVersioningConfiguration{Status: &en}); err != nil {
		return Result{Out: "SETUP-ERROR " + err.Error(), Oracle: "FAIL:setup " + err.Error()}
	}
	var outs []string
	for _, o := range toks[1:] {
		r := e.op(o)
		outs = append(outs, r)
		kind := strings.SplitN(o, ":", 2)[0]
		if strings.HasPrefix(o, "M=") {
			kind = "M"
		}
		e.tags["op:"+kind] = true
		if r == "ok" {
			e.tags["ok:"+kind] = true
		} else if kind != "R" && kind != "S" && kind != "N" && kind != "M" {
			e.tags["err:"+kind+":"+r] = true
		}
	}
	oracle := "OK"
	if len(e.orc.fails) > 0 {
		oracle = "FAIL:" + strings.Join(e.orc.fails, "; ")
	} else if e.orc.checked == 0 {
		oracle = "-"
	}
	for k := range e.orc.tags {
		e.tags[k] = true
	}
	if e.orc.checked == 0 || !e.tags["ok:T"] {
		e.tags["no-transition"] = true
	}
	var tags []string
	for k := range e.tags {
		tags = append(tags, k)
	}
	sortC14(tags)
	return Result{Out: strings.Join(outs, " "), Oracle: oracle, Tags: tags}
}

func sortC14(s []string) {
	for i := 1; i < len(s); i++ {
		for j := i; j > 0 && s[j] < s[j-1]; j-- {
			s[j], s[j-1] = s[j-1], s[j]
		}
	}
}
