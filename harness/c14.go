//go:build verif

package main

// C14 — storage-class transitions preserve objects and route data.
//
// Case line (see coq/Model/Transition.v):  h <tok> <tok> ...
//   M=hexclass.store,...   (re)open the storage on the same database and directories with this
//                          class -> store mapping (stores: 0 default, 1 "s1", 2 "s2"); M=_ = no mapping
//   P:b:k:cls:cont:meta:tags   PutObject (cls = N | hex class; cont = content id; meta/tags = ids, 0 = none)
//   A:b:k:cont                 AppendObject
//   C:sb:sk:sv:db:dk:cls       CopyObject
//   T:b:k:v:hexcls:im          TransitionObjectStorageClass; im = N | * | e<ordinal> (If-Match with the ETag of that row)
//   D:b:k:v                    DeleteObject (by key: row removed / delete marker added; by version id: that row removed)
//   V:b:E|S                    PutBucketVersioningConfiguration Enabled / Suspended
//   R:b:k:v                    read: class|content ids|meta|tags|store of every part|etag style
//   N                          number of distinct contents held per store
//   S                          sweep: R of every key and version + N
// b = 0 (starts unversioned) | 1 (starts versioning-enabled); v = L (no version id) | ordinal of the row (its ULID or
// "null" version id is sent) | X (the literal version id "null") | U (a well-formed id that no row has).

import (
	"bytes"
	"context"
	"database/sql"
	"errors"
	"fmt"
	"io"
	"log/slog"
	"os"
	"path/filepath"
	"strconv"
	"strings"
	"sync"

	"github.com/jdillenkofer/pithos/internal/storage"
	"github.com/jdillenkofer/pithos/internal/storage/database"
	repositoryFactory "github.com/jdillenkofer/pithos/internal/storage/database/repository"
	"github.com/jdillenkofer/pithos/internal/storage/database/sqlite"
	"github.com/jdillenkofer/pithos/internal/storage/metadatapart"
	"github.com/jdillenkofer/pithos/internal/storage/metadatapart/metadatastore"
	sqlMetadataStore "github.com/jdillenkofer/pithos/internal/storage/metadatapart/metadatastore/sql"
	"github.com/jdillenkofer/pithos/internal/storage/metadatapart/partstore"
	filesystemPartStore "github.com/jdillenkofer/pithos/internal/storage/metadatapart/partstore/filesystem"
	"github.com/jdillenkofer/pithos/internal/storage/metadatapart/partstore/middlewares/compression"
	sqlPartStore "github.com/jdillenkofer/pithos/internal/storage/metadatapart/partstore/sql"
)

type c14 struct{}

func init() { register("C14", c14{}) }

func (c14) Parallel() bool { return true }

var c14StoreNames = []string{"default", "s1", "s2"}
var c14Ctx = context.Background()

type c14Pooled struct {
	dir string
	db  database.Database
}

// a metadata store can be started only once, so every (re)opened storage gets its own
func c14NewMetadataStore(db database.Database) (metadatastore.MetadataStore, error) {
	bucketRepository, err := repositoryFactory.NewBucketRepository(db)
	if err != nil {
		return nil, err
	}
	objectRepository, err := repositoryFactory.NewObjectRepository(db)
	if err != nil {
		return nil, err
	}
	partRepository, err := repositoryFactory.NewPartRepository(db)
	if err != nil {
		return nil, err
	}
	tagRepository, err := repositoryFactory.NewTagRepository(db)
	if err != nil {
		return nil, err
	}
	userMetadataRepository, err := repositoryFactory.NewUserMetadataRepository(db)
	if err != nil {
		return nil, err
	}
	return sqlMetadataStore.New(db, bucketRepository, objectRepository, partRepository, tagRepository, userMetadataRepository)
}

var c14PoolMu sync.Mutex
var c14Pool []*c14Pooled
var c14PoolN, c14CaseSeq int
var c14Quiet sync.Once

func c14Acquire(scratch string) (*c14Pooled, error) {
	c14Quiet.Do(func() { slog.SetDefault(slog.New(slog.NewTextHandler(io.Discard, nil))) })
	c14PoolMu.Lock()
	if n := len(c14Pool); n > 0 {
		pe := c14Pool[n-1]
		c14Pool = c14Pool[:n-1]
		c14PoolMu.Unlock()
		return pe, nil
	}
	c14PoolN++
	id := c14PoolN
	c14PoolMu.Unlock()
	dir := filepath.Join(filepath.Dir(scratch), fmt.Sprintf("c14-pool-%d", id))
	if err := os.MkdirAll(dir, 0o755); err != nil {
		return nil, err
	}
	db, err := sqlite.OpenDatabase(filepath.Join(dir, "pithos.db"))
	if err != nil {
		return nil, err
	}
	return &c14Pooled{dir: dir, db: db}, nil
}
func c14Release(pe *c14Pooled) {
	c14PoolMu.Lock()
	c14Pool = append(c14Pool, pe)
	c14PoolMu.Unlock()
}

type c14Ver struct {
	b, k  int
	id    string // version id of the row ("null" or a ULID)
	alive bool
}

const c14UnknownVersion = "01ARZ3NDEKTSV4RRFFQ69G5FAV"
type c14Env struct {
	pe      *c14Pooled
	seq     int
	st      storage.Storage
	stores  []partstore.PartStore
	mapping map[string]int // class -> store index (the oracle's own copy of the configuration)
	base    [3]int
	buckets [2]string
	status  [2]string // "U" unversioned, "E" enabled, "S" suspended
	kinds   string    // one letter per store: f filesystem, c compression/filesystem, q SQL part store, d compression/SQL
	vers    []c14Ver
	orc     *c14Oracle
	tags    map[string]bool
}

// (re)opens the storage over the same database and part directories with a class -> store mapping
func (e *c14Env) open(mapping map[string]int) error {
	if e.st != nil {
		if err := e.st.Stop(c14Ctx); err != nil {
			return err
		}
		e.st = nil
	}
	e.stores = nil
	for i, n := range c14StoreNames {
		kind := e.kinds[i]
		var ps partstore.PartStore
		var err error
		switch kind {
		case 'f', 'c':
			ps, err = filesystemPartStore.New(filepath.Join(e.pe.dir, "parts-"+n+"-"+string(kind)))
		default: // 'q', 'd': database-backed, needs the ambient transaction
			repo, rerr := repositoryFactory.NewPartContentRepository(e.pe.db)
			if rerr != nil {
				return rerr
			}
			ps, err = sqlPartStore.New(e.pe.db, repo, sqlPartStore.WithPartStoreId("c14-"+n+"-"+string(kind)))
		}
		if err != nil {
			return err
		}
		if kind == 'c' || kind == 'd' {
			if ps, err = compression.New(ps); err != nil {
				return err
			}
		}
		e.stores = append(e.stores, ps)
	}
	m := map[string]string{}
	for c, i := range mapping {
		m[c] = c14StoreNames[i]
	}
	ms, err := c14NewMetadataStore(e.pe.db)
	if err != nil {
		return err
	}
	st, err := metadatapart.NewStorageWithNamedPartStores(e.pe.db, ms, e.stores[0],
		map[string]partstore.PartStore{"s1": e.stores[1], "s2": e.stores[2]}, m)
	if err != nil {
		return err
	}
	if err := st.Start(c14Ctx); err != nil {
		return err
	}
	e.st = st
	e.mapping = mapping
	return nil
}

// GetPartIds / GetPart of a store, inside a read transaction (the DB-backed kinds need one)
func (e *c14Env) partIDs(i int) (map[string]bool, error) {
	m := map[string]bool{}
	err := database.WithTx(c14Ctx, e.pe.db, &sql.TxOptions{ReadOnly: true}, func(ctx context.Context, tx database.Tx) error {
		ids, err := e.stores[i].GetPartIds(ctx, tx)
		if err != nil {
			return err
		}
		for _, id := range ids {
			m[id.String()] = true
		}
		return nil
	})
	return m, err
}

// number of distinct contents of THIS case each store holds (see Model/Transition.v count_store)
func (e *c14Env) rawCounts() ([3]int, error) {
	var c [3]int
	prefix := []byte(fmt.Sprintf("<%010d.%06d:", os.Getpid(), e.seq))
	for i := range e.stores {
		seen := map[string]bool{}
		err := database.WithTx(c14Ctx, e.pe.db, &sql.TxOptions{ReadOnly: true}, func(ctx context.Context, tx database.Tx) error {
			ids, err := e.stores[i].GetPartIds(ctx, tx)
			if err != nil {
				return err
			}
			for _, id := range ids {
				r, err := e.stores[i].GetPart(ctx, tx, id)
				if err != nil {
					continue
				}
				b, _ := io.ReadAll(r)
				r.Close()
				if bytes.HasPrefix(b, prefix) {
					seen[string(b)] = true
				}
			}
			return nil
		})
		if err != nil {
			return c, err
		}
		c[i] = len(seen)
	}
	return c, nil
}

// content c: a 23 byte header unique to process+case+content id, then (c mod 7)*5 filler bytes (Model: clen)
func (e *c14Env) content(c int) []byte {
	return []byte(fmt.Sprintf("<%010d.%06d:%03d>%s", os.Getpid(), e.seq, c, strings.Repeat("x", (c%7)*5)))
}

// chunk layout of a body: content ids and their lengths; ok=false if the body is not a sequence of this case's contents
func (e *c14Env) layout(body []byte) (ids []int, ok bool) {
	for len(body) > 0 {
		if len(body) < 23 || body[0] != '<' || body[22] != '>' {
			return nil, false
		}
		var pid, seq, c int
		if n, err := fmt.Sscanf(string(body[:23]), "<%010d.%06d:%03d>", &pid, &seq, &c); err != nil || n != 3 || pid != os.Getpid() || seq != e.seq {
			return nil, false
		}
		want := e.content(c)
		if !bytes.HasPrefix(body, want) {
			return nil, false
		}
		ids = append(ids, c)
		body = body[len(want):]
	}
	return ids, true
}
func (e *c14Env) decode(body []byte) string {
	if len(body) == 0 {
		return "-"
	}
	ids, ok := e.layout(body)
	if !ok {
		return "?"
	}
	out := make([]string, len(ids))
	for i, c := range ids {
		out[i] = strconv.Itoa(c)
	}
	return strings.Join(out, ".")
}

// segments (content id @ offset + length) of body[start:end) according to the chunk layout
func (e *c14Env) segments(body []byte, start, end int) string {
	ids, ok := e.layout(body)
	if !ok {
		return "?"
	}
	var out []string
	pos := 0
	for _, c := range ids {
		l := len(e.content(c))
		lo, hi := max(start, pos), min(end, pos+l)
		if lo < hi {
			out = append(out, fmt.Sprintf("%d@%d+%d", c, lo-pos, hi-lo))
		}
		pos += l
	}
	return strings.Join(out, ".")
}

func (e *c14Env) bucket(b int) storage.BucketName { return storage.MustNewBucketName(e.buckets[b]) }
func c14Key(k int) storage.ObjectKey               { return storage.MustNewObjectKey(c11Keys[k]) }

// resolves a version selector: the version id to send (nil = none) and whether the selector is usable
func (e *c14Env) ver(b, k int, v string) (vid *string, known bool) {
	switch v {
	case "L":
		return nil, true
	case "X":
		s := "null"
		return &s, true
	case "U":
		s := c14UnknownVersion
		return &s, true
	}
	n, err := strconv.Atoi(v)
	if err != nil || n < 0 || n >= len(e.vers) || e.vers[n].b != b || e.vers[n].k != k || !e.vers[n].alive {
		return nil, false
	}
	s := e.vers[n].id
	return &s, true
}

// ordinal of the alive row of (b,k) with that version id, -1 if none
func (e *c14Env) ordOf(b, k int, id string) int {
	for n, v := range e.vers {
		if v.alive && v.b == b && v.k == k && v.id == id {
			return n
		}
	}
	return -1
}

// the ordinal a selector addresses right now (L: whatever the implementation reports as current), -1 if none
func (e *c14Env) addressed(b, k int, v string) int {
	switch v {
	case "L":
		o, err := e.st.HeadObject(c14Ctx, e.bucket(b), c14Key(k), nil)
		if err == nil && o.VersionID != nil {
			return e.ordOf(b, k, *o.VersionID)
		}
		var dm *storage.CurrentDeleteMarkerError
		if errors.As(err, &dm) {
			return e.ordOf(b, k, dm.VersionID)
		}
		return -1
	case "X":
		return e.ordOf(b, k, "null")
	case "U":
		return -1
	}
	n, err := strconv.Atoi(v)
	if err != nil || n < 0 || n >= len(e.vers) || !e.vers[n].alive || e.vers[n].b != b || e.vers[n].k != k {
		return -1
	}
	return n
}

// a new row was created with this version id: a new ordinal; an older "null" row of the key is gone
func (e *c14Env) newRow(b, k int, id string) int {
	if id == "null" {
		if n := e.ordOf(b, k, "null"); n >= 0 {
			e.vers[n].alive = false
		}
	}
	e.vers = append(e.vers, c14Ver{b, k, id, true})
	return len(e.vers) - 1
}
func (e *c14Env) currentVid(b, k int) string {
	o, err := e.st.HeadObject(c14Ctx, e.bucket(b), c14Key(k), nil)
	if err == nil && o.VersionID != nil {
		return *o.VersionID
	}
	return ""
}

func c14ErrName(err error) string {
	if err == nil {
		return "ok"
	}
	var dm *storage.CurrentDeleteMarkerError
	var vdm *storage.VersionDeleteMarkerMethodNotAllowedError
	if errors.As(err, &dm) || errors.As(err, &vdm) {
		return "DeleteMarker"
	}
	switch err {
	case storage.ErrNoSuchKey:
		return "NoSuchKey"
	case storage.ErrNoSuchBucket:
		return "NoSuchBucket"
	case storage.ErrInvalidStorageClass:
		return "InvalidStorageClass"
	case storage.ErrPreconditionFailed:
		return "PreconditionFailed"
	}
	return "Err(" + strings.ReplaceAll(err.Error(), " ", "_") + ")"
}

type c14Obs struct {
	class, content, meta, tags, stores string
	etag, vid, partIDs               string
	size                             int64
	partsOK                          string // "" or why a part row does not point at stored bytes
	body                             []byte
}

// "s" = MD5-of-content ETag, "m<n>" = multipart-style ETag over n parts
func c14EtagStyle(etag string) string {
	e := strings.Trim(etag, "\"")
	if i := strings.LastIndexByte(e, '-'); i >= 0 {
		return "m" + e[i+1:]
	}
	return "s"
}

func (o *c14Obs) String() string {
	return strings.Join([]string{tokBytes(o.class), o.content, o.meta, o.tags, o.stores, c14EtagStyle(o.etag)}, "|")
}

func c14ID(m map[string]string, key string) string {
	if len(m) == 0 {
		return "0"
	}
	if v, ok := m[key]; ok && len(m) == 1 {
		return v
	}
	return "?"
}

func (e *c14Env) read(b, k int, v string) (*c14Obs, string) {
	vid, known := e.ver(b, k, v)
	if !known {
		return nil, "NoSuchVersion"
	}
	var opts *storage.GetObjectOptions
	if vid != nil {
		opts = &storage.GetObjectOptions{VersionID: vid}
	}
	obj, rs, err := e.st.GetObject(c14Ctx, e.bucket(b), c14Key(k), nil, opts)
	if err != nil {
		return nil, c14ErrName(err)
	}
	body, rerr := c20ReadAllC14(rs)
	if rerr != nil {
		return nil, "Unreadable"
	}
	o := &c14Obs{class: storage.EffectiveStorageClass(obj.StorageClass), content: e.decode(body), etag: obj.ETag, size: obj.Size, body: body}
	if obj.VersionID != nil {
		o.vid = *obj.VersionID
	}
	if int64(len(body)) != obj.Size {
		o.partsOK = "size " + strconv.FormatInt(obj.Size, 10) + " but body of " + strconv.Itoa(len(body)) + " bytes"
	}
	o.meta = c14ID(obj.Metadata.UserMetadata, "m")
	o.tags = c14ID(obj.Tags, "t")
	parts, perr := metadatapart.VerifC14Parts(c14Ctx, e.st, e.bucket(b), c14Key(k), vid)
	if perr != nil {
		return nil, "PartsErr(" + perr.Error() + ")"
	}
	var ss, pids []string
	for _, p := range parts {
		pids = append(pids, p.Id.String())
		idx := -1
		for i, n := range c14StoreNames {
			if n == p.Store {
				idx = i
			}
		}
		ss = append(ss, strconv.Itoa(idx))
		if idx >= 0 {
			ids, err := e.partIDs(idx)
			if err != nil || !ids[p.Id.String()] {
				o.partsOK = "part " + p.Id.String() + " is not in store " + p.Store
			}
		}
	}
	o.stores = "-"
	if len(ss) > 0 {
		o.stores = strings.Join(ss, ".")
	}
	o.partIDs = strings.Join(pids, ".")
	return o, ""
}

func c20ReadAllC14(rs []io.ReadCloser) ([]byte, error) {
	var buf bytes.Buffer
	var first error
	for _, r := range rs {
		if _, err := io.Copy(&buf, r); err != nil && first == nil {
			first = err
		}
		if err := r.Close(); err != nil && first == nil {
			first = err
		}
	}
	return buf.Bytes(), first
}

func c14Cls(t string) (*string, bool) {
	if t == "N" {
		return nil, true
	}
	s, ok := c11Unhex(t)
	if !ok {
		return nil, false
	}
	return &s, true
}

func (e *c14Env) counts() string {
	c, err := e.rawCounts()
	if err != nil {
		return "CountErr"
	}
	return fmt.Sprintf("%d,%d,%d", c[0], c[1], c[2])
}

// ranged GetObject of a version: returns per range the bytes, or an error code
func (e *c14Env) readRanges(b, k int, v string, rs [][2]int64) ([][]byte, string) {
	vid, known := e.ver(b, k, v)
	if !known {
		return nil, "NoSuchVersion"
	}
	var opts *storage.GetObjectOptions
	if vid != nil {
		opts = &storage.GetObjectOptions{VersionID: vid}
	}
	brs := make([]storage.ByteRange, len(rs))
	for i := range rs {
		st, en := rs[i][0], rs[i][1]
		brs[i] = storage.ByteRange{Start: &st, End: &en}
	}
	_, readers, err := e.st.GetObject(c14Ctx, e.bucket(b), c14Key(k), brs, opts)
	if err != nil {
		if err == storage.ErrInvalidRange {
			return nil, "InvalidRange"
		}
		return nil, c14ErrName(err)
	}
	// read the ranges in REVERSE order and close each reader as soon as it is drained: every reader must work
	// independently of the others (a shared read transaction must outlive the first Close)
	out := make([][]byte, len(readers))
	var first error
	for i := len(readers) - 1; i >= 0; i-- {
		data, err := io.ReadAll(readers[i])
		if err != nil && first == nil {
			first = err
		}
		out[i] = data
		if err := readers[i].Close(); err != nil && first == nil {
			first = err
		}
	}
	if first != nil {
		return nil, "Unreadable"
	}
	return out, ""
}

// after a write that routed data by class, or a transition: read the version back in full and by ranges and
// let the oracle judge bytes, ETag, class and placement
func (e *c14Env) readBack(what string, n, b, k int) {
	if n < 0 {
		return
	}
	v := strconv.Itoa(n)
	o, errc := e.read(b, k, v)
	if o == nil {
		e.orc.readErr(n, b, k, v, what+": "+errc)
		return
	}
	e.orc.read(n, b, k, v, o)
	if what == "put" || what == "copy" || what == "multipart" {
		e.orc.placed(what, n, o)
	}
	size := int64(len(o.body))
	if size < 2 {
		return
	}
	rs := [][2]int64{{size / 2, size}, {0, 1}, {size/3 + 1, size - 1}}
	got, errc2 := e.readRanges(b, k, v, rs)
	e.orc.ranges(what, n, o.body, rs, got, errc2)
}

// observation of every alive row of a key: ordinal -> rendering (incl. ETag, part ids) or error code
func (e *c14Env) snapshot(b, k int) map[int]string {
	m := map[int]string{}
	for n, v := range e.vers {
		if !v.alive || v.b != b || v.k != k {
			continue
		}
		o, errc := e.read(b, k, strconv.Itoa(n))
		if o == nil {
			m[n] = errc
		} else {
			m[n] = o.String() + "|" + o.etag + "|" + o.partIDs + "|" + o.partsOK
		}
	}
	return m
}

func c14Sel(t string) bool {
	if t == "L" || t == "X" || t == "U" {
		return true
	}
	n, err := strconv.Atoi(t)
	return err == nil && n >= 0 && strconv.Itoa(n) == t
}

func (e *c14Env) op(tok string) string {
	bad := "BadOp"
	if strings.HasPrefix(tok, "M=") {
		m := map[string]int{}
		if tok[2:] != "_" {
			for _, it := range strings.Split(tok[2:], ",") {
				f := strings.Split(it, ".")
				if len(f) != 2 {
					return "BadCfg"
				}
				c, ok := c11Unhex(f[0])
				n, ok2 := c11Int(f[1], 3)
				if !ok || !ok2 {
					return "BadCfg"
				}
				if _, dup := m[c]; !dup { // the first entry of a class wins, as in the model
					m[c] = n
				}
			}
		}
		if err := e.open(m); err != nil {
			return "CfgErr(" + strings.ReplaceAll(err.Error(), " ", "_") + ")"
		}
		e.orc.mapping = m
		return "cfg"
	}
	f := strings.Split(tok, ":")
	switch f[0] {
	case "V":
		if len(f) != 3 || (f[2] != "E" && f[2] != "S") {
			return bad
		}
		b, ok := c11Int(f[1], 2)
		if !ok {
			return bad
		}
		st := storage.BucketVersioningStatusEnabled
		if f[2] == "S" {
			st = storage.BucketVersioningStatusSuspended
		}
		if err := e.st.PutBucketVersioningConfiguration(c14Ctx, e.bucket(b), &storage.BucketVersioningConfiguration{Status: &st}); err != nil {
			return c14ErrName(err)
		}
		e.status[b] = f[2]
		return "ok"
	case "P":
		if len(f) != 7 {
			return bad
		}
		b, ok1 := c11Int(f[1], 2)
		k, ok2 := c11Int(f[2], 3)
		cls, ok3 := c14Cls(f[3])
		cont, e1 := strconv.Atoi(f[4])
		meta, e2 := strconv.Atoi(f[5])
		tg, e3 := strconv.Atoi(f[6])
		if !ok1 || !ok2 || !ok3 || e1 != nil || e2 != nil || e3 != nil || cont < 0 || meta < 0 || tg < 0 {
			return bad
		}
		opts := &storage.PutObjectOptions{StorageClass: cls}
		if meta > 0 {
			opts.Metadata = &storage.ObjectMetadata{UserMetadata: map[string]string{"m": strconv.Itoa(meta)}}
		}
		if tg > 0 {
			opts.Tags = map[string]string{"t": strconv.Itoa(tg)}
		}
		res, err := e.st.PutObject(c14Ctx, e.bucket(b), c14Key(k), nil, bytes.NewReader(e.content(cont)), nil, opts)
		st := c14ErrName(err)
		n := -1
		if st == "ok" {
			vid := "null"
			if res.VersionID != nil {
				vid = *res.VersionID
			}
			n = e.newRow(b, k, vid)
		}
		e.orc.put(n, b, k, cls, cont, meta, tg, st)
		e.readBack("put", n, b, k)
		return st
	case "A":
		if len(f) != 4 {
			return bad
		}
		b, ok1 := c11Int(f[1], 2)
		k, ok2 := c11Int(f[2], 3)
		cont, e1 := strconv.Atoi(f[3])
		if !ok1 || !ok2 || e1 != nil || cont < 0 {
			return bad
		}
		if e.status[b] == "S" {
			return bad // not exercised: C02 finding (in-place update of whatever row is current)
		}
		prev := e.addressed(b, k, "L")
		_, err := e.st.AppendObject(c14Ctx, e.bucket(b), c14Key(k), bytes.NewReader(e.content(cont)), nil, nil)
		st := c14ErrName(err)
		n := -1
		inPlace := false
		if st == "ok" {
			if e.status[b] == "U" && e.ordOf(b, k, "null") >= 0 {
				n, inPlace = e.ordOf(b, k, "null"), true
			} else {
				n = e.newRow(b, k, e.currentVid(b, k))
			}
		}
		var after *c14Obs
		if st == "ok" {
			after, _ = e.read(b, k, "L")
		}
		e.orc.appendOp(n, inPlace, prev, b, k, cont, st, after)
		e.readBack("append", n, b, k)
		return st
	case "C":
		if len(f) != 7 {
			return bad
		}
		sb, ok1 := c11Int(f[1], 2)
		sk, ok2 := c11Int(f[2], 3)
		db, ok3 := c11Int(f[4], 2)
		dk, ok4 := c11Int(f[5], 3)
		cls, ok5 := c14Cls(f[6])
		if !ok1 || !ok2 || !ok3 || !ok4 || !ok5 || !c14Sel(f[3]) {
			return bad
		}
		vid, known := e.ver(sb, sk, f[3])
		if !known {
			return "NoSuchVersion"
		}
		src := e.addressed(sb, sk, f[3])
		res, err := e.st.CopyObject(c14Ctx, e.bucket(sb), c14Key(sk), e.bucket(db), c14Key(dk), &storage.CopyObjectOptions{SourceVersionID: vid, StorageClass: cls})
		st := c14ErrName(err)
		n := -1
		if st == "ok" {
			nv := "null"
			if res.VersionID != nil {
				nv = *res.VersionID
			}
			n = e.newRow(db, dk, nv)
		}
		e.orc.copy(n, src, db, dk, cls, st)
		e.readBack("copy", n, db, dk)
		return st
	case "MP":
		if len(f) != 5 {
			return bad
		}
		b, ok1 := c11Int(f[1], 2)
		k, ok2 := c11Int(f[2], 3)
		cls, ok3 := c14Cls(f[3])
		if !ok1 || !ok2 || !ok3 {
			return bad
		}
		var conts []int
		for _, t := range strings.Split(f[4], ".") {
			c, err := strconv.Atoi(t)
			if err != nil || c < 0 || strconv.Itoa(c) != t {
				return bad
			}
			conts = append(conts, c)
		}
		var copts *storage.CreateMultipartUploadOptions
		if cls != nil {
			copts = &storage.CreateMultipartUploadOptions{StorageClass: cls}
		}
		up, err := e.st.CreateMultipartUpload(c14Ctx, e.bucket(b), c14Key(k), nil, nil, copts)
		st := c14ErrName(err)
		n := -1
		if st == "ok" {
			for i, c := range conts {
				if _, err := e.st.UploadPart(c14Ctx, e.bucket(b), c14Key(k), up.UploadId, int32(i+1), bytes.NewReader(e.content(c)), nil); err != nil {
					st = "UploadPart:" + c14ErrName(err)
					break
				}
			}
		}
		if st == "ok" {
			res, err := e.st.CompleteMultipartUpload(c14Ctx, e.bucket(b), c14Key(k), up.UploadId, nil, nil)
			st = c14ErrName(err)
			if st == "ok" {
				vid := "null"
				if res.VersionID != nil {
					vid = *res.VersionID
				}
				n = e.newRow(b, k, vid)
			}
		}
		e.orc.multipart(n, b, k, cls, conts, st)
		e.readBack("multipart", n, b, k)
		return st
	case "G":
		if len(f) != 5 {
			return bad
		}
		b, ok1 := c11Int(f[1], 2)
		k, ok2 := c11Int(f[2], 3)
		if !ok1 || !ok2 || !c14Sel(f[3]) {
			return bad
		}
		var rs [][2]int64
		for _, t := range strings.Split(f[4], ",") {
			ab := strings.Split(t, "-")
			if len(ab) != 2 {
				return bad
			}
			a, e1 := strconv.ParseInt(ab[0], 10, 62)
			z, e2 := strconv.ParseInt(ab[1], 10, 62)
			if e1 != nil || e2 != nil || a < 0 || z < 0 || strconv.FormatInt(a, 10) != ab[0] || strconv.FormatInt(z, 10) != ab[1] {
				return bad
			}
			rs = append(rs, [2]int64{a, z})
		}
		if _, known := e.ver(b, k, f[3]); !known {
			return "NoSuchVersion"
		}
		n := e.addressed(b, k, f[3])
		full, errc := e.read(b, k, f[3])
		if full == nil {
			e.orc.readErr(n, b, k, f[3], errc)
			return errc
		}
		got, errc := e.readRanges(b, k, f[3], rs)
		e.orc.ranges("ranged read", n, full.body, rs, got, errc)
		if got == nil {
			return errc
		}
		var out []string
		for i, r := range rs {
			end := min(r[1], int64(len(full.body)))
			seg := e.segments(full.body, int(r[0]), int(end))
			if !bytes.Equal(got[i], full.body[r[0]:end]) {
				seg = "?"
			}
			out = append(out, seg)
		}
		return strings.Join(out, ",")
	case "T", "D", "R":
		want := map[string]int{"T": 6, "D": 4, "R": 4}[f[0]]
		if len(f) != want {
			return bad
		}
		b, ok1 := c11Int(f[1], 2)
		k, ok2 := c11Int(f[2], 3)
		if !ok1 || !ok2 || !c14Sel(f[3]) {
			return bad
		}
		vid, known := e.ver(b, k, f[3])
		switch f[0] {
		case "R":
			if !known {
				return "NoSuchVersion"
			}
			n := e.addressed(b, k, f[3])
			o, errc := e.read(b, k, f[3])
			if o == nil {
				e.orc.readErr(n, b, k, f[3], errc)
				return errc
			}
			e.orc.read(n, b, k, f[3], o)
			return o.String()
		case "T":
			cls, okc := c11Unhex(f[4])
			if !okc {
				return bad
			}
			im := f[5]
			if im != "N" && im != "*" && !(strings.HasPrefix(im, "e") && c14Sel(im[1:]) && im[1:] != "L" && im[1:] != "X" && im[1:] != "U") {
				return bad
			}
			if !known {
				return "NoSuchVersion"
			}
			opts := &storage.TransitionObjectStorageClassOptions{VersionID: vid}
			imETag := ""
			if im == "*" {
				star := "*"
				opts.IfMatchETag = &star
			} else if im != "N" {
				ref, _ := e.read(b, k, im[1:])
				if ref == nil {
					return bad
				}
				imETag = ref.etag
				opts.IfMatchETag = &imETag
			}
			target := e.addressed(b, k, f[3])
			before := e.snapshot(b, k)
			var bo *c14Obs
			if target >= 0 {
				bo, _ = e.read(b, k, strconv.Itoa(target))
			}
			err := e.st.TransitionObjectStorageClass(c14Ctx, e.bucket(b), c14Key(k), cls, opts)
			st := c14ErrName(err)
			after := e.snapshot(b, k)
			var ao *c14Obs
			if target >= 0 {
				ao, _ = e.read(b, k, strconv.Itoa(target))
			}
			e.orc.transition(target, b, k, f[3], cls, im, imETag, st, bo, ao, before, after)
			if st == "ok" {
				e.readBack("transition", target, b, k)
			}
			return st
		default: // D
			if !known {
				return "NoSuchVersion"
			}
			target := e.addressed(b, k, f[3])
			var opts *storage.DeleteObjectOptions
			if vid != nil {
				opts = &storage.DeleteObjectOptions{VersionID: vid}
			}
			res, err := e.st.DeleteObject(c14Ctx, e.bucket(b), c14Key(k), opts)
			st := c14ErrName(err)
			marker := -1
			var gone []int
			if st == "ok" {
				if f[3] != "L" {
					if target >= 0 {
						e.vers[target].alive = false
						gone = append(gone, target)
					}
				} else {
					switch e.status[b] {
					case "U":
						if target >= 0 {
							e.vers[target].alive = false
							gone = append(gone, target)
						}
					case "S":
						if n := e.ordOf(b, k, "null"); n >= 0 {
							e.vers[n].alive = false
							gone = append(gone, n)
						}
						fallthrough
					default:
						mv := ""
						if res != nil && res.VersionID != nil {
							mv = *res.VersionID
						}
						marker = e.newRow(b, k, mv)
					}
				}
			}
			e.orc.delete(gone, marker, b, k, st)
			return st
		}
	case "N":
		if len(f) != 1 {
			return bad
		}
		return e.counts()
	case "S":
		if len(f) != 1 {
			return bad
		}
		var parts []string
		one := func(b, k int, v string) {
			n := e.addressed(b, k, v)
			o, errc := e.read(b, k, v)
			if o == nil {
				e.orc.readErr(n, b, k, v, errc)
				parts = append(parts, errc)
				return
			}
			e.orc.read(n, b, k, v, o)
			parts = append(parts, o.String())
		}
		for b := 0; b < 2; b++ {
			for k := 0; k < 3; k++ {
				one(b, k, "L")
			}
		}
		for n, v := range e.vers {
			if v.alive {
				one(v.b, v.k, strconv.Itoa(n))
			}
		}
		parts = append(parts, e.counts())
		return strings.Join(parts, "/")
	}
	return bad
}

func (c14) Run(in string, scratch string) Result {
	toks := strings.Split(in, " ")
	if toks[0] != "h" {
		return Result{Out: "PARSE-ERROR", Oracle: "-", Tags: []string{"invalid"}}
	}
	pe, err := c14Acquire(scratch)
	if err != nil {
		return Result{Out: "SETUP-ERROR " + err.Error(), Oracle: "FAIL:setup " + err.Error()}
	}
	defer c14Release(pe)
	c14PoolMu.Lock()
	c14CaseSeq++
	seq := c14CaseSeq
	c14PoolMu.Unlock()
	e := &c14Env{pe: pe, seq: seq, tags: map[string]bool{}, orc: c14NewOracle(), status: [2]string{"U", "E"}, kinds: "fff"}
	kindsOut := ""
	if len(toks) > 1 && strings.HasPrefix(toks[1], "K=") {
		kd := toks[1][2:]
		kindsOut = "kinds"
		if len(kd) != 3 || strings.Trim(kd, "fcqd") != "" {
			kindsOut = "BadKinds"
		} else {
			e.kinds = kd
		}
		toks = append([]string{toks[0]}, toks[2:]...)
	}
	e.tags["kinds:"+c14KindClass(e.kinds)] = true
	e.orc.alive = func(n int) bool { return n >= 0 && n < len(e.vers) && e.vers[n].alive }
	e.orc.bytesOf = e.content
	if err := e.open(map[string]int{}); err != nil {
		return Result{Out: "SETUP-ERROR " + err.Error(), Oracle: "FAIL:setup " + err.Error()}
	}
	defer func() {
		if e.st != nil {
			e.st.Stop(c14Ctx)
		}
	}()
	e.base, err = e.rawCounts()
	if err != nil {
		return Result{Out: "SETUP-ERROR " + err.Error(), Oracle: "FAIL:setup " + err.Error()}
	}
	e.buckets = [2]string{fmt.Sprintf("c14-%d-%d-p", os.Getpid(), seq), fmt.Sprintf("c14-%d-%d-v", os.Getpid(), seq)}
	for _, b := range e.buckets {
		if err := e.st.CreateBucket(c14Ctx, storage.MustNewBucketName(b)); err != nil {
			return Result{Out: "SETUP-ERROR " + err.Error(), Oracle: "FAIL:setup " + err.Error()}
		}
	}
	en := storage.BucketVersioningStatusEnabled
	if err := e.st.PutBucketVersioningConfiguration(c14Ctx, storage.MustNewBucketName(e.buckets[1]), &storage.BucketVersioningConfiguration{Status: &en}); err != nil {
		return Result{Out: "SETUP-ERROR " + err.Error(), Oracle: "FAIL:setup " + err.Error()}
	}
	var outs []string
	if kindsOut != "" {
		outs = append(outs, kindsOut)
	}
	for _, o := range toks[1:] {
		r := e.op(o)
		outs = append(outs, r)
		kind := strings.SplitN(o, ":", 2)[0]
		if strings.HasPrefix(o, "M=") {
			kind = "M"
		}
		e.tags["op:"+kind] = true
		if r == "ok" {
			e.tags["ok:"+kind] = true
		} else if kind != "R" && kind != "G" && kind != "S" && kind != "N" && kind != "M" {
			e.tags["err:"+kind+":"+r] = true
		}
	}
	oracle := "OK"
	if len(e.orc.fails) > 0 {
		oracle = "FAIL:" + strings.Join(e.orc.fails, "; ")
	} else if e.orc.checked == 0 {
		oracle = "-"
	}
	for k := range e.orc.tags {
		e.tags[k] = true
	}
	if e.orc.checked == 0 || !e.tags["ok:T"] {
		e.tags["no-transition"] = true
	}
	var tags []string
	for k := range e.tags {
		tags = append(tags, k)
	}
	sortC14(tags)
	return Result{Out: strings.Join(outs, " "), Oracle: oracle, Tags: tags}
}

// "tx-free" (all stores readable without a transaction), "tx-bound" (all need one), "mixed:default-free", "mixed:default-bound"
func c14KindClass(k string) string {
	nb := strings.Count(k, "q") + strings.Count(k, "d")
	switch {
	case nb == 0:
		return "tx-free"
	case nb == len(k):
		return "tx-bound"
	case k[0] == 'f' || k[0] == 'c':
		return "mixed:default-free"
	}
	return "mixed:default-bound"
}

func sortC14(s []string) {
	for i := 1; i < len(s); i++ {
		for j := i; j > 0 && s[j] < s[j-1]; j-- {
			s[j], s[j-1] = s[j-1], s[j]
		}
	}
}
