//go:build verif

package main

import (
	"bytes"
	"context"
	"encoding/xml"
	"errors"
	"fmt"
	"io"
	"log/slog"
	"net/http"
	"net/http/httptest"
	"net/url"
	"sort"
	"strconv"
	"strings"
	"sync"
	"time"

	"github.com/jdillenkofer/pithos/internal/http/server"
	"github.com/jdillenkofer/pithos/internal/http/server/authentication"
	"github.com/jdillenkofer/pithos/internal/http/server/authorization"
	luaauthz "github.com/jdillenkofer/pithos/internal/http/server/authorization/lua"
	"github.com/jdillenkofer/pithos/internal/storage"
	"github.com/jdillenkofer/pithos/internal/storage/middlewares/delegator"
)

// C31 — no request takes effect without the authorizer's permission.
// Case line (see coq/Model/Authz.v run_line):
//   host method path qflags bucket key copysrc valid authd origin main max items wcfg wobj widx werr program
type c31 struct{}

func init() { register("C31", c31{}) }

func (c31) Parallel() bool { return true }

// ---------- decision programs (same arithmetic as Model/Authz.v mix / p_decide) ----------
type c31Prog struct {
	kind      byte // 'A', 'D', 'T'
	seed, pct uint64
}

func c31ParseProg(t string) c31Prog {
	switch t[0] {
	case 'A', 'D':
		return c31Prog{kind: t[0]}
	}
	parts := strings.SplitN(t[1:], ".", 2)
	s, _ := strconv.ParseUint(parts[0], 10, 64)
	p, _ := strconv.ParseUint(parts[1], 10, 64)
	return c31Prog{kind: 'T', seed: s, pct: p}
}

func c31Mix(seed uint64, s string) uint64 {
	acc := seed % 1000003
	for i := 0; i < len(s); i++ {
		acc = (acc*131 + uint64(s[i]) + 7) % 1000003
	}
	return acc
}

func (p c31Prog) allow(s string) bool {
	switch p.kind {
	case 'A':
		return true
	case 'D':
		return false
	}
	return p.pct <= c31Mix(p.seed, s)%100
}

func c31Opt(p *string) string {
	if p == nil {
		return "~"
	}
	return "=" + *p
}
func c31TokO(p *string) string {
	if p == nil {
		return "~"
	}
	return tokBytes(*p)
}

// ---------- recorded events ----------
type c31Event struct {
	kind                       byte // 'A' authorize, 'S' storage call, 'I' per-item hook
	name                       string
	bucket, key, srcb, srck    *string
	keys                       []string
	item                       string
	allowed                    bool
}

type c31Trace struct{ ev []c31Event }

// ---------- recording authorizer ----------
type c31Authorizer struct {
	prog c31Prog
	tr   *c31Trace
}

func (a *c31Authorizer) AuthorizeRequest(ctx context.Context, r *authorization.Request) (bool, error) {
	s := r.Operation + "|" + c31Opt(r.Bucket) + "|" + c31Opt(r.Key) + "|" + c31Opt(r.SourceBucket) + "|" + c31Opt(r.SourceKey)
	ok := a.prog.allow(s)
	a.tr.ev = append(a.tr.ev, c31Event{kind: 'A', name: r.Operation, bucket: r.Bucket, key: r.Key, srcb: r.SourceBucket, srck: r.SourceKey, allowed: ok})
	return ok, nil
}
func (a *c31Authorizer) item(hook string, r *authorization.Request, item string) (bool, error) {
	ok := a.prog.allow(hook + "|" + c31Opt(r.Bucket) + "|" + item)
	a.tr.ev = append(a.tr.ev, c31Event{kind: 'I', name: hook, item: item, allowed: ok})
	return ok, nil
}
func (a *c31Authorizer) AuthorizeListBucket(ctx context.Context, r *authorization.Request, bucketName string) (bool, error) {
	return a.item("ListBucket", r, bucketName)
}
func (a *c31Authorizer) AuthorizeListObject(ctx context.Context, r *authorization.Request, key string) (bool, error) {
	return a.item("ListObject", r, key)
}
func (a *c31Authorizer) AuthorizeDeleteObjectEntry(ctx context.Context, r *authorization.Request, key string) (bool, error) {
	return a.item("DeleteObjectEntry", r, key)
}
func (a *c31Authorizer) AuthorizeListMultipartUpload(ctx context.Context, r *authorization.Request, key string, uploadID string) (bool, error) {
	return a.item("ListMultipartUpload", r, key)
}
func (a *c31Authorizer) AuthorizeListPart(ctx context.Context, r *authorization.Request, partNumber int32) (bool, error) {
	return a.item("ListPart", r, strconv.Itoa(int(partNumber)))
}

// ---------- recording storage double with canned results ----------
type c31Storage struct {
	delegator.DelegatingStorage // Next == nil: any method not overridden below panics (observable)
	tr                          *c31Trace
	main                        string // ok | nf | err
	items                       []string
	origin                      bool
	wcfg, wobj, werr            string
	widx                        bool
}

var c31ErrBoom = errors.New("injected storage failure")

func (s *c31Storage) rec(name string, b *storage.BucketName, k *storage.ObjectKey, sb *storage.BucketName, sk *storage.ObjectKey, keys []string) {
	e := c31Event{kind: 'S', name: name, keys: keys}
	if b != nil {
		v := b.String()
		e.bucket = &v
	}
	if k != nil {
		v := k.String()
		e.key = &v
	}
	if sb != nil {
		v := sb.String()
		e.srcb = &v
	}
	if sk != nil {
		v := sk.String()
		e.srck = &v
	}
	s.tr.ev = append(s.tr.ev, e)
}
func (s *c31Storage) out() error {
	switch s.main {
	case "nf":
		return storage.ErrNoSuchKey
	case "err":
		return c31ErrBoom
	}
	return nil
}
func (s *c31Storage) Start(ctx context.Context) error { return nil }
func (s *c31Storage) Stop(ctx context.Context) error  { return nil }

func (s *c31Storage) CreateBucket(ctx context.Context, b storage.BucketName) error {
	s.rec("CreateBucket", &b, nil, nil, nil, nil)
	return s.out()
}
func (s *c31Storage) DeleteBucket(ctx context.Context, b storage.BucketName) error {
	s.rec("DeleteBucket", &b, nil, nil, nil, nil)
	return s.out()
}
func (s *c31Storage) ListBuckets(ctx context.Context) ([]storage.Bucket, error) {
	s.rec("ListBuckets", nil, nil, nil, nil, nil)
	if err := s.out(); err != nil {
		return nil, err
	}
	var bs []storage.Bucket
	for _, it := range s.items {
		bs = append(bs, storage.Bucket{Name: storage.MustNewBucketName(it), CreationDate: time.Unix(1700000000, 0)})
	}
	return bs, nil
}
func (s *c31Storage) HeadBucket(ctx context.Context, b storage.BucketName) (*storage.Bucket, error) {
	s.rec("HeadBucket", &b, nil, nil, nil, nil)
	if err := s.out(); err != nil {
		return nil, err
	}
	return &storage.Bucket{Name: b, CreationDate: time.Unix(1700000000, 0)}, nil
}
func (s *c31Storage) GetBucketVersioningConfiguration(ctx context.Context, b storage.BucketName) (*storage.BucketVersioningConfiguration, error) {
	s.rec("GetBucketVersioningConfiguration", &b, nil, nil, nil, nil)
	if err := s.out(); err != nil {
		return nil, err
	}
	return &storage.BucketVersioningConfiguration{}, nil
}
func (s *c31Storage) PutBucketVersioningConfiguration(ctx context.Context, b storage.BucketName, c *storage.BucketVersioningConfiguration) error {
	s.rec("PutBucketVersioningConfiguration", &b, nil, nil, nil, nil)
	return s.out()
}
func (s *c31Storage) GetBucketWebsiteConfiguration(ctx context.Context, b storage.BucketName) (*storage.WebsiteConfiguration, error) {
	s.rec("GetBucketWebsiteConfiguration", &b, nil, nil, nil, nil)
	if s.wcfg == "" { // API host: ?website sub-resource
		if err := s.out(); err != nil {
			return nil, err
		}
		return &storage.WebsiteConfiguration{IndexDocumentSuffix: "index.html"}, nil
	}
	cfg := &storage.WebsiteConfiguration{IndexDocumentSuffix: "index.html"}
	if s.werr != "none" {
		k := "err.html"
		cfg.ErrorDocumentKey = &k
	}
	to := "x.html"
	switch s.wcfg {
	case "nocfg":
		return nil, storage.ErrNoSuchWebsiteConfiguration
	case "err":
		return nil, c31ErrBoom
	case "redirall":
		return &storage.WebsiteConfiguration{RedirectAllRequestsTo: &storage.WebsiteRedirectAllRequestsTo{HostName: "example.com"}}, nil
	case "ruleall":
		cfg.RoutingRules = []storage.WebsiteRoutingRule{{Redirect: storage.WebsiteRedirect{ReplaceKeyWith: &to}}}
	case "rule404":
		c := "404"
		cfg.RoutingRules = []storage.WebsiteRoutingRule{{Condition: &storage.WebsiteRoutingRuleCondition{HttpErrorCodeReturnedEquals: &c}, Redirect: storage.WebsiteRedirect{ReplaceKeyWith: &to}}}
	}
	return cfg, nil
}
func (s *c31Storage) PutBucketWebsiteConfiguration(ctx context.Context, b storage.BucketName, c *storage.WebsiteConfiguration) error {
	s.rec("PutBucketWebsiteConfiguration", &b, nil, nil, nil, nil)
	return s.out()
}
func (s *c31Storage) DeleteBucketWebsiteConfiguration(ctx context.Context, b storage.BucketName) error {
	s.rec("DeleteBucketWebsiteConfiguration", &b, nil, nil, nil, nil)
	return s.out()
}
func (s *c31Storage) GetBucketCORSConfiguration(ctx context.Context, b storage.BucketName) (*storage.BucketCORSConfiguration, error) {
	first := len(s.tr.ev) == 0
	s.rec("GetBucketCORSConfiguration", &b, nil, nil, nil, nil)
	if s.origin && first {
		// the CORS middleware's lookup: an uncacheable failure, so the corscache wrapper does not
		// swallow the handler's own call and no CORS rule interferes with the request
		return nil, c31ErrBoom
	}
	if err := s.out(); err != nil {
		return nil, err
	}
	return &storage.BucketCORSConfiguration{}, nil
}
func (s *c31Storage) PutBucketCORSConfiguration(ctx context.Context, b storage.BucketName, c *storage.BucketCORSConfiguration) error {
	s.rec("PutBucketCORSConfiguration", &b, nil, nil, nil, nil)
	return s.out()
}
func (s *c31Storage) DeleteBucketCORSConfiguration(ctx context.Context, b storage.BucketName) error {
	s.rec("DeleteBucketCORSConfiguration", &b, nil, nil, nil, nil)
	return s.out()
}
func (s *c31Storage) GetBucketLifecycleConfiguration(ctx context.Context, b storage.BucketName) (*storage.BucketLifecycleConfiguration, error) {
	s.rec("GetBucketLifecycleConfiguration", &b, nil, nil, nil, nil)
	if err := s.out(); err != nil {
		return nil, err
	}
	return &storage.BucketLifecycleConfiguration{}, nil
}
func (s *c31Storage) PutBucketLifecycleConfiguration(ctx context.Context, b storage.BucketName, c *storage.BucketLifecycleConfiguration) error {
	s.rec("PutBucketLifecycleConfiguration", &b, nil, nil, nil, nil)
	return s.out()
}
func (s *c31Storage) DeleteBucketLifecycleConfiguration(ctx context.Context, b storage.BucketName) error {
	s.rec("DeleteBucketLifecycleConfiguration", &b, nil, nil, nil, nil)
	return s.out()
}
func (s *c31Storage) GetBucketNotificationConfiguration(ctx context.Context, b storage.BucketName) (*storage.BucketNotificationConfiguration, error) {
	s.rec("GetBucketNotificationConfiguration", &b, nil, nil, nil, nil)
	if err := s.out(); err != nil {
		return nil, err
	}
	return &storage.BucketNotificationConfiguration{}, nil
}
func (s *c31Storage) PutBucketNotificationConfiguration(ctx context.Context, b storage.BucketName, c *storage.BucketNotificationConfiguration) error {
	s.rec("PutBucketNotificationConfiguration", &b, nil, nil, nil, nil)
	return s.out()
}

func c31Data(b storage.BucketName, k storage.ObjectKey) string {
	return "DATA:" + b.String() + "/" + k.String() + ";"
}
func c31Obj(b storage.BucketName, k storage.ObjectKey) *storage.Object {
	return &storage.Object{Key: k, LastModified: time.Unix(1700000000, 0), ETag: "\"e\"", Size: int64(len(c31Data(b, k)))}
}

// after returns the items strictly after the marker (items are sorted ascending), cut to max
func c31After(items []string, marker *string, less func(a, b string) bool, max int32) ([]string, bool) {
	var rest []string
	for _, it := range items {
		if marker == nil || less(*marker, it) {
			rest = append(rest, it)
		}
	}
	if max <= 0 {
		max = 1000
	}
	if int32(len(rest)) > max {
		return rest[:max], true
	}
	return rest, false
}
func c31StrLess(a, b string) bool { return a < b }
func c31NumLess(a, b string) bool {
	x, _ := strconv.Atoi(a)
	y, _ := strconv.Atoi(b)
	return x < y
}

func (s *c31Storage) ListObjects(ctx context.Context, b storage.BucketName, o storage.ListObjectsOptions) (*storage.ListBucketResult, error) {
	s.rec("ListObjects", &b, nil, nil, nil, nil)
	if err := s.out(); err != nil {
		return nil, err
	}
	page, trunc := c31After(s.items, o.StartAfter, c31StrLess, o.MaxKeys)
	res := &storage.ListBucketResult{IsTruncated: trunc}
	for _, k := range page {
		res.Objects = append(res.Objects, *c31Obj(b, storage.MustNewObjectKey(k)))
	}
	return res, nil
}
func (s *c31Storage) ListObjectVersions(ctx context.Context, b storage.BucketName, o storage.ListObjectVersionsOptions) (*storage.ListObjectVersionsResult, error) {
	s.rec("ListObjectVersions", &b, nil, nil, nil, nil)
	if err := s.out(); err != nil {
		return nil, err
	}
	res := &storage.ListObjectVersionsResult{}
	for _, k := range s.items {
		res.Versions = append(res.Versions, storage.ObjectVersion{Key: storage.MustNewObjectKey(k), VersionID: "null", IsLatest: true, LastModified: time.Unix(1700000000, 0)})
	}
	return res, nil
}
func (s *c31Storage) HeadObject(ctx context.Context, b storage.BucketName, k storage.ObjectKey, o *storage.HeadObjectOptions) (*storage.Object, error) {
	s.rec("HeadObject", &b, &k, nil, nil, nil)
	if s.wcfg != "" {
		return s.webObject(b, k)
	}
	if err := s.out(); err != nil {
		return nil, err
	}
	return c31Obj(b, k), nil
}
func (s *c31Storage) webObject(b storage.BucketName, k storage.ObjectKey) (*storage.Object, error) {
	key := k.String()
	if key == "err.html" {
		if s.werr == "ok" {
			return c31Obj(b, k), nil
		}
		return nil, storage.ErrNoSuchKey
	}
	if strings.HasSuffix(key, "/index.html") && s.wobj == "nf" {
		// the directory-index probe (the requested key itself was not found)
		if nProbe := s.countCalls(); nProbe > 1 {
			if s.widx {
				return c31Obj(b, k), nil
			}
			return nil, storage.ErrNoSuchKey
		}
	}
	switch s.wobj {
	case "nf":
		return nil, storage.ErrNoSuchKey
	case "err":
		return nil, c31ErrBoom
	case "redir":
		o := c31Obj(b, k)
		loc := "/elsewhere"
		o.Metadata.WebsiteRedirectLocation = &loc
		return o, nil
	}
	return c31Obj(b, k), nil
}

// number of object-level storage calls recorded so far (website flow: main call, then probe)
func (s *c31Storage) countCalls() int {
	n := 0
	for _, e := range s.tr.ev {
		if e.kind == 'S' && (e.name == "GetObject" || e.name == "HeadObject") {
			n++
		}
	}
	return n
}
func (s *c31Storage) GetObject(ctx context.Context, b storage.BucketName, k storage.ObjectKey, r []storage.ByteRange, o *storage.GetObjectOptions) (*storage.Object, []io.ReadCloser, error) {
	s.rec("GetObject", &b, &k, nil, nil, nil)
	var obj *storage.Object
	var err error
	if s.wcfg != "" {
		obj, err = s.webObject(b, k)
	} else if err = s.out(); err == nil {
		obj = c31Obj(b, k)
	}
	if err != nil {
		return nil, nil, err
	}
	return obj, []io.ReadCloser{io.NopCloser(strings.NewReader(c31Data(b, k)))}, nil
}
func (s *c31Storage) PutObject(ctx context.Context, b storage.BucketName, k storage.ObjectKey, ct *string, data io.Reader, ci *storage.ChecksumInput, o *storage.PutObjectOptions) (*storage.PutObjectResult, error) {
	s.rec("PutObject", &b, &k, nil, nil, nil)
	if err := s.out(); err != nil {
		return nil, err
	}
	e := "\"e\""
	return &storage.PutObjectResult{ETag: &e}, nil
}
func (s *c31Storage) CopyObject(ctx context.Context, sb storage.BucketName, sk storage.ObjectKey, b storage.BucketName, k storage.ObjectKey, o *storage.CopyObjectOptions) (*storage.CopyObjectResult, error) {
	s.rec("CopyObject", &b, &k, &sb, &sk, nil)
	if err := s.out(); err != nil {
		return nil, err
	}
	return &storage.CopyObjectResult{ETag: "\"e\"", LastModified: time.Unix(1700000000, 0)}, nil
}
func (s *c31Storage) AppendObject(ctx context.Context, b storage.BucketName, k storage.ObjectKey, data io.Reader, ci *storage.ChecksumInput, o *storage.AppendObjectOptions) (*storage.AppendObjectResult, error) {
	s.rec("AppendObject", &b, &k, nil, nil, nil)
	if err := s.out(); err != nil {
		return nil, err
	}
	return &storage.AppendObjectResult{ETag: "\"e\"", Size: 1}, nil
}
func (s *c31Storage) DeleteObject(ctx context.Context, b storage.BucketName, k storage.ObjectKey, o *storage.DeleteObjectOptions) (*storage.DeleteObjectResult, error) {
	s.rec("DeleteObject", &b, &k, nil, nil, nil)
	if err := s.out(); err != nil {
		return nil, err
	}
	return &storage.DeleteObjectResult{}, nil
}
func (s *c31Storage) DeleteObjects(ctx context.Context, b storage.BucketName, entries []storage.DeleteObjectsInputEntry) (*storage.DeleteObjectsResult, error) {
	var keys []string
	res := &storage.DeleteObjectsResult{}
	for _, e := range entries {
		keys = append(keys, e.Key.String())
		res.Entries = append(res.Entries, storage.DeleteObjectsEntry{Key: e.Key, Deleted: true})
	}
	s.rec("DeleteObjects", &b, nil, nil, nil, keys)
	if err := s.out(); err != nil {
		return nil, err
	}
	return res, nil
}
func (s *c31Storage) CreateMultipartUpload(ctx context.Context, b storage.BucketName, k storage.ObjectKey, ct *string, cst *string, o *storage.CreateMultipartUploadOptions) (*storage.InitiateMultipartUploadResult, error) {
	s.rec("CreateMultipartUpload", &b, &k, nil, nil, nil)
	if err := s.out(); err != nil {
		return nil, err
	}
	return &storage.InitiateMultipartUploadResult{UploadId: storage.MustNewUploadId("u1")}, nil
}
func (s *c31Storage) UploadPart(ctx context.Context, b storage.BucketName, k storage.ObjectKey, u storage.UploadId, pn int32, data io.Reader, ci *storage.ChecksumInput) (*storage.UploadPartResult, error) {
	s.rec("UploadPart", &b, &k, nil, nil, nil)
	if err := s.out(); err != nil {
		return nil, err
	}
	return &storage.UploadPartResult{ETag: "\"e\""}, nil
}
func (s *c31Storage) UploadPartCopy(ctx context.Context, sb storage.BucketName, sk storage.ObjectKey, b storage.BucketName, k storage.ObjectKey, u storage.UploadId, pn int32, o *storage.UploadPartCopyOptions) (*storage.UploadPartCopyResult, error) {
	s.rec("UploadPartCopy", &b, &k, &sb, &sk, nil)
	if err := s.out(); err != nil {
		return nil, err
	}
	return &storage.UploadPartCopyResult{ETag: "\"e\"", LastModified: time.Unix(1700000000, 0)}, nil
}
func (s *c31Storage) CompleteMultipartUpload(ctx context.Context, b storage.BucketName, k storage.ObjectKey, u storage.UploadId, ci *storage.ChecksumInput, o *storage.CompleteMultipartUploadOptions) (*storage.CompleteMultipartUploadResult, error) {
	s.rec("CompleteMultipartUpload", &b, &k, nil, nil, nil)
	if err := s.out(); err != nil {
		return nil, err
	}
	return &storage.CompleteMultipartUploadResult{ETag: "\"e\""}, nil
}
func (s *c31Storage) AbortMultipartUpload(ctx context.Context, b storage.BucketName, k storage.ObjectKey, u storage.UploadId) error {
	s.rec("AbortMultipartUpload", &b, &k, nil, nil, nil)
	return s.out()
}
func (s *c31Storage) ListMultipartUploads(ctx context.Context, b storage.BucketName, o storage.ListMultipartUploadsOptions) (*storage.ListMultipartUploadsResult, error) {
	s.rec("ListMultipartUploads", &b, nil, nil, nil, nil)
	if err := s.out(); err != nil {
		return nil, err
	}
	page, trunc := c31After(s.items, o.KeyMarker, c31StrLess, o.MaxUploads)
	res := &storage.ListMultipartUploadsResult{BucketName: b, IsTruncated: trunc, MaxUploads: o.MaxUploads}
	for _, k := range page {
		res.Uploads = append(res.Uploads, storage.Upload{Key: storage.MustNewObjectKey(k), UploadId: storage.MustNewUploadId("u-" + k), Initiated: time.Unix(1700000000, 0)})
	}
	return res, nil
}
func (s *c31Storage) ListParts(ctx context.Context, b storage.BucketName, k storage.ObjectKey, u storage.UploadId, o storage.ListPartsOptions) (*storage.ListPartsResult, error) {
	s.rec("ListParts", &b, &k, nil, nil, nil)
	if err := s.out(); err != nil {
		return nil, err
	}
	page, trunc := c31After(s.items, o.PartNumberMarker, c31NumLess, o.MaxParts)
	res := &storage.ListPartsResult{BucketName: b, Key: k, UploadId: u, IsTruncated: trunc, MaxParts: o.MaxParts}
	for _, p := range page {
		n, _ := strconv.Atoi(p)
		res.Parts = append(res.Parts, &storage.MultipartPart{PartNumber: int32(n), ETag: "\"e\"", LastModified: time.Unix(1700000000, 0)})
	}
	return res, nil
}
func (s *c31Storage) GetObjectTagging(ctx context.Context, b storage.BucketName, k storage.ObjectKey, o *storage.ObjectTaggingOptions) (map[string]string, error) {
	s.rec("GetObjectTagging", &b, &k, nil, nil, nil)
	if err := s.out(); err != nil {
		return nil, err
	}
	return map[string]string{"t": "v"}, nil
}
func (s *c31Storage) PutObjectTagging(ctx context.Context, b storage.BucketName, k storage.ObjectKey, tags map[string]string, o *storage.ObjectTaggingOptions) error {
	s.rec("PutObjectTagging", &b, &k, nil, nil, nil)
	return s.out()
}
func (s *c31Storage) DeleteObjectTagging(ctx context.Context, b storage.BucketName, k storage.ObjectKey, o *storage.ObjectTaggingOptions) error {
	s.rec("DeleteObjectTagging", &b, &k, nil, nil, nil)
	return s.out()
}

// ---------- request construction ----------
type c31Case struct {
	host, method, path, q, bucket, key, copysrc string
	valid, authd, origin                        bool
	main                                        string
	max                                         int
	items                                       []string
	wcfg, wobj                                  string
	widx                                        bool
	werr                                        string
	prog                                        c31Prog
}

func c31Parse(in string) c31Case {
	f := strings.Split(in, " ")
	c := c31Case{host: f[0], method: f[1], path: f[2], q: f[3], bucket: untokBytes(f[4]), key: untokBytes(f[5]), copysrc: untokBytes(f[6]),
		valid: f[7] == "1", authd: f[8] == "1", origin: f[9] == "1", main: f[10], items: untokList(f[12]),
		wcfg: f[13], wobj: f[14], widx: f[15] == "1", werr: f[16], prog: c31ParseProg(f[17])}
	c.max, _ = strconv.Atoi(f[11])
	if c.q == "-" {
		c.q = ""
	}
	return c
}

var c31QueryNames = map[byte]string{'v': "versioning", 'V': "versions", 'c': "cors", 'l': "lifecycle", 'n': "notification", 'w': "website",
	'u': "uploads", 'i': "uploadId", 'p': "partNumber", '2': "list-type", 'd': "delete", 'a': "append", 't': "tagging", 'I': "versionId"}

const (
	c31BodyVersioning   = `<VersioningConfiguration><Status>Enabled</Status></VersioningConfiguration>`
	c31BodyCORS         = `<CORSConfiguration><CORSRule><AllowedOrigin>*</AllowedOrigin><AllowedMethod>GET</AllowedMethod></CORSRule></CORSConfiguration>`
	c31BodyLifecycle    = `<LifecycleConfiguration><Rule><ID>r</ID><Status>Enabled</Status><Filter><Prefix>x</Prefix></Filter><Expiration><Days>1</Days></Expiration></Rule></LifecycleConfiguration>`
	c31BodyNotification = `<NotificationConfiguration></NotificationConfiguration>`
	c31BodyWebsite      = `<WebsiteConfiguration><IndexDocument><Suffix>index.html</Suffix></IndexDocument></WebsiteConfiguration>`
	c31BodyTagging      = `<Tagging><TagSet><Tag><Key>a</Key><Value>b</Value></Tag></TagSet></Tagging>`
)

func c31XMLEscape(s string) string {
	var b bytes.Buffer
	xml.EscapeText(&b, []byte(s))
	return b.String()
}

func (c c31Case) build() *http.Request {
	has := func(ch byte) bool { return strings.IndexByte(c.q, ch) >= 0 }
	// query
	var qs []string
	for i := 0; i < len(c.q); i++ {
		name := c31QueryNames[c.q[i]]
		val := ""
		switch c.q[i] {
		case 'i':
			if c.valid {
				val = "u1"
			}
		case 'p':
			val = "3"
			if !c.valid {
				val = "abc"
			}
		case '2':
			val = "2"
		case 'I':
			val = "v1"
		}
		if val == "" {
			qs = append(qs, name)
		} else {
			qs = append(qs, name+"="+url.QueryEscape(val))
		}
	}
	if c.max > 0 {
		for _, n := range []string{"max-keys", "max-uploads", "max-parts"} {
			qs = append(qs, n+"="+strconv.Itoa(c.max))
		}
	}
	host := "s3.localhost"
	p := "/"
	switch c.path {
	case "B":
		p = "/" + url.PathEscape(c.bucket)
	case "O":
		p = "/" + url.PathEscape(c.bucket) + "/" + c31EscapeKey(c.key)
	}
	if c.host == "W" {
		host = c.bucket + ".s3-website.localhost"
		p = "/" + c31EscapeKey(c.key)
	}
	// body
	body := "payload"
	if !c.valid {
		body = "<<<not-xml"
	} else if c.method == "PUT" && c.path == "B" {
		switch {
		case has('v'):
			body = c31BodyVersioning
		case has('c'):
			body = c31BodyCORS
		case has('l'):
			body = c31BodyLifecycle
		case has('n'):
			body = c31BodyNotification
		case has('w'):
			body = c31BodyWebsite
		}
	} else if c.method == "POST" && c.path == "B" {
		var b strings.Builder
		b.WriteString("<Delete>")
		for _, k := range c.items {
			b.WriteString("<Object><Key>" + c31XMLEscape(k) + "</Key></Object>")
		}
		b.WriteString("</Delete>")
		body = b.String()
	} else if c.method == "PUT" && c.path == "O" && has('t') {
		body = c31BodyTagging
	} else if c.method == "POST" && c.path == "O" {
		body = ""
	}
	u := "http://" + host + p
	if len(qs) > 0 {
		u += "?" + strings.Join(qs, "&")
	}
	req := httptest.NewRequest(c.method, u, strings.NewReader(body))
	req.Host = host
	if c.copysrc != "" {
		req.Header.Set("x-amz-copy-source", c.copysrc)
	}
	if c.origin {
		req.Header.Set("Origin", "https://example.com")
	}
	if !c.valid {
		req.Header.Set("Range", "bytes=abc")
		req.Header.Set("x-amz-storage-class", "BOGUS")
		req.Header.Set("Content-MD5", "!!!")
		req.Header.Set("If-None-Match", "xyz")
	}
	if c.authd {
		ctx := context.WithValue(req.Context(), authentication.IsAuthenticatedContextKey{}, true)
		ctx = context.WithValue(ctx, authentication.AccessKeyIdContextKey{}, "AKIDEXAMPLE")
		req = req.WithContext(ctx)
	}
	return req
}

func c31EscapeKey(k string) string {
	parts := strings.Split(k, "/")
	for i, s := range parts {
		parts[i] = url.PathEscape(s)
	}
	return strings.Join(parts, "/")
}

// ---------- response items ----------
type c31XMLKeys struct {
	Buckets  []string `xml:"Buckets>Bucket>Name"`
	Contents []string `xml:"Contents>Key"`
	Uploads  []string `xml:"Upload>Key"`
	Parts    []string `xml:"Part>PartNumber"`
	Versions []string `xml:"Version>Key"`
	Deleted  []string `xml:"Deleted>Key"`
}

func c31RespItems(c c31Case, rec *httptest.ResponseRecorder) []string {
	body := rec.Body.String()
	if c.host == "W" {
		var out []string
		for _, seg := range strings.Split(body, "DATA:")[1:] {
			if i := strings.Index(seg, ";"); i >= 0 {
				bk := seg[:i]
				if j := strings.Index(bk, "/"); j >= 0 {
					out = append(out, bk[j+1:])
				}
			}
		}
		return out
	}
	if rec.Code != 200 || !strings.Contains(rec.Header().Get("Content-Type"), "xml") {
		return nil
	}
	var k c31XMLKeys
	if err := xml.Unmarshal([]byte(body), &k); err != nil {
		return nil
	}
	var out []string
	out = append(out, k.Buckets...)
	out = append(out, k.Contents...)
	out = append(out, k.Uploads...)
	out = append(out, k.Parts...)
	out = append(out, k.Versions...)
	out = append(out, k.Deleted...)
	return out
}

// ---------- direct oracle (independent of the model) ----------
// which operation names legitimately cover a storage method (S3 action names)
var c31Covers = map[string][]string{
	"ListBuckets": {"ListBuckets"}, "HeadBucket": {"HeadBucket"}, "CreateBucket": {"CreateBucket"}, "DeleteBucket": {"DeleteBucket"},
	"GetBucketVersioningConfiguration": {"GetBucketVersioning"}, "PutBucketVersioningConfiguration": {"PutBucketVersioning"},
	"GetBucketWebsiteConfiguration": {"GetBucketWebsite"}, "PutBucketWebsiteConfiguration": {"PutBucketWebsite"}, "DeleteBucketWebsiteConfiguration": {"DeleteBucketWebsite"},
	"GetBucketCORSConfiguration": {"GetBucketCORS"}, "PutBucketCORSConfiguration": {"PutBucketCORS"}, "DeleteBucketCORSConfiguration": {"DeleteBucketCORS"},
	"GetBucketLifecycleConfiguration": {"GetBucketLifecycle"}, "PutBucketLifecycleConfiguration": {"PutBucketLifecycle"}, "DeleteBucketLifecycleConfiguration": {"DeleteBucketLifecycle"},
	"GetBucketNotificationConfiguration": {"GetBucketNotification"}, "PutBucketNotificationConfiguration": {"PutBucketNotification"},
	"ListObjects": {"ListObjects"}, "ListObjectVersions": {"ListObjectVersions"},
	"HeadObject": {"HeadObject", "HeadObjectVersion", "GetObject"}, "GetObject": {"GetObject", "GetObjectVersion"},
	"PutObject": {"PutObject"}, "CopyObject": {"CopyObject"}, "AppendObject": {"AppendObject"},
	"DeleteObject": {"DeleteObject", "DeleteObjectVersion"}, "DeleteObjects": {"DeleteObjects"},
	"CreateMultipartUpload": {"CreateMultipartUpload"}, "UploadPart": {"UploadPart"}, "UploadPartCopy": {"UploadPartCopy"},
	"CompleteMultipartUpload": {"CompleteMultipartUpload"}, "AbortMultipartUpload": {"AbortMultipartUpload"},
	"ListMultipartUploads": {"ListMultipartUploads"}, "ListParts": {"ListParts"},
	"GetObjectTagging": {"GetObjectTagging", "GetObjectVersionTagging"}, "PutObjectTagging": {"PutObjectTagging", "PutObjectVersionTagging"},
	"DeleteObjectTagging": {"DeleteObjectTagging", "DeleteObjectVersionTagging"},
}
var c31Mutating = map[string]bool{"CreateBucket": true, "DeleteBucket": true, "PutBucketVersioningConfiguration": true, "PutBucketWebsiteConfiguration": true,
	"DeleteBucketWebsiteConfiguration": true, "PutBucketCORSConfiguration": true, "DeleteBucketCORSConfiguration": true, "PutBucketLifecycleConfiguration": true,
	"DeleteBucketLifecycleConfiguration": true, "PutBucketNotificationConfiguration": true, "PutObject": true, "CopyObject": true, "AppendObject": true,
	"DeleteObject": true, "DeleteObjects": true, "CreateMultipartUpload": true, "UploadPart": true, "UploadPartCopy": true, "CompleteMultipartUpload": true,
	"AbortMultipartUpload": true, "PutObjectTagging": true, "DeleteObjectTagging": true}

func c31PtrEq(a, b *string) bool {
	if a == nil || b == nil {
		return a == nil && b == nil
	}
	return *a == *b
}

func c31Oracle(c c31Case, tr *c31Trace, rec *httptest.ResponseRecorder, items []string) string {
	var allowed []c31Event
	denied := false
	for i, e := range tr.ev {
		switch e.kind {
		case 'A':
			if denied {
				return "FAIL:authorizer consulted again after a deny"
			}
			if e.allowed {
				allowed = append(allowed, e)
			} else {
				denied = true
			}
		case 'S':
			if denied {
				return "FAIL:storage call " + e.name + " after the authorizer denied"
			}
			// the two configuration reads the property exempts
			if e.name == "GetBucketCORSConfiguration" && i == 0 && c.origin {
				continue
			}
			if e.name == "GetBucketWebsiteConfiguration" && c.host == "W" && i == 0 {
				continue
			}
			ok := false
			why := "no preceding allow"
			for _, a := range allowed {
				cov := false
				for _, o := range c31Covers[e.name] {
					if o == a.name {
						cov = true
					}
				}
				if !cov {
					why = "allowed operation " + a.name + " does not cover it"
					continue
				}
				if !c31PtrEq(a.bucket, e.bucket) {
					why = "authorized for another bucket"
					continue
				}
				if !c31PtrEq(a.srcb, e.srcb) || !c31PtrEq(a.srck, e.srck) {
					why = "copy source not the authorized one"
					continue
				}
				if e.key != nil && !c31PtrEq(a.key, e.key) {
					why = "authorized for key " + c31TokO(a.key) + " but acts on key " + c31TokO(e.key)
					continue
				}
				if c31Mutating[e.name] && luaauthz.VerifIsReadOnly(a.name) {
					why = "mutating call under an operation reported read-only"
					continue
				}
				ok = true
			}
			if !ok {
				return "FAIL:storage call " + e.name + ": " + why
			}
			if e.name == "DeleteObjects" {
				var want []string
				for _, k := range c.items {
					if k != "" && len(k) <= 1024 && c.prog.allow("DeleteObjectEntry|"+c31Opt(e.bucket)+"|"+k) {
						want = append(want, k)
					}
				}
				if strings.Join(want, "\x00") != strings.Join(e.keys, "\x00") {
					return "FAIL:multi-delete passes keys other than exactly the allowed entries"
				}
			}
		}
	}
	if denied {
		want := 401
		if c.authd {
			want = 403
		}
		if rec.Code != want {
			return fmt.Sprintf("FAIL:deny answered with status %d", rec.Code)
		}
		if strings.Contains(rec.Body.String(), "DATA:") {
			return "FAIL:object data returned although the authorizer denied"
		}
		return "OK"
	}
	// object data in the body must be data of a key authorized for reading
	for _, seg := range strings.Split(rec.Body.String(), "DATA:")[1:] {
		bk := seg[:strings.Index(seg, ";")]
		ok := false
		for _, a := range allowed {
			if (a.name == "GetObject" || a.name == "GetObjectVersion") && a.bucket != nil && a.key != nil && *a.bucket+"/"+*a.key == bk {
				ok = true
			}
		}
		if !ok {
			return "FAIL:response carries data of " + bk + " which was not authorized for reading"
		}
	}
	// listings hide exactly the denied items
	if rec.Code == 200 && c.host == "A" {
		hook := ""
		for _, e := range tr.ev {
			if e.kind == 'S' {
				switch e.name {
				case "ListBuckets":
					hook = "ListBucket"
				case "ListObjects", "ListObjectVersions":
					hook = "ListObject"
				case "ListMultipartUploads":
					hook = "ListMultipartUpload"
				case "ListParts":
					hook = "ListPart"
				}
			}
		}
		if hook != "" {
			var b *string
			if c.path != "R" {
				b = &c.bucket
			}
			max := c.max
			if max <= 0 || max > 1000 || hook == "ListBucket" || strings.Contains(c.q, "V") && !strings.Contains(c.q, "v") {
				max = 1000
			}
			var want []string
			for _, it := range c.items {
				if len(want) < max && c.prog.allow(hook+"|"+c31Opt(b)+"|"+it) {
					want = append(want, it)
				}
			}
			if strings.Join(want, "\x00") != strings.Join(items, "\x00") {
				return "FAIL:listing does not contain exactly the items the per-item hook allows"
			}
		}
	}
	return "OK"
}

// ---------- Run ----------
var c31Quiet sync.Once

func (c31) Run(in string, scratch string) Result {
	// the server logs every request; silence it once (the log is not an observable of this check)
	c31Quiet.Do(func() { slog.SetDefault(slog.New(slog.NewTextHandler(io.Discard, nil))) })
	c := c31Parse(in)
	tr := &c31Trace{}
	st := &c31Storage{tr: tr, main: c.main, items: c.items, origin: c.origin}
	if c.host == "W" {
		st.wcfg, st.wobj, st.werr, st.widx = c.wcfg, c.wobj, c.werr, c.widx
	}
	az := &c31Authorizer{prog: c.prog, tr: tr}
	h := server.SetupServer(nil, "eu-central-1", "s3.localhost", "s3-website.localhost", az, st)
	rec := httptest.NewRecorder()
	h.ServeHTTP(rec, c.build())
	items := c31RespItems(c, rec)

	var out []string
	for _, e := range tr.ev {
		switch e.kind {
		case 'A':
			ro, al := "0", "0"
			if luaauthz.VerifIsReadOnly(e.name) {
				ro = "1"
			}
			if e.allowed {
				al = "1"
			}
			out = append(out, "A:"+e.name+":"+c31TokO(e.bucket)+":"+c31TokO(e.key)+":"+c31TokO(e.srcb)+":"+c31TokO(e.srck)+":"+ro+":"+al)
		case 'S':
			out = append(out, "S:"+e.name+":"+c31TokO(e.bucket)+":"+c31TokO(e.key)+":"+c31TokO(e.srcb)+":"+c31TokO(e.srck)+":"+tokList(e.keys))
		case 'I':
			al := "0"
			if e.allowed {
				al = "1"
			}
			out = append(out, "I:"+e.name+":"+tokBytes(e.item)+":"+al)
		}
	}
	code := strconv.Itoa(rec.Code)
	if !c.valid && rec.Code >= 400 && rec.Code != 401 && rec.Code != 403 {
		code = "ERR"
	}
	out = append(out, "R:"+code+":"+tokList(items))

	// tags
	tags := []string{"prog:" + string(c.prog.kind), "host:" + c.host}
	firstOp := ""
	nS, nI, den := 0, 0, false
	for _, e := range tr.ev {
		switch e.kind {
		case 'A':
			if firstOp == "" {
				firstOp = e.name
			}
			if !e.allowed {
				den = true
			}
		case 'S':
			nS++
		case 'I':
			nI++
		}
	}
	switch {
	case firstOp == "" && nS == 0:
		tags = append(tags, "no-authz-no-storage")
	case firstOp == "":
		tags = append(tags, "storage-without-authz")
	default:
		tags = append(tags, "op:"+firstOp)
	}
	if den {
		tags = append(tags, "denied")
	} else if firstOp != "" {
		tags = append(tags, "allowed")
	}
	if nI > 0 {
		tags = append(tags, "per-item")
	}
	if c.copysrc != "" {
		tags = append(tags, "copy-header")
	}
	if !c.valid {
		tags = append(tags, "invalid-content")
	}
	// known-finding regions, from the input alone
	q := c.q
	if c.host == "A" && c.method == "GET" && c.path == "B" && strings.Contains(q, "V") && !strings.Contains(q, "v") && c.prog.kind != 'A' && len(c.items) > 0 {
		tags = append(tags, "kf:C31-listversions-unfiltered")
	}
	if c.host == "W" && (c.method == "GET" || c.method == "HEAD") {
		tags = append(tags, "kf:C31-website-unauthorized-keys")
	}
	return Result{Out: strings.Join(out, " "), Oracle: c31Oracle(c, tr, rec, items), Tags: tags}
}

// ---------- generator ----------
var c31Buckets = []string{"bkt", "bkt", "bkt", "my-bucket", "a.b-c", "bkt", "bkt", "bkt", "my-bucket", "a.b-c", "bkt", "bkt", "bkt", "my-bucket", "a.b-c", "bkt", "bkt", "bkt", "bkt", "src", "ab", "Bkt", "1.2.3.4", "a..b", "xn--abc", "-ab", "abc-s3alias", "a--b", "a.-b", "256.1.1.1", "01.2.3.4"}
var c31Keys = []string{"k1", "k1", "dir/obj", "a b", "idx/", "deep/dir/", "x+y", "é", "k%41"}
var c31CopySources = []string{"/src/sk", "src/sk", "src/a%2Fb", "/bkt/k1", "src/sk?versionId=3", "src", "/src/", "/", "src/%zz", "src/sk?a=%zz", "src/sk?a;b", "Sb/sk", "ab/sk", "/src/dir/obj", "//src/sk"}
var c31Methods = []string{"GET", "HEAD", "PUT", "POST", "DELETE", "OPTIONS", "PATCH"}
var c31MethodsW = []string{"GET", "GET", "GET", "HEAD", "PUT", "PUT", "PUT", "PUT", "POST", "POST", "DELETE", "DELETE", "DELETE", "OPTIONS", "PATCH"}
var c31ItemKeys = []string{"a", "a/b", "b", "c c", "d", "e&<", "f", "g", "h", "idx/index.html", "k1", "z"}
var c31ItemBuckets = []string{"alpha", "bkt", "my-bucket", "zeta.b"}

const c31QLetters = "vVclnwuip2datI"

func c31Bool(b bool) string {
	if b {
		return "1"
	}
	return "0"
}

func c31Line(host, method, path, q, bucket, key, cs string, valid, authd, origin bool, main string, max int, items []string, wcfg, wobj string, widx bool, werr, prog string) string {
	if q == "" {
		q = "-"
	}
	return strings.Join([]string{host, method, path, q, tokBytes(bucket), tokBytes(key), tokBytes(cs), c31Bool(valid), c31Bool(authd), c31Bool(origin),
		main, strconv.Itoa(max), tokList(items), wcfg, wobj, c31Bool(widx), werr, prog}, " ")
}

func c31Items(r *Rng, path, method, q string) []string {
	n := r.Intn(7)
	if r.Chance(20) {
		n = 0
	}
	pool := c31ItemKeys
	switch {
	case path == "R":
		pool = c31ItemBuckets
	case path == "O" && method == "GET" && strings.Contains(q, "i"):
		pool = []string{"1", "2", "3", "5", "8", "13", "21", "10000"}
	}
	seen := map[string]bool{}
	var out []string
	for i := 0; i < n; i++ {
		it := r.Pick(pool)
		if !seen[it] {
			seen[it] = true
			out = append(out, it)
		}
	}
	if path == "O" && method == "GET" && strings.Contains(q, "i") {
		sort.Slice(out, func(i, j int) bool { return c31NumLess(out[i], out[j]) })
	} else {
		sort.Strings(out)
	}
	if path == "B" && method == "POST" {
		// multi-delete bodies: duplicates, an empty (invalid) key, request order kept
		if r.Chance(30) && len(out) > 0 {
			out = append(out, out[0])
		}
		if r.Chance(20) {
			out = append(out, "")
		}
	}
	return out
}

func c31Prog1(r *Rng) string {
	switch r.Intn(6) {
	case 0:
		return "A"
	case 1:
		return "D"
	}
	return fmt.Sprintf("T%d.%d", r.Intn(1000), []int{10, 30, 50, 70, 90}[r.Intn(5)])
}

func (c31) Gen(r *Rng, tier string, n int) []string {
	var cases []string
	// (1) systematic sweep: every method x path x every set of at most two query flags x copy header,
	//     authorizer allow-all / deny-all / table, request content valid
	subsets := []string{""}
	for i := 0; i < len(c31QLetters); i++ {
		subsets = append(subsets, string(c31QLetters[i]))
		for j := i + 1; j < len(c31QLetters); j++ {
			subsets = append(subsets, string(c31QLetters[i])+string(c31QLetters[j]))
		}
	}
	for _, m := range c31Methods {
		for _, p := range []string{"R", "B", "O"} {
			for _, q := range subsets {
				for _, cs := range []string{"", "/src/sk"} {
					prog := []string{"A", "D", c31Prog1(r)}[r.Intn(3)]
					cases = append(cases, c31Line("A", m, p, q, "bkt", "k1", cs, true, r.Bool(), false, "ok", 0, c31Items(r, p, m, q), "plain", "ok", false, "none", prog))
				}
			}
		}
	}
	// (2) random: arbitrary flag sets, names, copy sources, environments, programs
	for len(cases) < n {
		host := "A"
		if r.Chance(12) {
			host = "W"
		}
		m := r.Pick(c31MethodsW)
		p := r.Pick([]string{"R", "B", "B", "B", "B", "O", "O", "O", "O", "O"})
		q := ""
		nq := r.Intn(4)
		if r.Chance(10) {
			nq = r.Intn(15)
		}
		for i := 0; i < nq; i++ {
			ch := c31QLetters[r.Intn(len(c31QLetters))]
			if strings.IndexByte(q, ch) < 0 {
				q += string(ch)
			}
		}
		bucket := r.Pick(c31Buckets)
		key := r.Pick(c31Keys)
		cs := ""
		if m == "PUT" && r.Chance(45) || r.Chance(5) {
			cs = r.Pick(c31CopySources)
		}
		if host == "W" {
			p = "O"
			if !r.Chance(20) {
				m = r.Pick([]string{"GET", "HEAD"})
			}
			key = r.Pick([]string{"", "k1", "dir/", "dir", "a b", "idx/"})
			if !r.Chance(10) {
				bucket = r.Pick(c31Buckets[:5])
			}
		}
		max := 0
		if r.Chance(50) {
			max = []int{1, 2, 3, 5, 1000, 1001, 5000}[r.Intn(7)]
		}
		cases = append(cases, c31Line(host, m, p, q, bucket, key, cs, !r.Chance(15), r.Bool(), r.Chance(15),
			[]string{"ok", "ok", "ok", "nf", "err"}[r.Intn(5)], max, c31Items(r, p, m, q),
			r.Pick([]string{"plain", "plain", "plain", "redirall", "ruleall", "rule404", "nocfg", "err"}),
			r.Pick([]string{"ok", "redir", "nf", "nf", "err"}), r.Bool(), r.Pick([]string{"none", "ok", "nf"}), c31Prog1(r)))
	}
	return cases
}
