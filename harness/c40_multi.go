//go:build verif

package main

// C40 extension: (1) GetObject with SEVERAL ranges whose consumer handles the range readers in any order of
// Read / Close (drain and close one after the other, close without draining, never close, close twice);
// (2) the part-store stack outbox over filesystem (mode "ob", tx-free streaming) with the outbox worker PARKED, so
// that the DeletePart entries of an overwrite / delete stay pending while the inner files still exist.
//
//	<mode fs|ob|sql> <versioned> <parts> M <s1-e1;s2-e2;...> <steps>
//	steps: r<i>.<n> | c<i> | o | d | x<j> | w (the parked worker runs: pending entries reach the inner store)

import (
	"bytes"
	"context"
	"fmt"
	"io"
	"os"
	"path/filepath"
	"strconv"
	"strings"
	"sync"
	"time"

	"github.com/jdillenkofer/pithos/internal/storage"
	"github.com/jdillenkofer/pithos/internal/storage/database"
	repositoryFactory "github.com/jdillenkofer/pithos/internal/storage/database/repository"
	"github.com/jdillenkofer/pithos/internal/storage/database/sqlite"
	"github.com/jdillenkofer/pithos/internal/storage/metadatapart"
	sqlMetadataStore "github.com/jdillenkofer/pithos/internal/storage/metadatapart/metadatastore/sql"
	"github.com/jdillenkofer/pithos/internal/storage/metadatapart/partstore"
	filesystemPartStore "github.com/jdillenkofer/pithos/internal/storage/metadatapart/partstore/filesystem"
	"github.com/jdillenkofer/pithos/internal/storage/metadatapart/partstore/outbox"
	"github.com/prometheus/client_golang/prometheus"
)

// inner store double: while parked, mutations of the inner store wait (the outbox worker blocks inside its replay)
type c40Gate struct {
	partstore.PartStore
	mu     sync.Mutex
	cond   *sync.Cond
	parked bool
}

func (g *c40Gate) wait() {
	g.mu.Lock()
	for g.parked {
		g.cond.Wait()
	}
	g.mu.Unlock()
}
func (g *c40Gate) park(p bool) {
	g.mu.Lock()
	g.parked = p
	g.mu.Unlock()
	g.cond.Broadcast()
}
func (g *c40Gate) PutPart(ctx context.Context, tx database.Tx, id partstore.PartId, r io.Reader) error {
	g.wait()
	return g.PartStore.PutPart(ctx, tx, id, r)
}
func (g *c40Gate) DeletePart(ctx context.Context, tx database.Tx, id partstore.PartId) error {
	g.wait()
	return g.PartStore.DeletePart(ctx, tx, id)
}
func (g *c40Gate) Capabilities() partstore.Capabilities { return partstore.CapabilitiesOf(g.PartStore) }

// storage on the stack outbox over (gated) filesystem
func c40OpenOutbox(dir string) (*metaEnv, *c40Gate, error) {
	tpl, err := metaTemplateDB(filepath.Dir(dir))
	if err != nil {
		return nil, nil, err
	}
	if err := os.WriteFile(filepath.Join(dir, "pithos.db"), tpl, 0o644); err != nil {
		return nil, nil, err
	}
	db, err := sqlite.OpenDatabase(filepath.Join(dir, "pithos.db"))
	if err != nil {
		return nil, nil, err
	}
	fsStore, err := filesystemPartStore.New(filepath.Join(dir, "parts"))
	if err != nil {
		return nil, nil, err
	}
	gate := &c40Gate{PartStore: fsStore}
	gate.cond = sync.NewCond(&gate.mu)
	obRepo, err := repositoryFactory.NewPartOutboxEntryRepository(db)
	if err != nil {
		return nil, nil, err
	}
	ps, err := outbox.New(db, "c40", gate, obRepo, prometheus.NewRegistry(), 30*time.Second)
	if err != nil {
		return nil, nil, err
	}
	br, e1 := repositoryFactory.NewBucketRepository(db)
	or, e2 := repositoryFactory.NewObjectRepository(db)
	pr, e3 := repositoryFactory.NewPartRepository(db)
	tr, e4 := repositoryFactory.NewTagRepository(db)
	ur, e5 := repositoryFactory.NewUserMetadataRepository(db)
	for _, e := range []error{e1, e2, e3, e4, e5} {
		if e != nil {
			return nil, nil, e
		}
	}
	ms, err := sqlMetadataStore.New(db, br, or, pr, tr, ur)
	if err != nil {
		return nil, nil, err
	}
	st, err := metadatapart.NewStorage(db, ms, ps)
	if err != nil {
		return nil, nil, err
	}
	ctx := context.Background()
	if err := st.Start(ctx); err != nil {
		return nil, nil, err
	}
	return &metaEnv{st: st, db: db, close: func() { gate.park(false); st.Stop(ctx); db.Close() }}, gate, nil
}

// part files of the filesystem store, by content
func c40PartFiles(scratch string, parts [][]byte) map[int]string {
	out := map[int]string{}
	ents, _ := os.ReadDir(filepath.Join(scratch, "parts"))
	for _, e := range ents {
		if strings.Contains(e.Name(), ".") {
			continue
		}
		if data, err := os.ReadFile(filepath.Join(scratch, "parts", e.Name())); err == nil {
			for i, c := range parts {
				if bytes.Equal(data, c) {
					out[i] = filepath.Join(scratch, "parts", e.Name())
				}
			}
		}
	}
	return out
}

type c40Setup struct {
	env      *metaEnv
	gate     *c40Gate
	whole    []byte
	partFile map[int]string
	b        storage.BucketName
	k        storage.ObjectKey
}

// bucket + multi-part object; for "ob" the uploads are flushed to the inner store, then the worker is parked
func c40Prepare(mode string, versioned bool, parts [][]byte, scratch string) (*c40Setup, error) {
	s := &c40Setup{b: storage.MustNewBucketName("bkt1"), k: storage.MustNewObjectKey("k1")}
	var err error
	if mode == "ob" {
		s.env, s.gate, err = c40OpenOutbox(scratch)
	} else {
		s.env, err = metaOpen(scratch, mode)
	}
	if err != nil {
		return nil, err
	}
	st := s.env.st
	ctx := context.Background()
	if err := st.CreateBucket(ctx, s.b); err != nil {
		return s, err
	}
	if versioned {
		var cfg storage.BucketVersioningConfiguration
		v := storage.BucketVersioningStatusEnabled
		cfg.Status = &v
		if err := st.PutBucketVersioningConfiguration(ctx, s.b, &cfg); err != nil {
			return s, err
		}
	}
	up, err := st.CreateMultipartUpload(ctx, s.b, s.k, nil, nil, nil)
	if err != nil {
		return s, err
	}
	for i, c := range parts {
		if _, err := st.UploadPart(ctx, s.b, s.k, up.UploadId, int32(i+1), bytes.NewReader(c), nil); err != nil {
			return s, err
		}
		s.whole = append(s.whole, c...)
	}
	if _, err := st.CompleteMultipartUpload(ctx, s.b, s.k, up.UploadId, nil, nil); err != nil {
		return s, err
	}
	if mode != "sql" {
		deadline := time.Now().Add(8 * time.Second)
		for {
			s.partFile = c40PartFiles(scratch, parts)
			if len(s.partFile) == len(parts) || mode == "fs" || time.Now().After(deadline) {
				break
			}
			time.Sleep(5 * time.Millisecond)
		}
		if mode == "ob" {
			if len(s.partFile) != len(parts) {
				return s, fmt.Errorf("outbox did not flush the uploaded parts to the inner store")
			}
			s.gate.park(true)
		}
	}
	return s, nil
}

func c40RunMulti(in string, f []string, scratch string) Result {
	mode, versioned := f[0], f[1] == "1"
	var parts [][]byte
	for _, t := range strings.Split(f[2], ",") {
		parts = append(parts, []byte(untokBytes(t)))
	}
	type rg struct{ s, e int }
	var ranges []rg
	for _, t := range strings.Split(f[4], ";") {
		se := strings.Split(t, "-")
		a, _ := strconv.Atoi(se[0])
		e, _ := strconv.Atoi(se[1])
		ranges = append(ranges, rg{a, e})
	}
	steps := strings.Split(f[5], ",")
	s, err := c40Prepare(mode, versioned, parts, scratch)
	if s != nil && s.env != nil {
		defer s.env.close()
	}
	if err != nil {
		return Result{Out: "SETUP-ERROR " + err.Error(), Oracle: "FAIL:setup " + err.Error()}
	}
	ctx := context.Background()
	st := s.env.st
	var brs []storage.ByteRange
	for _, r := range ranges {
		a, e := int64(r.s), int64(r.e)
		brs = append(brs, storage.ByteRange{Start: &a, End: &e})
	}
	_, readers, err := st.GetObject(ctx, s.b, s.k, brs, nil)
	if err != nil || len(readers) != len(ranges) {
		return Result{Out: "SETUP-ERROR GetObject", Oracle: fmt.Sprint("FAIL:setup GetObject: ", err, len(readers))}
	}
	n := len(readers)
	totals := make([][]byte, n)
	failed, closed, eof := make([]bool, n), make([]bool, n), make([]bool, n)
	defer func() {
		for i, rd := range readers {
			if !closed[i] {
				rd.Close()
			}
		}
	}()
	tags := map[string]bool{"mode-" + mode: true, "multi-range": true, "ranges-" + strconv.Itoa(n): true}
	if versioned {
		tags["versioned"] = true
	}
	oracle := "OK"
	var outs []string
	fresh := 0
	for _, stp := range steps {
		switch stp[0] {
		case 'r':
			ab := strings.Split(stp[1:], ".")
			i, _ := strconv.Atoi(ab[0])
			k, _ := strconv.Atoi(ab[1])
			if i >= n {
				continue
			}
			if failed[i] && !closed[i] {
				outs = append(outs, "ERR")
				continue
			}
			buf := make([]byte, k)
			kk, rerr := readers[i].Read(buf)
			exp := s.whole[ranges[i].s:ranges[i].e]
			switch {
			case kk > 0:
				outs = append(outs, tokBytes(string(buf[:kk])))
				totals[i] = append(totals[i], buf[:kk]...)
			case rerr == io.EOF:
				outs = append(outs, "EOF")
				if !closed[i] {
					if !eof[i] && !bytes.Equal(totals[i], exp) {
						oracle = fmt.Sprintf("FAIL:range %d: clean EOF after %d of %d bytes (short body reported as complete)", i, len(totals[i]), len(exp))
					}
					eof[i] = true
				} else {
					tags["read-after-close"] = true
				}
			case rerr != nil:
				outs = append(outs, "ERR")
				failed[i] = true
				tags["read-error"] = true
				if mode == "sql" && !closed[i] {
					oracle = fmt.Sprintf("FAIL:range %d of a download from the SQL part store failed although its reader was never closed: %v", i, rerr)
				}
			default:
				outs = append(outs, "ZERO")
				oracle = "FAIL:Read returned 0, nil"
			}
		case 'c':
			i, _ := strconv.Atoi(stp[1:])
			if i < n {
				if closed[i] {
					tags["double-close"] = true
				} else if !eof[i] && !failed[i] {
					tags["close-undrained"] = true
				}
				readers[i].Close()
				closed[i] = true
			}
		case 'o':
			fresh++
			c := bytes.Repeat([]byte{0xEE, byte(fresh)}, 3+len(s.whole)/2)
			if _, err := st.PutObject(ctx, s.b, s.k, nil, bytes.NewReader(c), nil, nil); err != nil {
				oracle = "FAIL:concurrent overwrite failed: " + err.Error()
			}
			tags["overwrite"] = true
		case 'd':
			if _, err := st.DeleteObject(ctx, s.b, s.k, nil); err != nil {
				oracle = "FAIL:concurrent delete failed: " + err.Error()
			}
			tags["delete"] = true
		case 'x':
			j, _ := strconv.Atoi(stp[1:])
			if p, ok := s.partFile[j]; ok {
				os.Remove(p)
			}
			tags["gc-part"] = true
		case 'w':
			if s.gate != nil {
				s.gate.park(false)
				time.Sleep(30 * time.Millisecond)
				s.gate.park(true)
				tags["worker-ran"] = true
			}
		}
	}
	for i := range readers {
		exp := s.whole[ranges[i].s:ranges[i].e]
		if !bytes.HasPrefix(exp, totals[i]) {
			oracle = fmt.Sprintf("FAIL:range %d: delivered bytes are not a prefix of the resolved version's range", i)
		}
		outs = append(outs, "t"+strconv.Itoa(i)+":"+tokBytes(string(totals[i])))
	}
	var tl []string
	for t := range tags {
		tl = append(tl, t)
	}
	sortStrings(tl)
	return Result{Out: strings.Join(outs, " "), Oracle: oracle, Tags: tl}
}

// generator of multi-range cases
func c40GenMulti(g *Rng, serial int) string {
	mode := []string{"sql", "sql", "fs", "ob", "ob"}[g.Intn(5)]
	ver := "0"
	if g.Chance(15) {
		ver = "1"
	}
	np := 3 + g.Intn(3)
	var parts []string
	total := 0
	for j := 0; j < np; j++ {
		sz := 1 + g.Intn(10)
		c := g.Bytes(sz)
		c[0] = byte(j + 1)
		if sz > 1 {
			c[1] = byte(serial)
		}
		parts = append(parts, tokBytes(string(c)))
		total += sz
	}
	nr := 1 + g.Intn(3)
	if mode == "sql" && nr == 1 {
		nr = 2
	}
	var rgs []string
	for i := 0; i < nr; i++ {
		a := g.Intn(total)
		e := a + 1 + g.Intn(total-a)
		rgs = append(rgs, strconv.Itoa(a)+"-"+strconv.Itoa(e))
	}
	var steps []string
	env := 0
	pattern := g.Intn(4) // 0: drain+close in order, 1: close without draining, 2: never close, 3: random
	closedGen := make([]bool, nr)
	envStep := func() {
		if env >= 3 || !g.Chance(45) {
			return
		}
		env++
		switch x := g.Intn(10); {
		case x < 5:
			steps = append(steps, "o")
		case x < 8:
			steps = append(steps, "d")
		case x < 9 && mode != "sql":
			steps = append(steps, "x"+strconv.Itoa(g.Intn(np)))
		default:
			if mode == "ob" {
				steps = append(steps, "w")
			} else {
				steps = append(steps, "o")
			}
		}
	}
	switch pattern {
	case 0, 1, 2:
		for i := 0; i < nr; i++ {
			envStep()
			m := np + 2
			if pattern == 1 && g.Chance(60) {
				m = g.Intn(2)
			}
			for j := 0; j < m; j++ {
				steps = append(steps, "r"+strconv.Itoa(i)+"."+strconv.Itoa([]int{1, 3, 5, 64}[g.Intn(4)]))
				if g.Chance(25) {
					envStep()
				}
			}
			if pattern != 2 {
				steps = append(steps, "c"+strconv.Itoa(i))
				closedGen[i] = true
				if g.Chance(30) {
					steps = append(steps, "c"+strconv.Itoa(i)) // double Close
				}
			}
		}
	default:
		for j, m := 0, 6+g.Intn(12); j < m; j++ {
			i := g.Intn(nr)
			switch {
			case g.Chance(15):
				steps = append(steps, "c"+strconv.Itoa(i))
				closedGen[i] = true
			case closedGen[i] && !g.Chance(10):
				envStep()
			default:
				steps = append(steps, "r"+strconv.Itoa(i)+"."+strconv.Itoa([]int{1, 3, 5, 64}[g.Intn(4)]))
			}
			if g.Chance(20) {
				envStep()
			}
		}
		for i := 0; i < nr; i++ {
			if !closedGen[i] {
				for j := 0; j < np+1; j++ {
					steps = append(steps, "r"+strconv.Itoa(i)+".64")
				}
			}
		}
	}
	return strings.Join([]string{mode, ver, strings.Join(parts, ","), "M", strings.Join(rgs, ";"), strings.Join(steps, ",")}, " ")
}
