//go:build verif

package main

// HTTP leg of the M-META engine (stack "http"): the engine's reads and simple writes go through the REAL
// handlers of internal/http/server (router, virtual-host/CORS middlewares, handler glue, XML/headers)
// instead of calling storage.Storage directly.  metaHTTP implements storage.Storage by embedding the real
// storage (everything not overridden stays direct) and overriding HeadObject, GetObject, PutObject,
// DeleteObject, ListObjects, ListObjectVersions (+ CopyObject, multipart, append, UploadPartCopy, see
// meta_http_ext.go) with in-process HTTP requests whose status, headers and XML bodies are translated
// back into the storage types and errors the engine compares.  Case lines, model and expected outputs are
// unchanged: the HTTP stack must be observationally equal to the direct stacks.
//
// What the wire cannot carry and how it is handled:
//   - Last-Modified has second granularity.  The engine names a Last-Modified by the op whose time window
//     contains it (nanoseconds).  After every successful HEAD/GET the adapter asks the real storage directly
//     for the version the RESPONSE names, checks that the wire value is exactly that version's timestamp at
//     wire granularity (and that ETag, size and version id on the wire are that version's), and hands the
//     precise timestamp to the engine, so the model comparison and the C13 oracle keep their full strength.
//     Any disagreement is a "wire" fault and the wire value is passed on unchanged (which also breaks the
//     correspondence).  Some http cases sleep > 1 s once between two ops so that versions written before and
//     after differ on the wire.
//   - GET answers Content-Type application/octet-stream when none is stored; that default is mapped back
//     to "no content type" (any other value is passed on).
//   - HEAD responses have no body: a 404 is resolved into NoSuchBucket/NoSuchKey by a HEAD on the bucket,
//     as a client would do.
import (
	"crypto/md5"
	"encoding/base64"
	"bytes"
	"context"
	"encoding/xml"
	"fmt"
	"io"
	"log/slog"
	"net/http"
	"net/http/httptest"
	"net/url"
	"strconv"
	"strings"
	"sync"
	"time"

	"github.com/jdillenkofer/pithos/internal/http/server"
	"github.com/jdillenkofer/pithos/internal/storage"
)

type metaHTTP struct {
	storage.Storage // the real storage: target of everything that is not overridden, and of the precision probes
	h               http.Handler
	mu              sync.Mutex
	faults          []string
	notes           map[string]bool // tags for the evidence (adapter went direct / saw a 500)
	lists           int
	deco            int
}

// decorate adds request headers that must not change what the engine observes (tags and user metadata are not
// read back by it; a correct Content-MD5 only adds a validation that passes). A handler that loses another option
// while it processes one of these (e.g. rebuilds its options struct for the tagging header) then shows.
func (m *metaHTTP) decorate(h map[string]string, body []byte, tagging, meta bool) {
	m.deco++
	k := m.deco * 7 % 8
	if tagging && k&1 != 0 {
		h["x-amz-tagging"] = "verif=1&k=v"
	}
	if meta && k&2 != 0 {
		h["x-amz-meta-verif"] = "x"
	}
	if body != nil && k&4 != 0 {
		sum := md5.Sum(body)
		h["Content-MD5"] = base64.StdEncoding.EncodeToString(sum[:])
	}
}

var metaHTTPQuiet sync.Once

func newMetaHTTP(inner storage.Storage) *metaHTTP {
	// the server logs every request at Info level
	metaHTTPQuiet.Do(func() { slog.SetDefault(slog.New(slog.NewTextHandler(io.Discard, nil))) })
	m := &metaHTTP{Storage: inner}
	m.h = server.SetupServer(nil, "eu-central-1", "s3.localhost", "s3-website.localhost", c06AllowAll{}, inner)
	return m
}

func (m *metaHTTP) fault(format string, a ...any) {
	m.mu.Lock()
	m.faults = append(m.faults, fmt.Sprintf(format, a...))
	m.mu.Unlock()
}

func (m *metaHTTP) note(tag string) {
	m.mu.Lock()
	if m.notes == nil {
		m.notes = map[string]bool{}
	}
	m.notes[tag] = true
	m.mu.Unlock()
}

func (m *metaHTTP) takeFaults() []string {
	m.mu.Lock()
	defer m.mu.Unlock()
	f := m.faults
	m.faults = nil
	return f
}

type metaResp struct {
	code int
	hdr  http.Header
	body []byte
}

func (m *metaHTTP) do(ctx context.Context, method, bucket, key string, q url.Values, hdr map[string]string, body []byte) metaResp {
	p := "/" + bucket
	if key != "" {
		p += "/" + key
	}
	u := url.URL{Scheme: "http", Host: "s3.localhost", Path: p, RawQuery: q.Encode()}
	var rd io.Reader
	if body != nil {
		rd = bytes.NewReader(body)
	}
	req := httptest.NewRequest(method, u.String(), rd).WithContext(ctx)
	req.Host = "s3.localhost"
	for k, v := range hdr {
		req.Header.Set(k, v)
	}
	rec := httptest.NewRecorder()
	m.h.ServeHTTP(rec, req)
	r := metaResp{code: rec.Code, hdr: rec.Header(), body: rec.Body.Bytes()}
	if method == http.MethodHead {
		r.body = nil // a HEAD response has no body on the wire
	}
	return r
}

type metaErrXML struct {
	Code string `xml:"Code"`
}

var metaSentinels = []error{storage.ErrNoSuchBucket, storage.ErrNoSuchKey, storage.ErrBucketAlreadyExists, storage.ErrBucketNotEmpty,
	storage.ErrPreconditionFailed, storage.ErrInvalidRange, storage.ErrInvalidPartOrder, storage.ErrInvalidPart,
	storage.ErrInvalidWriteOffset, storage.ErrNotModified, storage.ErrInvalidBucketName, storage.ErrEntityTooLarge,
	storage.ErrTooManyParts, storage.ErrNotImplemented}

type metaWireError struct{ msg string }

func (e *metaWireError) Error() string { return e.msg }

// status + headers (+ XML error body) -> the storage error the engine classifies
func (m *metaHTTP) toError(ctx context.Context, r metaResp, bucket string) error {
	dm := r.hdr.Get("x-amz-delete-marker") == "true"
	switch {
	case r.code == 404 && dm:
		return &storage.CurrentDeleteMarkerError{VersionID: r.hdr.Get("x-amz-version-id")}
	case r.code == 405 && dm:
		lm, _ := http.ParseTime(r.hdr.Get("Last-Modified"))
		return &storage.VersionDeleteMarkerMethodNotAllowedError{VersionID: r.hdr.Get("x-amz-version-id"), LastModified: lm}
	case r.code == 304:
		return storage.ErrNotModified
	case r.code == 412:
		return storage.ErrPreconditionFailed
	case r.code == 416:
		return storage.ErrInvalidRange
	}
	if len(r.body) > 0 {
		var x metaErrXML
		if xml.Unmarshal(r.body, &x) == nil {
			for _, s := range metaSentinels {
				if x.Code == s.Error() {
					return s
				}
			}
			return &metaWireError{fmt.Sprintf("HTTP %d %s", r.code, x.Code)}
		}
	}
	if r.code == 404 { // no body (HEAD): which of the two is missing?
		if hb := m.do(ctx, http.MethodHead, bucket, "", nil, nil, nil); hb.code == 404 {
			return storage.ErrNoSuchBucket
		}
		return storage.ErrNoSuchKey
	}
	return &metaWireError{fmt.Sprintf("HTTP %d", r.code)}
}

func metaHdrPtr(h http.Header, k string) *string {
	if v, ok := h[http.CanonicalHeaderKey(k)]; ok && len(v) > 0 {
		s := v[0]
		return &s
	}
	return nil
}

// the object a 200/206 response describes; total is the full object size
func (m *metaHTTP) toObject(ctx context.Context, r metaResp, bucket storage.BucketName, key storage.ObjectKey, isGet bool, what string) (*storage.Object, error) {
	obj := &storage.Object{Key: key, ETag: r.hdr.Get("ETag"), VersionID: metaHdrPtr(r.hdr, "x-amz-version-id"), ContentType: metaHdrPtr(r.hdr, "Content-Type")}
	if isGet && obj.ContentType != nil && *obj.ContentType == "application/octet-stream" {
		obj.ContentType = nil // the GET handler's default for "none stored"
	}
	cl, err := strconv.ParseInt(r.hdr.Get("Content-Length"), 10, 64)
	if err != nil {
		return nil, &metaWireError{what + ": no Content-Length"}
	}
	obj.Size = cl
	if r.code == 206 {
		cr := r.hdr.Get("Content-Range") // bytes a-b/total
		var a, b, total int64
		if _, err := fmt.Sscanf(cr, "bytes %d-%d/%d", &a, &b, &total); err != nil {
			return nil, &metaWireError{what + ": bad Content-Range " + cr}
		}
		if b-a+1 != cl {
			m.fault("%s: Content-Range %q does not span Content-Length %d", what, cr, cl)
		}
		obj.Size = total
	}
	if isGet && int64(len(r.body)) != cl {
		m.fault("%s: body has %d bytes, Content-Length says %d", what, len(r.body), cl)
	}
	wireLM, err := http.ParseTime(r.hdr.Get("Last-Modified"))
	if err != nil {
		return nil, &metaWireError{what + ": bad Last-Modified " + r.hdr.Get("Last-Modified")}
	}
	obj.LastModified = wireLM
	// precision probe: the version the response names, asked directly
	var ho *storage.HeadObjectOptions
	if obj.VersionID != nil {
		ho = &storage.HeadObjectOptions{VersionID: obj.VersionID}
	}
	d, derr := m.Storage.HeadObject(ctx, bucket, key, ho)
	if derr != nil {
		m.fault("%s: the response names version %v which the storage does not serve: %v", what, metaOpt(obj.VersionID), derr)
		return obj, nil
	}
	ok := true
	if d.ETag != obj.ETag || d.Size != obj.Size {
		m.fault("%s: ETag/size on the wire (%s, %d) are not those of the named version (%s, %d)", what, obj.ETag, obj.Size, d.ETag, d.Size)
		ok = false
	}
	if !d.LastModified.Truncate(time.Second).Equal(wireLM) {
		m.fault("%s: Last-Modified on the wire %s is not the named version's %s", what, wireLM.UTC().Format(time.RFC3339), d.LastModified.UTC().Format(time.RFC3339Nano))
		ok = false
	}
	if ok {
		obj.LastModified = d.LastModified
	}
	return obj, nil
}

func (m *metaHTTP) HeadObject(ctx context.Context, bucket storage.BucketName, key storage.ObjectKey, opts *storage.HeadObjectOptions) (*storage.Object, error) {
	q := url.Values{}
	h := map[string]string{}
	if opts != nil {
		if opts.VersionID != nil {
			q.Set("versionId", *opts.VersionID)
		}
		if opts.IfMatchETag != nil {
			h["If-Match"] = *opts.IfMatchETag
		}
		if opts.IfNoneMatchETag != nil {
			h["If-None-Match"] = *opts.IfNoneMatchETag
		}
	}
	r := m.do(ctx, http.MethodHead, bucket.String(), key.String(), q, h, nil)
	if len(h) == 0 {
		m.parity(ctx, bucket.String(), key.String(), q, r, http.MethodGet)
	}
	if r.code != 200 {
		return nil, m.toError(ctx, r, bucket.String())
	}
	return m.toObject(ctx, r, bucket, key, false, "HEAD")
}

// Not part of the compared output: every unconditional, unranged HEAD/GET of the engine is repeated with the
// OTHER method and with the four conditional forms, for the same key and versionId, and the answers must
// agree: same status class, ETag, size, Last-Modified, version id and delete-marker headers from HEAD and
// GET; If-Match:<etag> and If-None-Match:<other> answer like the plain request, If-None-Match:<etag> 304,
// If-Match:<other> 412 — for current, non-current, null and delete-marker versions alike.
func (m *metaHTTP) parity(ctx context.Context, bucket, key string, q url.Values, r metaResp, other string) {
	o := m.do(ctx, other, bucket, key, q, nil, nil)
	me := map[string]string{http.MethodGet: "HEAD", http.MethodHead: "GET"}[other]
	where := fmt.Sprintf("%s/%s?%s", bucket, key, q.Encode())
	if o.code != r.code {
		m.fault("parity %s: %s answers %d, %s answers %d", where, me, r.code, other, o.code)
		return
	}
	for _, k := range []string{"ETag", "Content-Length", "Last-Modified", "x-amz-version-id", "x-amz-delete-marker"} {
		a, b := r.hdr.Get(k), o.hdr.Get(k)
		if k == "Last-Modified" && a != "" && b != "" {
			ta, _ := http.ParseTime(a)
			tb, _ := http.ParseTime(b)
			if ta.Equal(tb) {
				continue
			}
		}
		if a != b && r.code < 500 && !(r.code == 404 && k == "Content-Length") {
			m.fault("parity %s: header %s is %q from %s and %q from %s (status %d)", where, k, a, me, b, other, r.code)
		}
	}
	if r.code != 200 {
		return
	}
	etag := r.hdr.Get("ETag")
	for _, method := range []string{http.MethodHead, http.MethodGet} {
		for _, c := range []struct {
			hdr, val string
			want     int
		}{{"If-Match", etag, 200}, {"If-None-Match", metaBogusETag, 200}, {"If-None-Match", etag, 304}, {"If-Match", metaBogusETag, 412}} {
			p := m.do(ctx, method, bucket, key, q, map[string]string{c.hdr: c.val}, nil)
			if p.code != c.want {
				m.fault("conditional %s %s with %s: %s answers %d, expected %d", method, where, c.hdr, c.val, p.code, c.want)
			} else if p.code == 200 && (p.hdr.Get("ETag") != etag || p.hdr.Get("x-amz-version-id") != r.hdr.Get("x-amz-version-id")) {
				m.fault("conditional %s %s with %s: another object is served (ETag %s, version %s)", method, where, c.hdr, p.hdr.Get("ETag"), p.hdr.Get("x-amz-version-id"))
			}
		}
	}
}

// HTTP Range header for one storage.ByteRange (End exclusive; Start=nil = suffix): the server's parser maps
// it back to exactly the same ByteRange, also for empty/inverted ranges
func metaRangeHeader(br storage.ByteRange) string {
	switch {
	case br.Start == nil && br.End == nil:
		return ""
	case br.Start == nil:
		return "bytes=-" + strconv.FormatInt(*br.End, 10)
	case br.End == nil:
		return "bytes=" + strconv.FormatInt(*br.Start, 10) + "-"
	}
	return "bytes=" + strconv.FormatInt(*br.Start, 10) + "-" + strconv.FormatInt(*br.End-1, 10)
}

func (m *metaHTTP) GetObject(ctx context.Context, bucket storage.BucketName, key storage.ObjectKey, ranges []storage.ByteRange, opts *storage.GetObjectOptions) (*storage.Object, []io.ReadCloser, error) {
	if len(ranges) > 1 {
		return m.Storage.GetObject(ctx, bucket, key, ranges, opts) // multipart/byteranges is C05's business
	}
	q := url.Values{}
	h := map[string]string{}
	if opts != nil {
		if opts.VersionID != nil {
			q.Set("versionId", *opts.VersionID)
		}
		if opts.IfMatchETag != nil {
			h["If-Match"] = *opts.IfMatchETag
		}
		if opts.IfNoneMatchETag != nil {
			h["If-None-Match"] = *opts.IfNoneMatchETag
		}
	}
	ranged := false
	if len(ranges) == 1 {
		if rh := metaRangeHeader(ranges[0]); rh != "" {
			h["Range"] = rh
			ranged = true
		}
	}
	r := m.do(ctx, http.MethodGet, bucket.String(), key.String(), q, h, nil)
	if len(h) == 0 {
		m.parity(ctx, bucket.String(), key.String(), q, r, http.MethodHead)
	}
	if r.code != 200 && r.code != 206 {
		return nil, nil, m.toError(ctx, r, bucket.String())
	}
	if (r.code == 206) != ranged {
		m.fault("GET: status %d for a request %s Range header", r.code, map[bool]string{true: "with", false: "without"}[ranged])
	}
	obj, err := m.toObject(ctx, r, bucket, key, true, "GET")
	if err != nil {
		return nil, nil, err
	}
	return obj, []io.ReadCloser{io.NopCloser(bytes.NewReader(r.body))}, nil
}

func (m *metaHTTP) PutObject(ctx context.Context, bucket storage.BucketName, key storage.ObjectKey, contentType *string, data io.Reader, checksumInput *storage.ChecksumInput, opts *storage.PutObjectOptions) (*storage.PutObjectResult, error) {
	if contentType != nil || checksumInput != nil || (opts != nil && (opts.Tags != nil || opts.Metadata != nil || opts.StorageClass != nil)) {
		return m.Storage.PutObject(ctx, bucket, key, contentType, data, checksumInput, opts)
	}
	body, err := io.ReadAll(data)
	if err != nil {
		return nil, err
	}
	h := map[string]string{}
	if opts != nil {
		if opts.IfMatchETag != nil {
			h["If-Match"] = *opts.IfMatchETag
		}
		if opts.IfNoneMatchStar {
			h["If-None-Match"] = "*"
		}
	}
	if body == nil {
		body = []byte{}
	}
	m.decorate(h, body, true, true)
	r := m.do(ctx, http.MethodPut, bucket.String(), key.String(), nil, h, body)
	if r.code != 200 {
		return nil, m.toError(ctx, r, bucket.String())
	}
	return &storage.PutObjectResult{VersionID: metaHdrPtr(r.hdr, "x-amz-version-id"), ETag: metaHdrPtr(r.hdr, "ETag"),
		ChecksumCRC32: metaHdrPtr(r.hdr, "x-amz-checksum-crc32"), ChecksumCRC32C: metaHdrPtr(r.hdr, "x-amz-checksum-crc32c"),
		ChecksumCRC64NVME: metaHdrPtr(r.hdr, "x-amz-checksum-crc64nvme"), ChecksumSHA1: metaHdrPtr(r.hdr, "x-amz-checksum-sha1"),
		ChecksumSHA256: metaHdrPtr(r.hdr, "x-amz-checksum-sha256")}, nil
}

func (m *metaHTTP) DeleteObject(ctx context.Context, bucket storage.BucketName, key storage.ObjectKey, opts *storage.DeleteObjectOptions) (*storage.DeleteObjectResult, error) {
	q := url.Values{}
	h := map[string]string{}
	if opts != nil {
		if opts.VersionID != nil {
			q.Set("versionId", *opts.VersionID)
		}
		if opts.IfMatchETag != nil {
			h["If-Match"] = *opts.IfMatchETag
		}
	}
	r := m.do(ctx, http.MethodDelete, bucket.String(), key.String(), q, h, nil)
	if r.code != 204 {
		return nil, m.toError(ctx, r, bucket.String())
	}
	return &storage.DeleteObjectResult{VersionID: metaHdrPtr(r.hdr, "x-amz-version-id"), IsDeleteMarker: r.hdr.Get("x-amz-delete-marker") == "true"}, nil
}

type metaVersionsXML struct {
	IsTruncated bool `xml:"IsTruncated"`
	Versions    []struct {
		Key          string `xml:"Key"`
		VersionID    string `xml:"VersionId"`
		IsLatest     bool   `xml:"IsLatest"`
		LastModified string `xml:"LastModified"`
		ETag         string `xml:"ETag"`
		Size         int64  `xml:"Size"`
	} `xml:"Version"`
	DeleteMarkers []struct {
		Key          string `xml:"Key"`
		VersionID    string `xml:"VersionId"`
		IsLatest     bool   `xml:"IsLatest"`
		LastModified string `xml:"LastModified"`
	} `xml:"DeleteMarker"`
	CommonPrefixes      []string `xml:"CommonPrefixes>Prefix"`
	NextKeyMarker       *string  `xml:"NextKeyMarker"`
	NextVersionIDMarker *string  `xml:"NextVersionIdMarker"`
}

func (m *metaHTTP) ListObjectVersions(ctx context.Context, bucket storage.BucketName, opts storage.ListObjectVersionsOptions) (*storage.ListObjectVersionsResult, error) {
	q := url.Values{}
	q.Set("versions", "")
	q.Set("max-keys", strconv.Itoa(int(opts.MaxKeys)))
	for k, v := range map[string]*string{"prefix": opts.Prefix, "delimiter": opts.Delimiter, "key-marker": opts.KeyMarker, "version-id-marker": opts.VersionIDMarker} {
		if v != nil {
			q.Set(k, *v)
		}
	}
	r := m.do(ctx, http.MethodGet, bucket.String(), "", q, nil, nil)
	if r.code != 200 {
		return nil, m.toError(ctx, r, bucket.String())
	}
	var x metaVersionsXML
	if err := xml.Unmarshal(r.body, &x); err != nil {
		return nil, &metaWireError{"ListObjectVersions: " + err.Error()}
	}
	res := &storage.ListObjectVersionsResult{CommonPrefixes: x.CommonPrefixes, IsTruncated: x.IsTruncated, NextKeyMarker: x.NextKeyMarker, NextVersionIDMarker: x.NextVersionIDMarker}
	for _, v := range x.Versions {
		lm, _ := time.Parse(time.RFC3339, v.LastModified)
		et := v.ETag
		res.Versions = append(res.Versions, storage.ObjectVersion{Key: storage.MustNewObjectKey(v.Key), VersionID: v.VersionID, IsLatest: v.IsLatest, LastModified: lm, Size: v.Size, ETag: &et})
	}
	for _, v := range x.DeleteMarkers {
		lm, _ := time.Parse(time.RFC3339, v.LastModified)
		et := ""
		res.Versions = append(res.Versions, storage.ObjectVersion{Key: storage.MustNewObjectKey(v.Key), VersionID: v.VersionID, IsDeleteMarker: true, IsLatest: v.IsLatest, LastModified: lm, ETag: &et})
	}
	return res, nil
}

type metaListXML struct {
	IsTruncated bool `xml:"IsTruncated"`
	Contents    []struct {
		Key          string `xml:"Key"`
		LastModified string `xml:"LastModified"`
		ETag         string `xml:"ETag"`
		Size         int64  `xml:"Size"`
		StorageClass string `xml:"StorageClass"`
	} `xml:"Contents"`
	CommonPrefixes []string `xml:"CommonPrefixes>Prefix"`
}

// alternately ListObjects V1 and V2 (two handlers, one storage call)
func (m *metaHTTP) ListObjects(ctx context.Context, bucket storage.BucketName, opts storage.ListObjectsOptions) (*storage.ListBucketResult, error) {
	q := url.Values{}
	m.lists++
	v2 := m.lists%2 == 0
	if v2 {
		q.Set("list-type", "2")
	}
	q.Set("max-keys", strconv.Itoa(int(opts.MaxKeys)))
	if opts.Prefix != nil {
		q.Set("prefix", *opts.Prefix)
	}
	if opts.Delimiter != nil {
		q.Set("delimiter", *opts.Delimiter)
	}
	if opts.StartAfter != nil {
		if v2 {
			q.Set("start-after", *opts.StartAfter)
		} else {
			q.Set("marker", *opts.StartAfter)
		}
	}
	r := m.do(ctx, http.MethodGet, bucket.String(), "", q, nil, nil)
	if r.code != 200 {
		return nil, m.toError(ctx, r, bucket.String())
	}
	var x metaListXML
	if err := xml.Unmarshal(r.body, &x); err != nil {
		return nil, &metaWireError{"ListObjects: " + err.Error()}
	}
	res := &storage.ListBucketResult{CommonPrefixes: x.CommonPrefixes, IsTruncated: x.IsTruncated}
	for _, c := range x.Contents {
		lm, _ := time.Parse(time.RFC3339, c.LastModified)
		sc := c.StorageClass
		res.Objects = append(res.Objects, storage.Object{Key: storage.MustNewObjectKey(c.Key), ETag: c.ETag, Size: c.Size, LastModified: lm, StorageClass: &sc})
	}
	return res, nil
}

var _ = strings.TrimSpace
