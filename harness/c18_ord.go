//go:build verif

package main

import (
	"context"
	"database/sql"
	"fmt"
	"path/filepath"
	"strconv"
	"strings"
	"sync"
	"sync/atomic"

	"github.com/jdillenkofer/pithos/internal/storage"
	"github.com/jdillenkofer/pithos/internal/storage/database"
	repositoryFactory "github.com/jdillenkofer/pithos/internal/storage/database/repository"
	partOutboxEntry "github.com/jdillenkofer/pithos/internal/storage/database/repository/partoutboxentry"
	storageOutboxEntry "github.com/jdillenkofer/pithos/internal/storage/database/repository/storageoutboxentry"
	"github.com/jdillenkofer/pithos/internal/storage/metadatapart/partstore"
	"github.com/oklog/ulid/v2"
)

// "ORD <pairs> <spinners>" — regression detector shared by C18 and C21 for the fact both models take
// from the code: outbox entry ids sort in the order in which the entries were saved (everything is
// ORDER BY id). One goroutine saves <pairs> entries one after the other through the REAL sqlite
// repository (SavePartOutboxEntry for C18, SaveStorageOutboxEntry for C21; 500 per transaction) while
// <spinners> goroutines create ULIDs in a loop, as request ids, version ids and part ids do in a live
// server. Checked: every saved id is strictly greater than the one saved before it, and the
// repository's first / last / ORDER BY id agree with the save order. Output "ordered" or
// "inverted:<k>". Cannot fail on a tree whose ids cannot invert; with plain ulid.Make at the call
// sites (before /repo a39b16e) 3000 pairs with 16 spinners show dozens of inversions.
func c18OrdRun(kind string, in string, scratch string) Result {
	f := strings.Fields(in)
	pairs, _ := strconv.Atoi(f[1])
	spinners, _ := strconv.Atoi(f[2])
	tags := []string{"entry-id-order"}
	db, err := c21OpenDB(scratch, filepath.Join(scratch, "ord", "pithos.db"))
	if err != nil {
		return Result{Out: "SETUP-ERROR " + err.Error(), Oracle: "FAIL:setup", Tags: tags}
	}
	defer db.Close()
	ctx := context.Background()

	var stop atomic.Bool
	var wg sync.WaitGroup
	var sink atomic.Uint64
	for g := 0; g < spinners; g++ {
		wg.Add(1)
		go func() {
			defer wg.Done()
			for !stop.Load() {
				id := ulid.Make()
				sink.Add(uint64(id[15]))
			}
		}()
	}
	defer func() { stop.Store(true); wg.Wait() }()

	var ids []string
	var first, last string
	var ordered []string
	const batch = 500
	switch kind {
	case "part":
		repo, err := repositoryFactory.NewPartOutboxEntryRepository(db)
		if err != nil {
			return Result{Out: "SETUP-ERROR " + err.Error(), Oracle: "FAIL:setup", Tags: tags}
		}
		pid, _ := partstore.NewRandomPartId()
		for len(ids) < pairs {
			err := database.WithTx(ctx, db, &sql.TxOptions{ReadOnly: false}, func(ctx context.Context, tx database.Tx) error {
				for i := 0; i < batch && len(ids) < pairs; i++ {
					e := partOutboxEntry.Entity{Operation: partOutboxEntry.PutPartOperation, PartId: *pid}
					if err := repo.SavePartOutboxEntry(ctx, tx.SqlTx(), "ord", &e); err != nil {
						return err
					}
					ids = append(ids, e.Id.String())
				}
				return nil
			})
			if err != nil {
				return Result{Out: "ERROR " + err.Error(), Oracle: "FAIL:save " + err.Error(), Tags: tags}
			}
		}
		database.WithTx(ctx, db, &sql.TxOptions{ReadOnly: true}, func(ctx context.Context, tx database.Tx) error {
			if e, err := repo.FindLastPartOutboxEntryByPartId(ctx, tx.SqlTx(), "ord", *pid); err == nil && e != nil {
				last = e.Id.String()
			}
			ordered = c18OrdQuery(ctx, tx, "SELECT id FROM part_outbox_entries WHERE outbox_id = 'ord' ORDER BY id ASC")
			return nil
		})
		// the worker's head-of-line claim sees the first entry
		database.WithTx(ctx, db, &sql.TxOptions{ReadOnly: true}, func(ctx context.Context, tx database.Tx) error {
			r := c18OrdQuery(ctx, tx, "SELECT id FROM part_outbox_entries WHERE outbox_id = 'ord' ORDER BY id ASC LIMIT 1")
			if len(r) == 1 {
				first = r[0]
			}
			return nil
		})
	default:
		repo, err := repositoryFactory.NewStorageOutboxEntryRepository(db)
		if err != nil {
			return Result{Out: "SETUP-ERROR " + err.Error(), Oracle: "FAIL:setup", Tags: tags}
		}
		bn := storage.MustNewBucketName("ordbucket")
		for len(ids) < pairs {
			err := database.WithTx(ctx, db, &sql.TxOptions{ReadOnly: false}, func(ctx context.Context, tx database.Tx) error {
				for i := 0; i < batch && len(ids) < pairs; i++ {
					e := storageOutboxEntry.Entity{Operation: storageOutboxEntry.DeleteObjectStorageOperation, Bucket: bn, Key: "k"}
					if err := repo.SaveStorageOutboxEntry(ctx, tx.SqlTx(), "ord", &e); err != nil {
						return err
					}
					ids = append(ids, e.Id.String())
				}
				return nil
			})
			if err != nil {
				return Result{Out: "ERROR " + err.Error(), Oracle: "FAIL:save " + err.Error(), Tags: tags}
			}
		}
		database.WithTx(ctx, db, &sql.TxOptions{ReadOnly: true}, func(ctx context.Context, tx database.Tx) error {
			if e, err := repo.FindFirstStorageOutboxEntry(ctx, tx.SqlTx(), "ord"); err == nil && e != nil {
				first = e.Id.String()
			}
			if e, err := repo.FindLastStorageOutboxEntryForBucketAndKeyIncludingGlobal(ctx, tx.SqlTx(), "ord", bn, "k"); err == nil && e != nil {
				last = e.Id.String()
			}
			ordered = c18OrdQuery(ctx, tx, "SELECT id FROM storage_outbox_entries WHERE outbox_id = 'ord' ORDER BY id ASC")
			return nil
		})
	}
	stop.Store(true)

	inv := 0
	for i := 1; i < len(ids); i++ {
		if ids[i] <= ids[i-1] { // ULID strings compare like the ids
			inv++
		}
	}
	var why []string
	if inv > 0 {
		why = append(why, fmt.Sprintf("%d of %d consecutively saved entries got an id not greater than their predecessor's", inv, len(ids)-1))
	}
	if len(ordered) != len(ids) {
		why = append(why, fmt.Sprintf("ORDER BY id returned %d rows for %d saves", len(ordered), len(ids)))
	} else {
		for i := range ids {
			if ordered[i] != ids[i] {
				why = append(why, fmt.Sprintf("ORDER BY id position %d is the entry saved as number %d", i, c18OrdIndex(ids, ordered[i])))
				break
			}
		}
	}
	if len(ids) > 0 && first != ids[0] {
		why = append(why, "the first entry by id is not the first one saved")
	}
	if len(ids) > 0 && last != ids[len(ids)-1] {
		why = append(why, "the last entry by id is not the last one saved")
	}
	if len(why) == 0 {
		return Result{Out: "ordered", Oracle: "OK", Tags: tags}
	}
	out := "inverted:" + strconv.Itoa(inv)
	return Result{Out: out, Oracle: "FAIL:outbox entry ids do not sort in save order (" + strings.Join(why, "; ") + "): reads return an older acknowledged write and the worker replays out of order", Tags: tags}
}

func c18OrdQuery(ctx context.Context, tx database.Tx, q string) []string {
	rows, err := tx.SqlTx().QueryContext(ctx, q)
	if err != nil {
		return nil
	}
	defer rows.Close()
	var out []string
	for rows.Next() {
		var id string
		if rows.Scan(&id) == nil {
			out = append(out, id)
		}
	}
	return out
}
func c18OrdIndex(ids []string, id string) int {
	for i, x := range ids {
		if x == id {
			return i
		}
	}
	return -1
}
