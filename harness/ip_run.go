//go:build verif

package main

// Runner of interposition cases (see harness/ip.go).
//
//	IP <p> <k> <rival-op> <setup-op> ... <setup-op> <victim-op>
//
// ops in M-META syntax (coq/Model/Meta.v); the victim is the LAST op, its index n = number of setup ops, the rival has
// index n+1 (version ids it creates are named v<n+1>). k = statement boundary (before the k-th intercepted call of
// the victim's transaction); p = the same boundary as a position in the victim's statement program of the model
// (coq/Model/MetaIP.v), derived from the call trace by ipPosition. Output: the results of setup ops and victim as the
// M-META engine prints them, then the rival's result, then fin:<version>:<size>:<body> | fin:<error> (GET by key).

import (
	"bytes"
	"context"
	"database/sql"
	"errors"
	"io"
	"os"
	"strconv"
	"strings"

	"github.com/jdillenkofer/pithos/internal/storage"
)

type ipCase struct {
	p, k   int
	rival  string
	ops    []string // setup ops + victim
	victim string
}

func ipParse(line string) (*ipCase, bool) {
	f := strings.Split(line, " ")
	if len(f) < 5 || f[0] != "IP" {
		return nil, false
	}
	p, e1 := strconv.Atoi(f[1])
	k, e2 := strconv.Atoi(f[2])
	if e1 != nil || e2 != nil {
		return nil, false
	}
	return &ipCase{p: p, k: k, rival: f[3], ops: f[4:], victim: f[len(f)-1]}, true
}

type ipResult struct {
	out       string
	trace     []string
	fired     bool
	rivalOut  string
	victimOut string
	rerun     bool // the victim failed: the rival was re-run alone after the rollback
	infidel   string
}

// executes the rival op token with the given context; idx = its operation index (naming of version ids)
func ipExecRival(ctx context.Context, m *metaRun, tok string, idx int) string {
	st := m.env.st
	f := strings.Split(tok, ":")
	bn := storage.MustNewBucketName(untokBytes(f[1]))
	kn := storage.MustNewObjectKey(untokBytes(f[2]))
	name := func(v *string) string {
		if v == nil || *v == "" || *v == "null" {
			return "null"
		}
		m.vidName[*v] = "v" + strconv.Itoa(idx)
		m.opVid[idx] = *v
		return m.vidName[*v]
	}
	switch f[0] {
	case "app":
		var opts *storage.AppendObjectOptions
		if f[4] != "-" {
			o, _ := strconv.ParseInt(f[4], 10, 64)
			opts = &storage.AppendObjectOptions{WriteOffset: &o}
		}
		res, err := st.AppendObject(ctx, bn, kn, bytes.NewReader([]byte(untokBytes(f[3]))), nil, opts)
		if err != nil {
			return metaErr(m, err)
		}
		m.opETag[idx] = res.ETag
		return "app:" + tokBytes(res.ETag) + ":" + strconv.FormatInt(res.Size, 10)
	case "put":
		im, inm := metaCref(m, f[4])
		var opts *storage.PutObjectOptions
		if im != nil || inm {
			opts = &storage.PutObjectOptions{IfMatchETag: im, IfNoneMatchStar: inm}
		}
		res, err := st.PutObject(ctx, bn, kn, nil, bytes.NewReader([]byte(untokBytes(f[3]))), nil, opts)
		if err != nil {
			return metaErr(m, err)
		}
		m.opETag[idx] = *res.ETag
		return "put:" + name(res.VersionID) + ":" + tokBytes(*res.ETag)
	case "del":
		im, _ := metaCref(m, f[4])
		var opts *storage.DeleteObjectOptions
		if im != nil {
			opts = &storage.DeleteObjectOptions{IfMatchETag: im}
		}
		res, err := st.DeleteObject(ctx, bn, kn, opts)
		if err != nil {
			return metaErr(m, err)
		}
		if res.VersionID != nil && res.IsDeleteMarker {
			return "del:" + name(res.VersionID) + ":1"
		}
		return "del:-:0"
	}
	return "BAD-RIVAL"
}

func ipIsErr(o string) bool {
	switch strings.SplitN(o, ":", 2)[0] {
	case "app", "put", "del", "obj", "ok", "upl", "etag", "lsv", "ls":
		return false
	}
	return true
}

func ipRun(c *ipCase, scratch, stack string) (*ipResult, error) {
	env, ctl, err := ipOpen(scratch, stack)
	if err != nil {
		return nil, err
	}
	defer env.close()
	m := &metaRun{env: env, sh: &shadow{buckets: map[string]*shBucket{}}, vidName: map[string]string{}, opVid: map[int]string{},
		opUpload: map[int]string{}, opETag: map[int]string{}, tags: map[string]bool{}, taint: map[string]string{}, mut: map[string]int{}, obs: map[string]*shVersion{}}
	n := len(c.ops) - 1
	res := &ipResult{}
	ctl.k = c.k
	ctl.rival = func(ctx context.Context, tx *sql.Tx) {
		_, _ = tx.ExecContext(ctx, "SAVEPOINT ip_rival")
		res.rivalOut = ipExecRival(ctx, m, c.rival, n+1)
		if ipIsErr(res.rivalOut) {
			_, _ = tx.ExecContext(ctx, "ROLLBACK TO ip_rival")
		}
		_, _ = tx.ExecContext(ctx, "RELEASE ip_rival")
	}
	// the doubles count only during the victim (the last op): armed by the hook that runs after the op before it
	if n == 0 {
		ctl.armed = true
	}
	m.afterOp = func(i int) {
		ctl.armed = i == n-1
	}
	out := m.exec(strings.Join(c.ops, " "))
	ctl.armed = false
	outs := strings.Split(out, " ")
	res.victimOut = outs[len(outs)-1]
	res.trace = ctl.trace
	res.fired = ctl.fired
	ctx := context.Background()
	if c.k > 0 {
		if !ctl.fired {
			// boundary beyond the victim's last statement: the rival simply runs after it
			res.rivalOut = ipExecRival(ctx, m, c.rival, n+1)
		} else if ipIsErr(res.victimOut) {
			// the victim's rollback discarded the nested rival: under READ COMMITTED only the victim's writes go away
			res.rerun = true
			again := ipExecRival(ctx, m, c.rival, n+1)
			if ipIsErr(again) != ipIsErr(res.rivalOut) || (ipIsErr(again) && again != res.rivalOut) {
				res.infidel = "rival answered " + res.rivalOut + " nested but " + again + " when re-run after the victim's rollback"
			}
		}
	}
	fin := "fin:"
	obj, readers, gerr := env.st.GetObject(ctx, storage.MustNewBucketName(untokBytes(strings.Split(c.victim, ":")[1])),
		storage.MustNewObjectKey(untokBytes(strings.Split(c.victim, ":")[2])), nil, nil)
	if gerr == nil {
		var body []byte
		for _, rd := range readers {
			b, rerr := io.ReadAll(rd)
			rd.Close()
			if rerr != nil {
				gerr = rerr
			}
			body = append(body, b...)
		}
		if gerr == nil {
			v := "null"
			if obj.VersionID != nil {
				if _, known := m.vidName[*obj.VersionID]; !known && *obj.VersionID != "null" && strings.HasPrefix(c.rival, "app:") && !ipIsErr(res.rivalOut) {
					m.vidName[*obj.VersionID] = "v" + strconv.Itoa(n+1) // AppendObjectResult carries no version id: the rival's version
				}
				v = m.nameVid(*obj.VersionID)
			}
			fin += v + ":" + strconv.FormatInt(obj.Size, 10) + ":" + tokBytes(string(body))
		}
	}
	if gerr != nil {
		var cdm *storage.CurrentDeleteMarkerError
		if errors.As(gerr, &cdm) {
			fin += "CurrentDM"
		} else {
			fin += metaErr(m, gerr)
		}
	}
	if c.k > 0 {
		res.out = out + " " + res.rivalOut + " " + fin
	} else {
		res.out = out + " " + fin
	}
	return res, nil
}

// Run of an IP line for property C07 / C12 (oracles: ipOracle)
func ipRunProp(in, scratch, prop string) Result {
	c, ok := ipParse(in)
	if !ok {
		return Result{Out: "PARSE-ERROR", Oracle: "-", Tags: []string{"invalid"}}
	}
	stack := "sql"
	if len(in)%2 == 0 {
		stack = "fs"
	}
	r, err := ipRun(c, scratch, stack)
	if err != nil {
		return Result{Out: "SETUP-ERROR " + err.Error(), Oracle: "FAIL:setup " + err.Error()}
	}
	if os.Getenv("VERIF_DEBUG") != "" {
		os.Stderr.WriteString("trace: " + ipTraceString(r.trace) + "\n")
	}
	tags := []string{"ip", "stack-" + stack, "victim-" + strings.SplitN(c.victim, ":", 2)[0], "rival-" + strings.SplitN(c.rival, ":", 2)[0]}
	if r.rerun {
		tags = append(tags, "victim-rolled-back")
	}
	if !r.fired {
		tags = append(tags, "boundary-not-reached")
	}
	vf, rf := strings.Split(c.victim, ":"), strings.Split(c.rival, ":")
	// known findings (READ COMMITTED visibility only), predicates on the input alone
	enabled := false
	for _, o := range c.ops {
		if strings.HasPrefix(o, "ver:") {
			enabled = strings.HasSuffix(o, ":E")
		}
	}
	if vf[0] == "app" && enabled {
		// versioning enabled: AppendObject becomes PutObject of a version computed from the victim's stale read, unguarded
		tags = append(tags, "enabled-appends", "kf:"+prop+"-append-enabled-unguarded-rc")
	} else if vf[0] == "app" && rf[0] == "put" && ipSetupHasContent(c.ops[:len(c.ops)-1], rf[3]) {
		// the rival's put re-uses bytes of an earlier part: dedup gives it that part id, the stored list becomes a
		// proper prefix of the victim's manifest and the part-prefix check accepts it
		tags = append(tags, "put-dedup-prefix", "kf:"+prop+"-append-dedup-prefix-put-rc")
	} else if vf[0] == "app" && rf[0] == "app" && vf[3] == rf[3] {
		// victim and rival append the same bytes: dedup gives both the same part id, the part-prefix check cannot tell
		tags = append(tags, "identical-appends", "kf:"+prop+"-append-identical-bytes-dedup-rc")
	}
	return Result{Out: r.out, Oracle: ipOracle(prop, c, r), Tags: tags}
}

func ipSetupHasContent(setup []string, content string) bool {
	for _, o := range setup {
		f := strings.Split(o, ":")
		if (f[0] == "app" || f[0] == "put") && len(f) >= 4 && f[3] == content {
			return true
		}
	}
	return false
}
