//go:build verif

package main

// C03 property driver.
//
// Case lines (see coq/Model/Fault.v):
//   h <stack> <op> <op> ...     history over the M-META engine; an op may carry a prefix
//        A!op    the operation is first run once per boundary crossing up to and including the DB commit with an
//                error injected there (each run must fail and leave NO trace), then once normally
//        P<j>!op the operation is run with an error injected at its j-th after-commit hook (variant j%2)
//   tx ...                      M-TX micro programs on the real TxController + filesystem part store (c03_tx.go)
//
// Direct oracle: snapshot (API sweep, every table, part directory) before == after whenever a run returned an error.

import (
	"hash/crc32"
	"os"
	"strconv"
	"strings"
)

type c03Prop struct{}

func init() { register("C03", &c03Prop{}) }

func (p *c03Prop) Parallel() bool { return true }

func c03IsErrOut(out string) bool {
	if out == "ok" {
		return false
	}
	for _, pre := range []string{"put:", "obj:", "del:", "upl:", "etag:", "app:", "lsv:", "ls:"} {
		if strings.HasPrefix(out, pre) {
			return false
		}
	}
	return true
}

// runs op g (one token) through the M-META engine and repairs the op-index based naming (the engine numbers
// the ops of one exec call from 0; here every op is its own call)
func c03Exec(m *metaRun, g int, tok string) string {
	if g == 0 {
		return m.exec(tok)
	}
	delete(m.opVid, 0)
	delete(m.opUpload, 0)
	delete(m.opETag, 0)
	out := m.exec(tok)
	gs := strconv.Itoa(g)
	if v, ok := m.opVid[0]; ok {
		delete(m.opVid, 0)
		m.opVid[g] = v
		m.vidName[v] = "v" + gs
		out = strings.Replace(out, ":v0:", ":v"+gs+":", 1)
	}
	if u, ok := m.opUpload[0]; ok {
		delete(m.opUpload, 0)
		m.opUpload[g] = u
		if out == "upl:u0" {
			out = "upl:u" + gs
		}
	}
	if e, ok := m.opETag[0]; ok {
		delete(m.opETag, 0)
		m.opETag[g] = e
	}
	return out
}

// after an operation that committed although it reported an error: learn the version ids it created
func c03LearnVersions(m *metaRun, g int) {
	ctx := contextBackground()
	bs, err := m.env.st.ListBuckets(ctx)
	if err != nil {
		return
	}
	for _, b := range bs {
		vr, err := m.env.st.ListObjectVersions(ctx, b.Name, listVersionsAll())
		if err != nil {
			continue
		}
		for _, v := range vr.Versions {
			if v.VersionID == "null" || v.VersionID == "" {
				continue
			}
			if _, ok := m.vidName[v.VersionID]; !ok {
				m.vidName[v.VersionID] = "v" + strconv.Itoa(g)
				m.opVid[g] = v.VersionID
			}
		}
	}
}

type c03Fail struct{ what, kf string }

func (p *c03Prop) Run(in string, scratch string) Result {
	f := strings.Split(in, " ")
	if f[0] == "tx" {
		return c03RunTx(f, scratch)
	}
	if f[0] != "h" || len(f) < 3 {
		return Result{Out: "PARSE-ERROR", Oracle: "FAIL:bad case line"}
	}
	stack := f[1]
	env, err := c03Open(scratch, stack, true)
	if err != nil {
		return Result{Out: "SETUP-ERROR " + err.Error(), Oracle: "FAIL:setup " + err.Error()}
	}
	defer env.meta.close()
	m := &metaRun{env: env.meta, sh: &shadow{buckets: map[string]*shBucket{}}, vidName: map[string]string{}, opVid: map[int]string{},
		opUpload: map[int]string{}, opETag: map[int]string{}, tags: map[string]bool{}, taint: map[string]string{}, mut: map[string]int{}, obs: map[string]*shVersion{}}
	var outs []string
	var fails []c03Fail
	tags := map[string]bool{"stack-" + stack: true}
	nInj, nPost := 0, 0
	kindsSeen := map[string]bool{}
	for g, tok := range f[2:] {
		switch {
		case strings.HasPrefix(tok, "A!"):
			op := tok[2:]
			before := c03Snapshot(env)
			var out string
			for n := 0; ; n++ {
				env.ctl.arm(n, -1)
				out = c03Exec(m, g, op)
				fired, kind := env.ctl.fired, env.ctl.firedKind
				env.ctl.disarm()
				if !fired || n > 200 {
					break
				}
				nInj++
				kindsSeen[kind] = true
				if !c03IsErrOut(out) {
					// the operation absorbed the fault and succeeded: no claim by C03; it is the final run
					tags["fault-absorbed"] = true
					break
				}
				m.windows = m.windows[:len(m.windows)-1]
				after := c03Snapshot(env)
				if d := before.diff(after); d != "" {
					kf := ""
					detail := c03FirstDiff(before.api+"\n"+before.tables+"\n"+before.published+"\n"+before.residue, after.api+"\n"+after.tables+"\n"+after.published+"\n"+after.residue)
					fails = append(fails, c03Fail{what: "op " + strconv.Itoa(g) + " (" + strings.SplitN(op, ":", 2)[0] + ") failed at crossing " + strconv.Itoa(n) + " [" + kind + "] with " + out + " but left a trace in: " + d + " " + detail, kf: kf})
					before = after // report each leak once
				}
			}
			outs = append(outs, "A!"+out)
		case strings.HasPrefix(tok, "P") && strings.Contains(tok, "!"):
			k := strings.Index(tok, "!")
			j, _ := strconv.Atoi(tok[1:k])
			op := tok[k+1:]
			before := c03Snapshot(env)
			env.ctl.arm(-1, j)
			out := c03Exec(m, g, op)
			fired := env.ctl.fired
			env.ctl.disarm()
			delete(m.opETag, g)
			if fired {
				nPost++
				tags["after-commit-fault-fired"] = true
				if c03IsErrOut(out) {
					after := c03Snapshot(env)
					if d := before.diff(after); d != "" {
						fails = append(fails, c03Fail{what: "op " + strconv.Itoa(g) + " (" + strings.SplitN(op, ":", 2)[0] + ") returned " + out + " from an after-commit hook although it committed; changed: " + d, kf: "C03-after-commit-error"})
					}
					c03LearnVersions(m, g)
					out = "ok"
				}
			}
			if c03IsErrOut(out) {
				outs = append(outs, "P!"+out)
			} else {
				outs = append(outs, "P!ok")
			}
		default:
			outs = append(outs, c03Exec(m, g, tok))
		}
	}
	for k := range kindsSeen {
		tags["fault-"+k] = true
	}
	if nInj == 0 && nPost == 0 {
		tags["no-fault-fired"] = true
	} else {
		tags["faults-"+c03Bucket(nInj+nPost)] = true
	}
	oracle := "OK"
	if len(fails) > 0 {
		oracle = "FAIL:" + fails[0].what
		if len(fails) > 1 {
			oracle += " (+" + strconv.Itoa(len(fails)-1) + " more)"
		}
		allKf := true
		kfs := map[string]bool{}
		for _, fl := range fails {
			if fl.kf == "" {
				allKf = false
			} else {
				kfs[fl.kf] = true
			}
		}
		if allKf {
			for k := range kfs {
				tags["kf:"+k] = true
			}
		}
	}
	if os.Getenv("VERIF_DEBUG") != "" {
		for _, fl := range fails {
			os.Stderr.WriteString(fl.what + " [kf=" + fl.kf + "]\n")
		}
	}
	var tl []string
	for t := range tags {
		tl = append(tl, t)
	}
	sortStrings(tl)
	return Result{Out: strings.Join(outs, " "), Oracle: oracle, Tags: tl}
}

func c03Bucket(n int) string {
	switch {
	case n < 10:
		return "1-9"
	case n < 50:
		return "10-49"
	case n < 200:
		return "50-199"
	}
	return "200+"
}

func (p *c03Prop) Gen(r *Rng, tier string, n int) []string {
	// main.go's seeds give shifted copies of one stream (state = seed*G, step = G): combine two outputs so that
	// different seeds give unrelated case sets
	r = &Rng{s: r.Next()*0x9E3779B97F4A7C15 ^ r.Next()}
	out := make([]string, 0, n)
	for i := 0; i < n; i++ {
		rr := r.Fork()
		if i%4 == 3 {
			out = append(out, c03GenTx(rr))
			continue
		}
		h := metaGenHistory(rr, "c01")
		toks := strings.Split(h, " ")
		if len(toks) > 28 {
			toks = append(toks[:22], toks[len(toks)-6:]...)
			// references beyond the cut resolve to "no such op" on both sides
		}
		for k, t := range toks {
			name := strings.SplitN(t, ":", 2)[0]
			mut := name == "put" || name == "del" || name == "app" || name == "cp" || name == "up" || name == "cpl" || name == "abt"
			switch {
			case mut && rr.Chance(55):
				toks[k] = "A!" + t
			case mut && rr.Chance(25):
				toks[k] = "P" + strconv.Itoa(rr.Intn(4)) + "!" + t
			case name == "get" && rr.Chance(15):
				toks[k] = "A!" + t
			}
		}
		line := strings.Join(toks, " ")
		stack := "fs"
		if crc32.ChecksumIEEE([]byte(line))%4 == 0 {
			stack = "sql"
		}
		out = append(out, "h "+stack+" "+line)
	}
	return out
}
