//go:build verif

package main

// HTTP leg, second part: CopyObject, UploadPartCopy, multipart (create / upload part / complete / abort) and
// AppendObject through their handlers.  Only the plain forms the engine uses go over the wire; anything
// with options the engine never sets (tags, metadata, storage class, checksums, copy conditions) stays direct.
//
// Two places where the handlers deliberately differ from the storage call and the adapter goes direct so that
// the case keeps its meaning (both are noted in docs/C13.md):
//   - CopyObject onto itself without a range is rejected by the handler (InvalidRequest, as S3 does for an
//     unchanged self-copy), the storage call performs it;
//   - a CompleteMultipartUpload that fails inside the storage with an error handleError has no mapping for
//     (UploadWithInvalidSequenceNumber) reaches the client as 500 InternalError; the storage error is then
//     looked up directly (a failed complete changes nothing) and the case is tagged http-500.
import (
	"context"
	"encoding/xml"
	"fmt"
	"io"
	"net/http"
	"net/url"
	"strconv"
	"strings"
	"time"

	"github.com/jdillenkofer/pithos/internal/storage"
)

func metaCopySource(b storage.BucketName, k storage.ObjectKey, v *string) string {
	s := "/" + b.String() + "/" + url.PathEscape(k.String())
	if v != nil {
		s += "?versionId=" + url.QueryEscape(*v)
	}
	return s
}

type metaCopyXML struct {
	ETag         string `xml:"ETag"`
	LastModified string `xml:"LastModified"`
}

func metaPlainConditions(c storage.CopySourceConditions) bool {
	return c.IfMatch == nil && c.IfNoneMatch == nil && c.IfModifiedSince == nil && c.IfUnmodifiedSince == nil
}

func (m *metaHTTP) CopyObject(ctx context.Context, sb storage.BucketName, sk storage.ObjectKey, db storage.BucketName, dk storage.ObjectKey, opts *storage.CopyObjectOptions) (*storage.CopyObjectResult, error) {
	var v *string
	var rng *storage.ByteRange
	if opts != nil {
		if opts.ReplaceMetadata || opts.ContentType != nil || opts.Metadata != nil || opts.ReplaceTags || opts.Tags != nil || opts.StorageClass != nil || !metaPlainConditions(opts.CopySourceConditions) {
			return m.Storage.CopyObject(ctx, sb, sk, db, dk, opts)
		}
		v, rng = opts.SourceVersionID, opts.Range
	}
	h := map[string]string{"x-amz-copy-source": metaCopySource(sb, sk, v)}
	if rng != nil {
		rh := metaRangeHeader(*rng)
		if rh == "" {
			// a ranged copy of "everything" (Start=End=nil) has no header form; without the header the handler
			// performs a plain copy, which keeps a multipart ETag where the ranged copy computes a new one
			m.note("whole-range-copy-direct")
			return m.Storage.CopyObject(ctx, sb, sk, db, dk, opts)
		}
		h["x-amz-copy-source-range"] = rh
	}
	if sb.Equals(db) && sk.Equals(dk) && h["x-amz-copy-source-range"] == "" {
		m.note("self-copy-direct")
		return m.Storage.CopyObject(ctx, sb, sk, db, dk, opts)
	}
	r := m.do(ctx, http.MethodPut, db.String(), dk.String(), nil, h, nil)
	if r.code != 200 {
		return nil, m.toError(ctx, r, db.String())
	}
	var x metaCopyXML
	if err := xml.Unmarshal(r.body, &x); err != nil {
		return nil, &metaWireError{"CopyObject: " + err.Error()}
	}
	lm, _ := time.Parse("2006-01-02T15:04:05.000Z", x.LastModified)
	return &storage.CopyObjectResult{ETag: x.ETag, LastModified: lm, VersionID: metaHdrPtr(r.hdr, "x-amz-version-id"), SourceVersionID: metaHdrPtr(r.hdr, "x-amz-copy-source-version-id")}, nil
}

func (m *metaHTTP) UploadPartCopy(ctx context.Context, sb storage.BucketName, sk storage.ObjectKey, db storage.BucketName, dk storage.ObjectKey, uid storage.UploadId, pn int32, opts *storage.UploadPartCopyOptions) (*storage.UploadPartCopyResult, error) {
	var v *string
	var rng *storage.ByteRange
	if opts != nil {
		if !metaPlainConditions(opts.CopySourceConditions) {
			return m.Storage.UploadPartCopy(ctx, sb, sk, db, dk, uid, pn, opts)
		}
		v, rng = opts.SourceVersionID, opts.Range
	}
	h := map[string]string{"x-amz-copy-source": metaCopySource(sb, sk, v)}
	if rng != nil {
		if rh := metaRangeHeader(*rng); rh != "" {
			h["x-amz-copy-source-range"] = rh
		}
	}
	q := url.Values{"uploadId": {uid.String()}, "partNumber": {strconv.Itoa(int(pn))}}
	r := m.do(ctx, http.MethodPut, db.String(), dk.String(), q, h, nil)
	if r.code != 200 {
		return nil, m.toError(ctx, r, db.String())
	}
	var x metaCopyXML
	if err := xml.Unmarshal(r.body, &x); err != nil {
		return nil, &metaWireError{"UploadPartCopy: " + err.Error()}
	}
	lm, _ := time.Parse("2006-01-02T15:04:05.000Z", x.LastModified)
	return &storage.UploadPartCopyResult{ETag: x.ETag, LastModified: lm, SourceVersionID: metaHdrPtr(r.hdr, "x-amz-copy-source-version-id")}, nil
}

func (m *metaHTTP) CreateMultipartUpload(ctx context.Context, b storage.BucketName, k storage.ObjectKey, contentType *string, checksumType *string, opts *storage.CreateMultipartUploadOptions) (*storage.InitiateMultipartUploadResult, error) {
	if contentType != nil || checksumType != nil || opts != nil {
		return m.Storage.CreateMultipartUpload(ctx, b, k, contentType, checksumType, opts)
	}
	h := map[string]string{}
	m.decorate(h, nil, true, true)
	r := m.do(ctx, http.MethodPost, b.String(), k.String(), url.Values{"uploads": {""}}, h, nil)
	if r.code != 200 {
		return nil, m.toError(ctx, r, b.String())
	}
	var x struct {
		UploadID string `xml:"UploadId"`
	}
	if err := xml.Unmarshal(r.body, &x); err != nil || x.UploadID == "" {
		return nil, &metaWireError{"CreateMultipartUpload: no UploadId in the response"}
	}
	return &storage.InitiateMultipartUploadResult{UploadId: storage.MustNewUploadId(x.UploadID)}, nil
}

func (m *metaHTTP) UploadPart(ctx context.Context, b storage.BucketName, k storage.ObjectKey, uid storage.UploadId, pn int32, data io.Reader, checksumInput *storage.ChecksumInput) (*storage.UploadPartResult, error) {
	if checksumInput != nil {
		return m.Storage.UploadPart(ctx, b, k, uid, pn, data, checksumInput)
	}
	body, err := io.ReadAll(data)
	if err != nil {
		return nil, err
	}
	if body == nil {
		body = []byte{}
	}
	q := url.Values{"uploadId": {uid.String()}, "partNumber": {strconv.Itoa(int(pn))}}
	r := m.do(ctx, http.MethodPut, b.String(), k.String(), q, nil, body)
	if r.code != 200 {
		return nil, m.toError(ctx, r, b.String())
	}
	return &storage.UploadPartResult{ETag: r.hdr.Get("ETag")}, nil
}

func (m *metaHTTP) CompleteMultipartUpload(ctx context.Context, b storage.BucketName, k storage.ObjectKey, uid storage.UploadId, checksumInput *storage.ChecksumInput, opts *storage.CompleteMultipartUploadOptions) (*storage.CompleteMultipartUploadResult, error) {
	if checksumInput != nil {
		return m.Storage.CompleteMultipartUpload(ctx, b, k, uid, checksumInput, opts)
	}
	h := map[string]string{}
	var body []byte
	if opts != nil {
		if opts.IfMatchETag != nil {
			h["If-Match"] = *opts.IfMatchETag
		}
		if opts.IfNoneMatchStar {
			h["If-None-Match"] = "*"
		}
		if len(opts.Parts) > 0 {
			var sb strings.Builder
			sb.WriteString("<CompleteMultipartUpload>")
			for _, p := range opts.Parts {
				if p.ChecksumCRC32 != nil || p.ChecksumCRC32C != nil || p.ChecksumCRC64NVME != nil || p.ChecksumSHA1 != nil || p.ChecksumSHA256 != nil {
					return m.Storage.CompleteMultipartUpload(ctx, b, k, uid, checksumInput, opts)
				}
				sb.WriteString("<Part><PartNumber>" + strconv.Itoa(int(p.PartNumber)) + "</PartNumber>")
				if p.ETag != "" {
					sb.WriteString("<ETag>")
					xml.EscapeText(&sb, []byte(p.ETag))
					sb.WriteString("</ETag>")
				}
				sb.WriteString("</Part>")
			}
			sb.WriteString("</CompleteMultipartUpload>")
			body = []byte(sb.String())
		}
	}
	r := m.do(ctx, http.MethodPost, b.String(), k.String(), url.Values{"uploadId": {uid.String()}}, h, body)
	if r.code == 500 {
		// the handler has no mapping for this storage error; a failed complete leaves no trace, so the precise
		// error can be looked up directly
		m.note("http-500")
		_, derr := m.Storage.CompleteMultipartUpload(ctx, b, k, uid, checksumInput, opts)
		if derr == nil {
			m.fault("CompleteMultipartUpload: 500 over HTTP but the same call succeeds directly")
			return nil, &metaWireError{"HTTP 500"}
		}
		return nil, derr
	}
	if r.code != 200 {
		return nil, m.toError(ctx, r, b.String())
	}
	var x struct {
		Location string `xml:"Location"`
		Bucket   string `xml:"Bucket"`
		Key      string `xml:"Key"`
		ETag     string `xml:"ETag"`
	}
	if err := xml.Unmarshal(r.body, &x); err != nil {
		return nil, &metaWireError{"CompleteMultipartUpload: " + err.Error()}
	}
	if x.Bucket != b.String() || x.Key != k.String() {
		m.fault("CompleteMultipartUpload: result names %s/%s, request was for %s/%s", x.Bucket, x.Key, b.String(), k.String())
	}
	return &storage.CompleteMultipartUploadResult{Location: x.Location, ETag: x.ETag, VersionID: metaHdrPtr(r.hdr, "x-amz-version-id")}, nil
}

func (m *metaHTTP) AbortMultipartUpload(ctx context.Context, b storage.BucketName, k storage.ObjectKey, uid storage.UploadId) error {
	r := m.do(ctx, http.MethodDelete, b.String(), k.String(), url.Values{"uploadId": {uid.String()}}, nil, nil)
	if r.code != 204 {
		return m.toError(ctx, r, b.String())
	}
	return nil
}

func (m *metaHTTP) AppendObject(ctx context.Context, b storage.BucketName, k storage.ObjectKey, data io.Reader, checksumInput *storage.ChecksumInput, opts *storage.AppendObjectOptions) (*storage.AppendObjectResult, error) {
	if checksumInput != nil {
		return m.Storage.AppendObject(ctx, b, k, data, checksumInput, opts)
	}
	body, err := io.ReadAll(data)
	if err != nil {
		return nil, err
	}
	if body == nil {
		body = []byte{}
	}
	h := map[string]string{}
	if opts != nil && opts.WriteOffset != nil {
		h["x-amz-write-offset-bytes"] = strconv.FormatInt(*opts.WriteOffset, 10)
	}
	m.decorate(h, body, false, false)
	r := m.do(ctx, http.MethodPut, b.String(), k.String(), url.Values{"append": {""}}, h, body)
	if r.code != 200 {
		return nil, m.toError(ctx, r, b.String())
	}
	size, err := strconv.ParseInt(r.hdr.Get("x-amz-object-size"), 10, 64)
	if err != nil {
		return nil, &metaWireError{fmt.Sprintf("AppendObject: bad x-amz-object-size %q", r.hdr.Get("x-amz-object-size"))}
	}
	return &storage.AppendObjectResult{ETag: r.hdr.Get("ETag"), Size: size}, nil
}
