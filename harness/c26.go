//go:build verif

package main

import (
	"bytes"
	"context"
	"crypto/sha512"
	"errors"
	"fmt"
	"io"
	"os"
	"reflect"
	"sort"
	"strconv"
	"strings"
	"sync"
	"sync/atomic"
	"time"
	_ "time/tzdata"

	"github.com/jdillenkofer/pithos/internal/auditlog"
	"github.com/jdillenkofer/pithos/internal/auditlog/signing"
	"github.com/jdillenkofer/pithos/internal/auditlog/sink"
	"github.com/jdillenkofer/pithos/internal/auditlog/tool"
	"github.com/jdillenkofer/pithos/internal/http/server/authentication"
	"github.com/jdillenkofer/pithos/internal/storage"
	"github.com/jdillenkofer/pithos/internal/storage/middlewares/audit"
)

// C26 — the audit log records every operation and always verifies. Line kinds: see coq/Model/AuditWriter.v.
type c26 struct{}

func init() { register("C26", c26{}) }

func (c26) Parallel() bool { return true }

// ---------------------------------------------------------------- process-local time zone (time.Local is process-global)
// Cases carry the zone the server process runs in. Cases of the same zone may run concurrently; a switch waits until
// nobody is inside. A zone token "A>B" (write in A, reopen/verify in B) runs exclusively.
var c26Zones = []string{"UTC", "Etc/GMT-2", "Pacific/Marquesas", "America/New_York", "Australia/Lord_Howe", "Asia/Kathmandu"}

var (
	c26ZoneMu    sync.Mutex
	c26ZoneCond  = sync.NewCond(&c26ZoneMu)
	c26ZoneCur   = "\x00initial"
	c26ZoneUsers int
	c26ZoneExcl  bool
)

func c26LoadZone(z string) *time.Location {
	loc, err := time.LoadLocation(z)
	if err != nil {
		panic("c26: cannot load zone " + z + ": " + err.Error())
	}
	return loc
}

// returns the leave function
func c26EnterZone(z string) func() {
	excl := strings.Contains(z, ">")
	anyZone := z == "" // zone-agnostic case: runs in whatever zone is current, but never during a switch
	c26ZoneMu.Lock()
	for c26ZoneUsers > 0 && (excl || c26ZoneExcl || (!anyZone && c26ZoneCur != z)) {
		c26ZoneCond.Wait()
	}
	if anyZone {
		// keep the current zone
	} else if excl {
		c26ZoneCur = "\x00excl"
	} else if c26ZoneCur != z {
		time.Local = c26LoadZone(z)
		c26ZoneCur = z
	}
	c26ZoneExcl = excl
	c26ZoneUsers++
	c26ZoneMu.Unlock()
	return func() {
		c26ZoneMu.Lock()
		c26ZoneUsers--
		if c26ZoneUsers == 0 {
			c26ZoneExcl = false
			c26ZoneCond.Broadcast()
		}
		c26ZoneMu.Unlock()
	}
}

// instants worth trying: second boundaries, zero / non-zero nanoseconds, DST switches, far past / future
var c26Instants = []int64{0, 1, -1, 999999999, 1000000000, 1000000001, -1000000000, -999999999, 500000000,
	1710054000000000000, 1710053999999999999, 1710054000000000001, // 2024-03-10 07:00:00Z: New York springs forward
	1730613600000000000, 1730613599999999999, // 2024-11-03 06:00:00Z: New York falls back
	1728142200000000000, 1728142199999999999, // 2024-10-05 15:30:00Z: Lord Howe +10:30 -> +11
	1700000000000000000, 1700000000123000000, 1700000000000000001, 1700000000999999999,
	1704067199999999999, 1704067200000000000, // year boundary
	-9223372036854775808, -9223372036854775807, 9223372036854775807, 9223372036854775806, // 1677 / 2262
	-8520336000000000000, -2208988800000000000, -2208988800000000001, 7258118400000000000, 9214646400000000000} // 1700, 1900, 2200, 2262

// ---------------------------------------------------------------- one operation of a workload
type c26Op struct {
	name, bucket, key, upload                string
	part                                     int32
	srcb, srck, ures, cred, auth, reqid, ip, err string
	callStamp                                int64 // global sequence number at which the storage double was entered
	called                                   int32
}

func (o *c26Op) tok() string {
	s := func(x string) string { return c27Tok([]byte(x)) }
	return strings.Join([]string{s(o.name), s(o.bucket), s(o.key), s(o.upload), strconv.Itoa(int(o.part)), s(o.srcb), s(o.srck), s(o.ures),
		s(o.cred), s(o.auth), s(o.reqid), s(o.ip), s(o.err)}, ",")
}
func c26ParseOp(t string) *c26Op {
	f := strings.Split(t, ",")
	s := func(i int) string { return string(c27Untok(f[i])) }
	p, _ := strconv.Atoi(f[4])
	return &c26Op{name: s(0), bucket: s(1), key: s(2), upload: s(3), part: int32(p), srcb: s(5), srck: s(6), ures: s(7), cred: s(8), auth: s(9), reqid: s(10), ip: s(11), err: s(12)}
}

// ---------------------------------------------------------------- recording storage double
type c26OpKey struct{}
type c26Store struct {
	storage.Storage // nil: methods not listed below panic when reached
	clock           *int64
}

func (s *c26Store) hit(ctx context.Context) error {
	o, _ := ctx.Value(c26OpKey{}).(*c26Op)
	if o == nil {
		return nil
	}
	atomic.StoreInt64(&o.callStamp, atomic.AddInt64(s.clock, 1))
	atomic.AddInt32(&o.called, 1)
	if o.err != "" {
		return errors.New(o.err)
	}
	return nil
}
func (s *c26Store) Start(ctx context.Context) error { return nil }
func (s *c26Store) Stop(ctx context.Context) error  { return nil }
func (s *c26Store) CreateBucket(ctx context.Context, b storage.BucketName) error { return s.hit(ctx) }
func (s *c26Store) DeleteBucket(ctx context.Context, b storage.BucketName) error { return s.hit(ctx) }
func (s *c26Store) ListBuckets(ctx context.Context) ([]storage.Bucket, error)    { return nil, s.hit(ctx) }
func (s *c26Store) HeadBucket(ctx context.Context, b storage.BucketName) (*storage.Bucket, error) {
	return nil, s.hit(ctx)
}
func (s *c26Store) ListObjects(ctx context.Context, b storage.BucketName, o storage.ListObjectsOptions) (*storage.ListBucketResult, error) {
	return nil, s.hit(ctx)
}
func (s *c26Store) HeadObject(ctx context.Context, b storage.BucketName, k storage.ObjectKey, o *storage.HeadObjectOptions) (*storage.Object, error) {
	return nil, s.hit(ctx)
}
func (s *c26Store) GetObject(ctx context.Context, b storage.BucketName, k storage.ObjectKey, r []storage.ByteRange, o *storage.GetObjectOptions) (*storage.Object, []io.ReadCloser, error) {
	return nil, nil, s.hit(ctx)
}
func (s *c26Store) PutObject(ctx context.Context, b storage.BucketName, k storage.ObjectKey, ct *string, d io.Reader, ci *storage.ChecksumInput, o *storage.PutObjectOptions) (*storage.PutObjectResult, error) {
	return nil, s.hit(ctx)
}
func (s *c26Store) CopyObject(ctx context.Context, sb storage.BucketName, sk storage.ObjectKey, db storage.BucketName, dk storage.ObjectKey, o *storage.CopyObjectOptions) (*storage.CopyObjectResult, error) {
	return nil, s.hit(ctx)
}
func (s *c26Store) AppendObject(ctx context.Context, b storage.BucketName, k storage.ObjectKey, d io.Reader, ci *storage.ChecksumInput, o *storage.AppendObjectOptions) (*storage.AppendObjectResult, error) {
	return nil, s.hit(ctx)
}
func (s *c26Store) DeleteObject(ctx context.Context, b storage.BucketName, k storage.ObjectKey, o *storage.DeleteObjectOptions) (*storage.DeleteObjectResult, error) {
	return nil, s.hit(ctx)
}
func (s *c26Store) DeleteObjects(ctx context.Context, b storage.BucketName, e []storage.DeleteObjectsInputEntry) (*storage.DeleteObjectsResult, error) {
	return nil, s.hit(ctx)
}
func (s *c26Store) CreateMultipartUpload(ctx context.Context, b storage.BucketName, k storage.ObjectKey, ct *string, cst *string, o *storage.CreateMultipartUploadOptions) (*storage.InitiateMultipartUploadResult, error) {
	if err := s.hit(ctx); err != nil {
		return nil, err
	}
	op, _ := ctx.Value(c26OpKey{}).(*c26Op)
	if op == nil || op.ures == "" {
		return nil, nil
	}
	return &storage.InitiateMultipartUploadResult{UploadId: storage.UploadId(c26Upload(op.ures))}, nil
}
func (s *c26Store) UploadPart(ctx context.Context, b storage.BucketName, k storage.ObjectKey, u storage.UploadId, p int32, d io.Reader, ci *storage.ChecksumInput) (*storage.UploadPartResult, error) {
	return nil, s.hit(ctx)
}
func (s *c26Store) UploadPartCopy(ctx context.Context, sb storage.BucketName, sk storage.ObjectKey, db storage.BucketName, dk storage.ObjectKey, u storage.UploadId, p int32, o *storage.UploadPartCopyOptions) (*storage.UploadPartCopyResult, error) {
	return nil, s.hit(ctx)
}
func (s *c26Store) CompleteMultipartUpload(ctx context.Context, b storage.BucketName, k storage.ObjectKey, u storage.UploadId, ci *storage.ChecksumInput, o *storage.CompleteMultipartUploadOptions) (*storage.CompleteMultipartUploadResult, error) {
	return nil, s.hit(ctx)
}
func (s *c26Store) AbortMultipartUpload(ctx context.Context, b storage.BucketName, k storage.ObjectKey, u storage.UploadId) error {
	return s.hit(ctx)
}
func (s *c26Store) ListParts(ctx context.Context, b storage.BucketName, k storage.ObjectKey, u storage.UploadId, o storage.ListPartsOptions) (*storage.ListPartsResult, error) {
	return nil, s.hit(ctx)
}
func (s *c26Store) PutBucketCORSConfiguration(ctx context.Context, b storage.BucketName, c *storage.BucketCORSConfiguration) error {
	return s.hit(ctx)
}
func (s *c26Store) GetBucketVersioningConfiguration(ctx context.Context, b storage.BucketName) (*storage.BucketVersioningConfiguration, error) {
	return nil, s.hit(ctx)
}
func (s *c26Store) GetObjectTagging(ctx context.Context, b storage.BucketName, k storage.ObjectKey, o *storage.ObjectTaggingOptions) (map[string]string, error) {
	return nil, s.hit(ctx)
}
func (s *c26Store) PutObjectTagging(ctx context.Context, b storage.BucketName, k storage.ObjectKey, t map[string]string, o *storage.ObjectTaggingOptions) error {
	return s.hit(ctx)
}
func (s *c26Store) DeleteObjectTagging(ctx context.Context, b storage.BucketName, k storage.ObjectKey, o *storage.ObjectTaggingOptions) error {
	return s.hit(ctx)
}
func (s *c26Store) TransitionObjectStorageClass(ctx context.Context, b storage.BucketName, k storage.ObjectKey, c string, o *storage.TransitionObjectStorageClassOptions) error {
	return s.hit(ctx)
}
func (s *c26Store) GetBucketNotificationConfiguration(ctx context.Context, b storage.BucketName) (*storage.BucketNotificationConfiguration, error) {
	return nil, s.hit(ctx)
}
func (s *c26Store) PutBucketNotificationConfiguration(ctx context.Context, b storage.BucketName, c *storage.BucketNotificationConfiguration) error {
	return s.hit(ctx)
}

func c26Bucket(n string) storage.BucketName { b, _ := storage.NewBucketName(n); return b }
func c26Key(n string) storage.ObjectKey      { k, _ := storage.NewObjectKey(n); return k }
func c26Upload(n string) storage.UploadId    { u, _ := storage.NewUploadId(n); return u }

// issue one storage call through the middleware
func c26Call(m storage.Storage, o *c26Op) {
	ctx := context.WithValue(context.Background(), c26OpKey{}, o)
	if o.cred != "" {
		ctx = context.WithValue(ctx, authentication.AccessKeyIdContextKey{}, o.cred)
	}
	if o.auth != "" {
		ctx = context.WithValue(ctx, authentication.AuthTypeContextKey{}, o.auth)
	}
	if o.reqid != "" {
		ctx = context.WithValue(ctx, authentication.RequestIDContextKey{}, o.reqid)
	}
	if o.ip != "" {
		ctx = context.WithValue(ctx, authentication.ClientIPContextKey{}, o.ip)
	}
	b, k, u := c26Bucket(o.bucket), c26Key(o.key), c26Upload(o.upload)
	sb, sk := c26Bucket(o.srcb), c26Key(o.srck)
	switch o.name {
	case "CreateBucket":
		m.CreateBucket(ctx, b)
	case "DeleteBucket":
		m.DeleteBucket(ctx, b)
	case "ListBuckets":
		m.ListBuckets(ctx)
	case "HeadBucket":
		m.HeadBucket(ctx, b)
	case "ListObjects":
		m.ListObjects(ctx, b, storage.ListObjectsOptions{})
	case "HeadObject":
		m.HeadObject(ctx, b, k, nil)
	case "GetObject":
		m.GetObject(ctx, b, k, nil, nil)
	case "PutObject":
		m.PutObject(ctx, b, k, nil, nil, nil, nil)
	case "CopyObject":
		m.CopyObject(ctx, sb, sk, b, k, nil)
	case "AppendObject":
		m.AppendObject(ctx, b, k, nil, nil, nil)
	case "DeleteObject":
		m.DeleteObject(ctx, b, k, nil)
	case "DeleteObjects":
		m.DeleteObjects(ctx, b, nil)
	case "CreateMultipartUpload":
		m.CreateMultipartUpload(ctx, b, k, nil, nil, nil)
	case "UploadPart":
		m.UploadPart(ctx, b, k, u, o.part, nil, nil)
	case "UploadPartCopy":
		m.UploadPartCopy(ctx, sb, sk, b, k, u, o.part, nil)
	case "CompleteMultipartUpload":
		m.CompleteMultipartUpload(ctx, b, k, u, nil, nil)
	case "AbortMultipartUpload":
		m.AbortMultipartUpload(ctx, b, k, u)
	case "ListParts":
		m.ListParts(ctx, b, k, u, storage.ListPartsOptions{})
	case "PutBucketCORSConfiguration":
		m.PutBucketCORSConfiguration(ctx, b, nil)
	case "GetBucketVersioningConfiguration":
		m.GetBucketVersioningConfiguration(ctx, b)
	case "GetObjectTagging":
		m.GetObjectTagging(ctx, b, k, nil)
	case "PutObjectTagging":
		m.PutObjectTagging(ctx, b, k, nil, nil)
	case "DeleteObjectTagging":
		m.DeleteObjectTagging(ctx, b, k, nil)
	case "TransitionObjectStorageClass":
		m.TransitionObjectStorageClass(ctx, b, k, "GLACIER", nil)
	case "GetBucketNotificationConfiguration":
		m.GetBucketNotificationConfiguration(ctx, b)
	case "PutBucketNotificationConfiguration":
		m.PutBucketNotificationConfiguration(ctx, b, nil)
	default:
		panic("c26: unknown op " + o.name)
	}
}

// which resource fields the middleware records for an operation (how the case generator fills an op)
type c26Spec struct {
	name                       string
	key, upload, part, src bool
}

var c26Audited = []c26Spec{
	{"CreateBucket", false, false, false, false}, {"DeleteBucket", false, false, false, false}, {"HeadBucket", false, false, false, false},
	{"ListObjects", false, false, false, false}, {"HeadObject", true, false, false, false}, {"GetObject", true, false, false, false},
	{"PutObject", true, false, false, false}, {"PutObject", true, false, false, false}, {"CopyObject", true, false, false, true},
	{"AppendObject", true, false, false, false}, {"DeleteObject", true, false, false, false}, {"DeleteObjects", false, false, false, false},
	{"CreateMultipartUpload", true, false, false, false}, {"UploadPart", true, true, true, false}, {"UploadPartCopy", true, true, true, true},
	{"CompleteMultipartUpload", true, true, false, false}, {"AbortMultipartUpload", true, true, false, false}, {"ListParts", true, true, false, false},
	{"PutBucketCORSConfiguration", false, false, false, false}, {"GetBucketVersioningConfiguration", false, false, false, false},
}
var c26UnauditedGroups = map[string][]c26Spec{
	"C26-unaudited-object-tagging":           {{"GetObjectTagging", true, false, false, false}, {"PutObjectTagging", true, false, false, false}, {"DeleteObjectTagging", true, false, false, false}},
	"C26-unaudited-storage-class-transition": {{"TransitionObjectStorageClass", true, false, false, false}},
	"C26-unaudited-bucket-notification":      {{"GetBucketNotificationConfiguration", false, false, false, false}, {"PutBucketNotificationConfiguration", false, false, false, false}},
}

func c26GroupOf(name string) string {
	for g, l := range c26UnauditedGroups {
		for _, s := range l {
			if s.name == name {
				return g
			}
		}
	}
	return ""
}

var c26Buckets = []string{"bucket-a", "bucket-b", "logs"}
var c26Keys = []string{"k", "dir/file.txt", "日本/キー", "a b", "x\"y<z>&"}
var c26Errs = []string{"", "", "", "", "NoSuchKey", "internal error: disk \"sda\" failed\n", "BucketNotEmpty"}

func c26RandOp(r *Rng, sp c26Spec, id int) *c26Op {
	o := &c26Op{name: sp.name, bucket: r.Pick(c26Buckets), reqid: fmt.Sprintf("r%06d", id), err: r.Pick(c26Errs)}
	if sp.name == "ListBuckets" {
		o.bucket = ""
	}
	if sp.key {
		o.key = r.Pick(c26Keys)
	}
	if sp.upload {
		o.upload = "up-" + strconv.Itoa(r.Intn(4))
	}
	if sp.part {
		o.part = int32(1 + r.Intn(10000))
	}
	if sp.src {
		o.srcb, o.srck = r.Pick(c26Buckets), r.Pick(c26Keys)
	}
	if sp.name == "CreateMultipartUpload" && o.err == "" {
		o.ures = "up-" + strconv.Itoa(r.Intn(4))
	}
	if r.Chance(60) {
		o.cred, o.auth = r.Pick([]string{"AKIAEXAMPLE", "k2"}), r.Pick([]string{"sigv4-header", "sigv4-presign"})
	} else {
		o.auth = "anonymous"
	}
	if r.Chance(50) {
		o.ip = r.Pick([]string{"10.0.0.1", "::1", "192.168.1.77"})
	}
	return o
}

func c26Workload(r *Rng, n int, unauditedGroup string) string {
	ops := make([]string, n)
	for i := range ops {
		sp := c26Audited[r.Intn(len(c26Audited))]
		if unauditedGroup != "" && (r.Chance(30) || i == n/2) {
			g := c26UnauditedGroups[unauditedGroup]
			sp = g[r.Intn(len(g))]
		}
		ops[i] = c26RandOp(r, sp, i).tok()
	}
	return strings.Join(ops, ";")
}

func c26MethodNames() []string {
	t := reflect.TypeOf((*storage.Storage)(nil)).Elem()
	var out []string
	for i := 0; i < t.NumMethod(); i++ {
		out = append(out, t.Method(i).Name)
	}
	sort.Strings(out)
	return out
}

func c26ZoneTok(z string) string { return c27Tok([]byte(z)) }

// one T line: an entry whose timestamp is the instant ts held in the process-local zone z
func c26TLine(r *Rng, z string, fmtS string, ts int64) string {
	e := c27RandEntry(r, fmtS == "json", true)
	e.Timestamp = time.Unix(0, ts)
	_, off := time.Unix(0, ts).In(c26LoadZone(z)).Zone()
	return strings.Join([]string{"T", c26ZoneTok(z), fmtS, strconv.Itoa(off), c27ShowEntry(e)}, " ")
}

func (c26) Gen(r *Rng, tier string, n int) []string {
	var cases []string
	names := c26MethodNames()
	toks := make([]string, len(names))
	for i, m := range names {
		cases = append(cases, "M "+c27Tok([]byte(m)))
		toks[i] = c27Tok([]byte(m))
	}
	cases = append(cases, "MS "+strings.Join(toks, ","))
	groups := []string{"C26-unaudited-object-tagging", "C26-unaudited-storage-class-transition", "C26-unaudited-bucket-notification"}
	// long workloads crossing grounding blocks (1000 LOG entries = 500 operations): one per zone, first in its group
	type bigT struct {
		f, mode string
		ops     int
	}
	big := []bigT{{"bin", "seq", 1300}, {"json", "conc", 1300}, {"bin", "restart:700", 1300}, {"json", "restart:500", 1010}, {"bin", "conc", 1600}, {"json", "seq", 1001}}
	if tier == "thorough" {
		big = append(big, []bigT{{"bin", "conc", 5200}, {"json", "restart:2500", 5200}, {"bin", "restart:1000", 3000}, {"json", "conc", 4100},
			{"json", "restart:700", 1300}, {"bin", "restart:500", 1010}}...)
	}
	// the cases of one zone are contiguous (the zone gate lets them run in parallel); zone order rotates with the seed
	rot := r.Intn(len(c26Zones))
	for zi := range c26Zones {
		z := c26Zones[(zi+rot)%len(c26Zones)]
		for bi, b := range big {
			if bi%len(c26Zones) == zi {
				cases = append(cases, strings.Join([]string{"W", b.f, b.mode, c26ZoneTok(z), c26Workload(r, b.ops, "")}, " "))
			}
		}
		per := n / len(c26Zones)
		for i := 0; i < per; i++ {
			fmtS := r.Pick([]string{"bin", "json"})
			if r.Chance(30) {
				ts := c26Instants[r.Intn(len(c26Instants))]
				if r.Chance(35) {
					ts = 1500000000000000000 + int64(r.Next()%400000000000000000)
					if r.Chance(30) {
						ts -= ts % 1000000000 // whole second
					}
				}
				cases = append(cases, c26TLine(r, z, fmtS, ts))
				continue
			}
			k := 1 + r.Intn(14)
			mode := "seq"
			switch r.Intn(6) {
			case 0, 1:
				mode = "conc"
			case 2, 3:
				mode = "restart:" + strconv.Itoa(r.Intn(k+1))
			}
			g := ""
			if r.Chance(12) {
				g = groups[r.Intn(3)]
			}
			cases = append(cases, strings.Join([]string{"W", fmtS, mode, c26ZoneTok(z), c26Workload(r, k, g)}, " "))
		}
	}
	// written in one zone, reopened / verified in another (exclusive cases: they switch time.Local themselves)
	nx := 12
	if tier == "thorough" {
		nx = 60
	}
	for i := 0; i < nx; i++ {
		a, b := r.Pick(c26Zones), r.Pick(c26Zones)
		k := 2 + r.Intn(12)
		ops := k
		if i == 0 {
			ops = 1100
			k = 1100
		}
		cases = append(cases, strings.Join([]string{"W", r.Pick([]string{"bin", "json"}), "restart:" + strconv.Itoa(1+r.Intn(k-1)), c26ZoneTok(a + ">" + b), c26Workload(r, ops, "")}, " "))
	}
	return cases
}

// ---------------------------------------------------------------- sinks
type c26StampWriter struct {
	mu     sync.Mutex
	buf    bytes.Buffer
	clock  *int64
	stamps []int64 // one per Write (= per entry)
}

func (w *c26StampWriter) Write(p []byte) (int, error) {
	w.mu.Lock()
	defer w.mu.Unlock()
	w.stamps = append(w.stamps, atomic.AddInt64(w.clock, 1))
	return w.buf.Write(p)
}

type c26CountSink struct{ n int32 }

func (s *c26CountSink) WriteEntry(e *auditlog.Entry) error { atomic.AddInt32(&s.n, 1); return nil }
func (s *c26CountSink) Close() error                        { return nil }

func c26Signers() (signing.Signer, signing.Signer) {
	k := c27GetKeys()
	return signing.NewEd25519Signer(k.edPriv), signing.NewMlDsa87Signer(k.mlPriv)
}

func c26Record(d *auditlog.LogDetails) string {
	s := func(x string) string { return c27Tok([]byte(x)) }
	return strings.Join([]string{s(string(d.Phase)), s(string(d.Operation)), s(d.Resource.Bucket), s(d.Resource.Key), s(d.Resource.UploadID),
		strconv.Itoa(int(d.Resource.PartNumber)), s(d.Resource.SourceBucket), s(d.Resource.SourceKey), s(d.Actor.CredentialID), s(string(d.Actor.AuthType)),
		s(d.Request.RequestID), s(d.Request.ClientIP), strconv.Itoa(int(d.Outcome.StatusCode)), s(string(d.Outcome.Outcome)), s(d.Outcome.Error)}, ",")
}

// ---------------------------------------------------------------- Run
func (c26) Run(in string, scratch string) Result {
	f := strings.Split(in, " ")
	switch f[0] {
	case "M":
		defer c26EnterZone("")()
		name := string(c27Untok(f[1]))
		var clock int64
		cs := &c26CountSink{}
		sE, sM := c26Signers()
		mw := audit.NewAuditLogMiddleware(&c26Store{clock: &clock}, cs, sE, sM, nil, nil)
		before := atomic.LoadInt32(&cs.n)
		meth := reflect.ValueOf(mw).MethodByName(name)
		if !meth.IsValid() {
			return Result{Out: "UNKNOWN", Oracle: "FAIL:middleware lacks the method", Tags: []string{"method"}}
		}
		mt := meth.Type()
		args := make([]reflect.Value, mt.NumIn())
		for i := range args {
			if i == 0 {
				args[i] = reflect.ValueOf(context.Background())
			} else {
				args[i] = reflect.Zero(mt.In(i))
			}
		}
		func() {
			defer func() { recover() }() // the nil-embedded double panics for methods it does not implement
			meth.Call(args)
		}()
		got := int(atomic.LoadInt32(&cs.n) - before)
		out := "UNAUDITED"
		if got >= 1 {
			out = "AUDITED"
		} else if name == "Start" || name == "Stop" {
			out = "LIFECYCLE"
		}
		tags := []string{"method", strings.ToLower(out)}
		or := "OK"
		if out == "UNAUDITED" {
			or = "FAIL:storage call " + name + " is not recorded in the audit log"
			tags = append(tags, "kf:"+c26GroupOf(name))
		}
		return Result{Out: out, Oracle: or, Tags: tags}
	case "MS":
		return Result{Out: "COMPLETE", Oracle: "OK", Tags: []string{"method-set"}}
	case "W":
		if len(f) == 4 { // legacy form: whatever zone the process is in
			return c26RunWorkload(f[1], f[2], "", f[3], scratch)
		}
		return c26RunWorkload(f[1], f[2], string(c27Untok(f[3])), f[4], scratch)
	case "T":
		return c26RunT(string(c27Untok(f[1])), f[2], f[3], f[4])
	}
	return Result{Out: "BADLINE", Oracle: "FAIL:bad case line", Tags: []string{"bad-case"}}
}

// T: encode + decode one entry whose timestamp is time.Unix(0, ts) in the process-local zone
func c26RunT(zone, fmtS, offS, ent string) Result {
	leave := c26EnterZone(zone)
	defer leave()
	jsonForm := fmtS == "json"
	tags := []string{"timestamp", "fmt-" + fmtS, "zone-" + zone}
	e0 := c27ParseEntry(ent)
	ts := e0.Timestamp.UnixNano()
	e0.Timestamp = time.Unix(0, ts) // what time.Now() gives: Location = time.Local
	_, off := e0.Timestamp.Zone()
	if strconv.Itoa(off) != offS {
		return Result{Out: "BADOFF", Oracle: "FAIL:harness: zone offset differs from the case line", Tags: append(tags, "bad-case")}
	}
	if off != 0 {
		tags = append(tags, "off-nonzero")
	}
	if ts%1000000000 == 0 {
		tags = append(tags, "whole-second")
	}
	var buf bytes.Buffer
	if err := c27Ser(jsonForm).Encode(&buf, e0); err != nil {
		return Result{Out: "ERR", Oracle: "FAIL:encoder refused a well-formed entry: " + err.Error(), Tags: tags}
	}
	enc := c27Tok(buf.Bytes())
	if jsonForm {
		enc = c27ShowJSONDoc(buf.Bytes())
	}
	d, err := c27Ser(jsonForm).NewDecoder(bytes.NewReader(buf.Bytes())).Decode()
	if err != nil {
		return Result{Out: enc + " DECERR", Oracle: "FAIL:decode(encode(e)) fails: " + err.Error(), Tags: tags}
	}
	_, doff := d.Timestamp.Zone()
	out := enc + " " + c27ShowEntry(d) + "@" + strconv.Itoa(doff)
	var fails []string
	if d.Timestamp.UnixNano() != ts || !d.Timestamp.Equal(e0.Timestamp) {
		fails = append(fails, fmt.Sprintf("decode(encode(e)) changes the instant: %d -> %d (zone %s)", ts, d.Timestamp.UnixNano(), zone))
	}
	if !c27EntryEq(d, e0) {
		fails = append(fails, "decode(encode(e)) != e")
	}
	if in, ok := c27HashInput(e0); ok {
		want := sha512.Sum512(in)
		if !bytes.Equal(e0.CalculateHash(), want[:]) || !bytes.Equal(d.CalculateHash(), want[:]) {
			fails = append(fails, "entry hash depends on more than the instant (zone "+zone+")")
		}
	}
	var buf2 bytes.Buffer
	if err := c27Ser(jsonForm).Encode(&buf2, d); err != nil || !bytes.Equal(buf2.Bytes(), buf.Bytes()) {
		fails = append(fails, "re-encoding the decoded entry gives different bytes")
	}
	or := "OK"
	if len(fails) > 0 {
		or = "FAIL:" + fails[0]
	}
	return Result{Out: out, Oracle: or, Tags: tags}
}

func c26RunWorkload(fmtS, mode, zone, body, scratch string) Result {
	zoneA, zoneB := zone, zone
	{
		leave := c26EnterZone(zone)
		defer leave()
		if a, b, ok := strings.Cut(zone, ">"); ok { // exclusive case: we own time.Local
			zoneA, zoneB = a, b
			time.Local = c26LoadZone(zoneA)
		}
	}
	jsonForm := fmtS == "json"
	var ops []*c26Op
	for _, t := range strings.Split(body, ";") {
		ops = append(ops, c26ParseOp(t))
	}
	var clock int64
	store := &c26Store{clock: &clock}
	sE, sM := c26Signers()
	var file []byte
	var stamps []int64
	tags := []string{"workload", "fmt-" + fmtS, "mode-" + strings.SplitN(mode, ":", 2)[0]}
	zoneTag := "zone-" + zone
	if strings.Contains(zone, ">") {
		zoneTag = "zone-switch"
	}
	var midFail string
	switch {
	case mode == "seq" || mode == "conc":
		w := &c26StampWriter{clock: &clock}
		mw := audit.NewAuditLogMiddleware(store, sink.NewWriterSink(w, c27Ser(jsonForm)), sE, sM, nil, nil)
		if mode == "seq" {
			for _, o := range ops {
				c26Call(mw, o)
			}
		} else {
			k := 8
			var wg sync.WaitGroup
			for g := 0; g < k; g++ {
				wg.Add(1)
				go func(g int) {
					defer wg.Done()
					for i := g; i < len(ops); i += k {
						c26Call(mw, ops[i])
					}
				}(g)
			}
			wg.Wait()
		}
		mw.Stop(context.Background())
		file, stamps = w.buf.Bytes(), w.stamps
	default: // restart:<i>
		at, _ := strconv.Atoi(strings.TrimPrefix(mode, "restart:"))
		path := scratch + "/audit.log"
		open := func() (storage.Storage, error) {
			fs, err := sink.NewFileSink(path, c27Ser(jsonForm))
			if err != nil {
				return nil, err
			}
			var last []byte
			var hb [][]byte
			if st, _ := fs.InitialState(); st != nil {
				last, hb = st.LastHash, st.HashBuffer
			}
			return audit.NewAuditLogMiddleware(store, fs, sE, sM, last, hb), nil
		}
		mw, err := open()
		if err != nil {
			return Result{Out: "OPENERR", Oracle: "FAIL:" + err.Error(), Tags: tags}
		}
		for _, o := range ops[:at] {
			c26Call(mw, o)
		}
		mw.Stop(context.Background())
		if zoneA != zoneB {
			time.Local = c26LoadZone(zoneB) // the restarted process runs in another zone
		}
		if mid, _ := os.ReadFile(path); true { // verify before reopening
			if v := c27Verify(mid, jsonForm, true, true); !strings.HasPrefix(v, "OK") {
				midFail = "log written before the restart does not verify: " + v
			}
		}
		mw, err = open()
		if err != nil {
			return Result{Out: "REOPENERR", Oracle: "FAIL:restart refused the log the middleware wrote: " + err.Error(), Tags: tags}
		}
		for _, o := range ops[at:] {
			c26Call(mw, o)
		}
		mw.Stop(context.Background())
		file, _ = os.ReadFile(path)
	}
	// ---- read the log back with the real decoder
	var es []*auditlog.Entry
	dec := c27Ser(jsonForm).NewDecoder(bytes.NewReader(file))
	decErr := ""
	for {
		e, err := dec.Decode()
		if err != nil {
			if err != io.EOF {
				decErr = err.Error()
			}
			break
		}
		es = append(es, e)
	}
	// shape + records
	var shape []string
	run := 0
	flush := func() {
		if run > 0 {
			shape = append(shape, "L"+strconv.Itoa(run))
			run = 0
		}
	}
	type rec struct {
		idx  int
		d    *auditlog.LogDetails
		text string
	}
	var recs []rec
	groundOK := true
	sinceG := 0
	for i, e := range es {
		switch e.Type {
		case auditlog.EntryTypeLog:
			run++
			sinceG++
			if sinceG > auditlog.GroundingBlockSize {
				groundOK = false
			}
			if d, ok := e.Details.(*auditlog.LogDetails); ok {
				recs = append(recs, rec{i, d, c26Record(d)})
			}
		case auditlog.EntryTypeGenesis:
			flush()
			shape = append(shape, "S")
		case auditlog.EntryTypeGrounding:
			flush()
			shape = append(shape, "G")
			if sinceG != auditlog.GroundingBlockSize {
				groundOK = false
			}
			sinceG = 0
		default:
			flush()
			shape = append(shape, "?")
		}
	}
	flush()
	if sinceG >= auditlog.GroundingBlockSize {
		groundOK = false // a full block without its grounding
	}
	ordered := recs
	if mode == "conc" {
		ordered = append([]rec{}, recs...)
		sort.SliceStable(ordered, func(a, b int) bool {
			ra, rb := ordered[a].d.Request.RequestID, ordered[b].d.Request.RequestID
			if ra != rb {
				return ra < rb
			}
			return ordered[a].d.Phase == auditlog.PhaseStart && ordered[b].d.Phase != auditlog.PhaseStart
		})
	}
	texts := make([]string, len(ordered))
	for i, r := range ordered {
		texts[i] = r.text
	}
	out := strings.Join(shape, ",")
	if out == "" {
		out = "-"
	}
	if len(texts) == 0 {
		out += " _"
	} else {
		out += " " + strings.Join(texts, ";")
	}
	// ---- direct oracle
	var fails []string
	if midFail != "" {
		fails = append(fails, midFail)
	}
	if decErr != "" {
		fails = append(fails, "log does not decode: "+decErr)
	}
	for _, fl := range []string{"11", "00", "10"} {
		if v := c27Verify(file, jsonForm, fl[0] == '1', fl[1] == '1'); v != fmt.Sprintf("OK %d", len(es)) {
			fails = append(fails, "written log does not verify (verifiers "+fl+"): "+v)
			break
		}
	}
	path := scratch + "/verify.log"
	os.WriteFile(path, file, 0o600)
	k := c27GetKeys()
	if err := tool.NewAuditLogTool(path, signing.NewEd25519Verifier(k.edPub), signing.NewMlDsa87Verifier(k.mlPub)).Verify(c27Fmt(jsonForm)); err != nil {
		fails = append(fails, "audit-log verify rejects the written log: "+err.Error())
	}
	if !groundOK {
		fails = append(fails, "grounding entries are not exactly after every 1000 LOG entries")
	}
	byReq := map[string][]rec{}
	for _, r := range recs {
		byReq[r.d.Request.RequestID] = append(byReq[r.d.Request.RequestID], r)
	}
	kfTags := map[string]bool{}
	for _, o := range ops {
		rs := byReq[o.reqid]
		if g := c26GroupOf(o.name); g != "" {
			kfTags["kf:"+g] = true
		}
		if atomic.LoadInt32(&o.called) != 1 {
			fails = append(fails, "harness: storage double not reached exactly once for "+o.name)
			continue
		}
		if len(rs) != 2 || rs[0].d.Phase != auditlog.PhaseStart || rs[1].d.Phase != auditlog.PhaseComplete {
			fails = append(fails, fmt.Sprintf("storage call %s (%s) is not bracketed by exactly one START and one COMPLETE entry (found %d entries)", o.name, o.reqid, len(rs)))
			continue
		}
		c := rs[1].d
		wantOutcome, wantStatus := auditlog.OutcomeSuccess, int32(200)
		if o.err != "" {
			wantOutcome, wantStatus = auditlog.OutcomeError, 500
		}
		if c.Outcome.Outcome != wantOutcome || c.Outcome.Error != o.err || c.Outcome.StatusCode != wantStatus || rs[0].d.Outcome.Outcome != auditlog.OutcomePending {
			fails = append(fails, "outcome of "+o.reqid+" does not match the storage call's result")
		}
		if c.Resource.Bucket != o.bucket || c.Resource.Key != o.key || c.Resource.SourceBucket != o.srcb || c.Resource.SourceKey != o.srck || c.Actor.CredentialID != o.cred {
			fails = append(fails, "resource/actor of "+o.reqid+" not recorded as issued")
		}
		if stamps != nil && len(stamps) == len(es) {
			if !(stamps[rs[0].idx] < o.callStamp && o.callStamp < stamps[rs[1].idx]) {
				fails = append(fails, "START/COMPLETE of "+o.reqid+" were not written before/after the storage call")
			}
		}
	}
	if len(recs) > 2*len(ops) {
		fails = append(fails, "more LOG entries than log calls")
	}
	nG := 0
	for _, s := range shape {
		if s == "G" {
			nG++
		}
	}
	tags = append(tags, "g"+strconv.Itoa(min(nG, 3)), "ops"+strconv.Itoa(min(len(ops)/5*5, 15)), zoneTag)
	for t := range kfTags {
		tags = append(tags, t)
	}
	sort.Strings(tags[3:])
	or := "OK"
	if len(fails) > 0 {
		or = "FAIL:" + fails[0]
	}
	return Result{Out: out, Oracle: or, Tags: tags}
}
