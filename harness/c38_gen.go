//go:build verif

package main

import (
	"fmt"
	"sort"
	"strings"
)

// c38GenOp produces one operation; dirty = also use the argument combinations that trigger known
// translation defects of the client (see c38Tags).
func c38GenOp(r *Rng, dirty bool, nver *int, nups *int) string {
	b := r.Intn(2)
	if dirty && r.Chance(6) {
		b = 2
	}
	k := r.Intn(4)
	// version references and conditions are forwarded correctly by most operations and are used in
	// clean histories too; only where the client is known to drop them (GetObject version metadata,
	// Head/Get conditions, DeleteObjects conditions) they are reserved for the dirty histories
	verIf := func(ok bool) int {
		if ok && r.Chance(35) {
			return 1 + r.Intn(4)
		}
		return 0
	}
	condIf := func(ok bool, max int) int {
		if ok && r.Chance(30) {
			return 1 + r.Intn(max)
		}
		return 0
	}
	ver := func() int { return verIf(true) }
	cond := func(max int) int { return condIf(true, max) }
	switch w := r.Intn(100); {
	case w < 22:
		tags, meta := 0, r.Intn(4)
		if dirty {
			tags, meta = r.Intn(3), r.Intn(5)
		}
		return fmt.Sprintf("P,%d,%d,%d,%d,%d,%d,%d,%d", b, k, r.Intn(6), r.Intn(3), meta, tags, r.Intn(4), cond(3))
	case w < 32:
		return fmt.Sprintf("H,%d,%d,%d,%d", b, k, ver(), condIf(dirty, 4))
	case w < 44:
		rg := 0
		if r.Chance(60) {
			rg = 1 + r.Intn(7) // closed, suffix, open-ended, multi, unsatisfiable, closed+suffix, open+suffix+closed
		}
		return fmt.Sprintf("G,%d,%d,%d,%d,%d", b, k, verIf(dirty), rg, condIf(dirty, 4))
	case w < 50:
		return fmt.Sprintf("D,%d,%d,%d,%d", b, k, ver(), cond(3))
	case w < 53:
		n := 1 + r.Intn(3)
		es := []string{}
		for i := 0; i < n; i++ {
			es = append(es, fmt.Sprintf("%d:%d", r.Intn(4), condIf(dirty, 3)))
		}
		return fmt.Sprintf("X,%d,%s", b, strings.Join(es, ","))
	case w < 60:
		rt, tags, rng := 0, 0, 0
		if dirty {
			rt, tags = r.Intn(2), r.Intn(3)
			if r.Chance(15) {
				rng = 1 + r.Intn(3)
			}
		}
		db, dk := r.Intn(2), r.Intn(4)
		if !dirty && db == b && dk == k {
			dk = (k + 1) % 4
		}
		return fmt.Sprintf("C,%d,%d,%d,%d,%d,%d,%d,%d,%d,%d,%d,%d,%d", b, k, db, dk, r.Intn(2), r.Intn(4), r.Intn(3), rt, tags, r.Intn(4), rng, ver(), cond(4))
	case w < 62:
		if !dirty {
			return fmt.Sprintf("t?,%d,%d,0", b, k)
		}
		return fmt.Sprintf("A,%d,%d,%d,%d", b, k, r.Intn(6), r.Intn(3))
	case w < 66:
		tb := b
		if !dirty {
			tb = 0
		}
		return fmt.Sprintf("T,%d,%d,%d,%d,%d", tb, k, 1+r.Intn(4), verIf(dirty), cond(1))
	case w < 74:
		return fmt.Sprintf("L,%d,%d,%d,%d,%d", b, r.Intn(4), r.Intn(3), r.Intn(5)*r.Intn(2), []int{1000, 1000, 1, 2, 0}[r.Intn(5)])
	case w < 78:
		return fmt.Sprintf("V,%d,%d,%d,%d,%d", b, r.Intn(4), r.Intn(3), []int{1000, 1000, 1, 2}[r.Intn(4)], r.Intn(5)*r.Intn(2))
	case w < 82:
		return fmt.Sprintf("t+,%d,%d,%d,%d", b, k, r.Intn(3), ver())
	case w < 86:
		return fmt.Sprintf("t?,%d,%d,%d", b, k, ver())
	case w < 87:
		return fmt.Sprintf("t-,%d,%d,%d", b, k, ver())
	case w < 90:
		*nups++
		return fmt.Sprintf("MC,%d,%d,%d,%d,%d,%d", b, k, r.Intn(3), r.Intn(4), r.Intn(3), r.Intn(4))
	case w < 95:
		sl := 0
		if *nups > 0 {
			sl = r.Intn(*nups)
		}
		if dirty && r.Chance(10) {
			sl = *nups + 1
		}
		switch r.Intn(7) {
		case 0, 1, 2:
			return fmt.Sprintf("MP,%d,%d,%d", sl, 1+r.Intn(3), r.Intn(6))
		case 3:
			return fmt.Sprintf("MF,%d", sl)
		case 4:
			return fmt.Sprintf("MQ,%d,%d", sl, []int{1000, 1}[r.Intn(2)])
		case 5:
			return fmt.Sprintf("MY,%d,%d,%d,%d,%d,%d", sl, 1+r.Intn(3), r.Intn(2), r.Intn(4), r.Intn(4)*r.Intn(2), ver())
		default:
			return fmt.Sprintf("MA,%d", sl)
		}
	case w < 96:
		return fmt.Sprintf("ML,%d,%d,%d,%d", b, r.Intn(4), r.Intn(3), []int{1000, 1}[r.Intn(2)])
	case w < 97:
		return []string{"BL", fmt.Sprintf("BH,%d", r.Intn(3)), fmt.Sprintf("BV,%d", r.Intn(3)), "BC,2", "BD,2", fmt.Sprintf("BD,%d", b), fmt.Sprintf("BC,%d", b)}[r.Intn(7)]
	default:
		fam := []string{"O", "Y", "W"}[r.Intn(3)]
		switch r.Intn(4) {
		case 0, 1:
			id := r.Intn(3)
			if !dirty && fam == "Y" && id == 2 {
				id = 1
			}
			return fmt.Sprintf("%sP,%d,%d", fam, b, id)
		case 2:
			return fmt.Sprintf("%sG,%d", fam, b)
		default:
			return fmt.Sprintf("%sD,%d", fam, b)
		}
	}
}

// c38GenWalk: one page-walking listing operation (small page sizes)
func c38GenWalk(r *Rng, nups int) string {
	switch r.Intn(8) {
	case 0, 1, 2:
		return fmt.Sprintf("VW,%d,%d,%d,%d", 1-r.Intn(2)*r.Intn(2), r.Intn(4)*r.Intn(2), r.Intn(3)*r.Intn(2), 1+r.Intn(3))
	case 3, 4, 5:
		return fmt.Sprintf("LW,%d,%d,%d,%d", r.Intn(2), r.Intn(4)*r.Intn(2), r.Intn(3)*r.Intn(2), 1+r.Intn(3))
	case 6:
		sl := 0
		if nups > 0 {
			sl = r.Intn(nups)
		}
		return fmt.Sprintf("MQW,%d,%d", sl, 1+r.Intn(2))
	default:
		return fmt.Sprintf("MLW,%d,%d", r.Intn(2), 1+r.Intn(2))
	}
}

// c38GenCX: one cell of the CopyObject option cross product (random sampling: every pair of
// parameters meets in all value combinations within a few hundred operations)
func c38GenCX(r *Rng) string {
	mask := func() int {
		switch r.Intn(5) {
		case 0:
			return 0
		case 1:
			return 1 << r.Intn(8) // one field alone
		case 2:
			return 255
		}
		return r.Intn(256)
	}
	sb, sk, db, dk := r.Intn(2), r.Intn(4), r.Intn(2), r.Intn(4)
	if r.Chance(85) && sb == db && sk == dk {
		dk = (dk + 1) % 4
	}
	omask := mask()
	if omask&32 != 0 && r.Chance(20) {
		omask |= 256 // Expires in RFC 850 spelling
	}
	metanil := 0
	if omask&254 == 0 && r.Bool() {
		metanil = 1
	}
	cls := func() int {
		if r.Chance(50) {
			return 0
		}
		return 1 + r.Intn(3)
	}
	return fmt.Sprintf("CX,%d,%d,%d,%d,%d,%d,%d,%d,%d,%d,%d,%d,%d", sb, sk, db, dk, mask(), r.Intn(2), cls(), r.Intn(2), omask, metanil, r.Intn(2), r.Intn(2), cls())
}

// c38GenMFX: upload some of the parts 1..4 and complete with a manifest: none, exact ascending,
// permuted, with a duplicate, with a gap, with a part that was never uploaded, wrong / empty ETag
func c38GenMFX(r *Rng) string {
	upmask := []int{1, 3, 7, 15}[r.Intn(4)]
	if r.Chance(20) {
		upmask = 1 + r.Intn(15) // part numbers with a hole: the storage refuses to complete
	}
	if r.Chance(5) {
		upmask = 0
	}
	var ups []int
	for p := 1; p <= 4; p++ {
		if upmask&(1<<(p-1)) != 0 {
			ups = append(ups, p)
		}
	}
	man := []string{}
	for _, p := range ups {
		man = append(man, fmt.Sprintf("%d:0", p))
	}
	shape := r.Intn(9)
	switch {
	case shape == 0 || len(man) == 0:
		if r.Bool() || len(man) == 0 {
			man = nil // no manifest
		}
	case shape == 1 && len(man) > 1: // reversed
		for i, j := 0, len(man)-1; i < j; i, j = i+1, j-1 {
			man[i], man[j] = man[j], man[i]
		}
	case shape == 2 && len(man) > 1: // one swap (1,3,2)
		i := r.Intn(len(man) - 1)
		man[i], man[i+1] = man[i+1], man[i]
	case shape == 3: // duplicate
		i := r.Intn(len(man))
		man = append(man[:i+1], man[i:]...)
	case shape == 4 && len(man) > 1: // gap: drop one uploaded part
		i := r.Intn(len(man))
		man = append(append([]string{}, man[:i]...), man[i+1:]...)
	case shape == 5: // a part that was never uploaded
		p := 1 + r.Intn(5)
		man = append(man, fmt.Sprintf("%d:0", p))
	case shape == 6: // wrong ETag on one part
		i := r.Intn(len(man))
		man[i] = strings.Replace(man[i], ":0", ":1", 1)
	case shape == 7: // empty ETag on one part
		i := r.Intn(len(man))
		man[i] = strings.Replace(man[i], ":0", ":2", 1)
	}
	ms := "-"
	if len(man) > 0 {
		ms = strings.Join(man, "/")
	}
	cond := 0
	if r.Chance(15) {
		cond = 1 + r.Intn(2)
	}
	return fmt.Sprintf("MFX,%d,%d,%d,%s,%d,%d", r.Intn(2), r.Intn(4), upmask, ms, cond, r.Intn(2))
}

func (c38) Gen(r *Rng, tier string, n int) []string {
	out := make([]string, 0, n)
	for i := 0; i < n; i++ {
		g := r.Fork()
		dirty := i%2 == 1
		nver, nups := 0, 0
		ops := []string{"H"}
		if i%5 == 4 {
			// cross-product history: only the self-contained composite operations
			for j, m := 0, 6+g.Intn(8); j < m; j++ {
				if g.Chance(65) {
					ops = append(ops, c38GenCX(g))
				} else {
					ops = append(ops, c38GenMFX(g))
				}
			}
			out = append(out, strings.Join(ops, " "))
			continue
		}
		if i%4 >= 2 {
			// listing-centred history: populate (several versions and delete markers per key in the
			// versioned bucket, several keys in the plain one, a multipart upload with parts), then
			// walk the listings page by page
			for j, m := 0, 5+g.Intn(8); j < m; j++ {
				b, k := g.Intn(2), g.Intn(4)
				if g.Chance(60) {
					b = 1
				}
				if g.Chance(25) {
					ops = append(ops, fmt.Sprintf("D,%d,%d,0,0", b, k))
				} else {
					ops = append(ops, fmt.Sprintf("P,%d,%d,%d,%d,%d,0,%d,0", b, k, g.Intn(6), g.Intn(3), g.Intn(4), g.Intn(4)))
				}
			}
			if g.Chance(50) {
				for u, m := 0, 1+g.Intn(3); u < m; u++ {
					ops = append(ops, fmt.Sprintf("MC,%d,%d,%d,0,0,%d", g.Intn(2), g.Intn(4), g.Intn(3), g.Intn(4)))
					nups++
				}
				for j, m := 0, 1+g.Intn(4); j < m; j++ {
					ops = append(ops, fmt.Sprintf("MP,%d,%d,%d", g.Intn(nups), 1+g.Intn(4), g.Intn(6)))
				}
			}
			for j, m := 0, 2+g.Intn(4); j < m; j++ {
				if g.Chance(75) {
					ops = append(ops, c38GenWalk(g, nups))
				} else {
					ops = append(ops, c38GenOp(g, dirty, &nver, &nups))
				}
			}
		} else {
			steps := 6 + g.Intn(14)
			for j := 0; j < steps; j++ {
				if g.Chance(6) {
					ops = append(ops, c38GenWalk(g, nups))
				} else {
					ops = append(ops, c38GenOp(g, dirty, &nver, &nups))
				}
			}
		}
		out = append(out, strings.Join(ops, " "))
	}
	return out
}

// ---- known deviation classes (finding ids) ----

// c38NI: the operations the client answers with ErrNotImplemented (mirrors Model/S3Client.v)
func c38NI(f []string) bool {
	switch f[0] {
	case "A":
		return true
	case "C":
		return c38N(f, 11) != 0
	case "T":
		return c38N(f, 4) != 0
	}
	return false
}

func c38StripCk(s string) string {
	var out []string
	for _, e := range strings.Split(s, ",") {
		if i := strings.Index(e, ":cktype"); i >= 0 {
			e = e[:i]
		}
		out = append(out, e)
	}
	return strings.Join(out, ",")
}

// c38Explain attributes the difference of one projected field of one operation to a known
// translation defect of the client (finding id) or returns "" (unexplained).
func c38NormVersions(v string) string {
	es := strings.Split(v, ",")
	for i, e := range es {
		if strings.Contains(e, ":dm=true:") {
			es[i] = strings.Replace(e, ":etag~:", ":etag=:", 1)
		}
	}
	sort.Strings(es)
	return strings.Join(es, ",")
}

func c38Explain(f []string, field string, cm, dm map[string]string) string {
	cv, dv := cm[field], dm[field]
	op := f[0]
	// fields of the page-walking operations are named p<i>.<field>
	page, base := "", field
	if i := strings.IndexByte(field, '.'); i > 0 && field[0] == 'p' {
		page, base = field[:i+1], field[i+1:]
	}
	if c38NI(f) {
		return "C38-not-implemented-ops"
	}
	if (base == "err" || (op == "MFX" && base == "kind")) && strings.HasPrefix(cv, "Api(") && c38UnmappedPair(strings.TrimSuffix(strings.TrimPrefix(cv, "Api("), ")"), dv) {
		return "C38-error-code-not-mapped"
	}
	switch op {
	case "CX":
		if c38CXSelfRejected(f) {
			return "C38-self-copy-rejected"
		}
		if field == "ptags" && c38N(f, 11) == 1 {
			return "C38-copy-tagging-directive-dropped"
		}
		if field == "pexp" && c38N(f, 9)&256 != 0 && c38N(f, 8) == 1 && c38N(f, 10) == 0 && cv == "A" && dv == "R" {
			return "C38-expires-rewritten"
		}
	case "MFX":
		if c38N(f, 5) != 0 {
			return "C38-complete-conditions-dropped"
		}
	case "P":
		if field == "ver" && cv == "~" {
			return "C38-put-version-id-lost"
		}
	case "H", "G":
		condIx := 4
		if op == "G" {
			condIx = 5
		}
		if c38N(f, condIx) != 0 {
			return "C38-head-get-conditions-dropped"
		}
		if op == "G" && c38N(f, 3) != 0 {
			return "C38-get-version-metadata-from-current"
		}
		if field == "err" && cv == "NoSuchBucket" && (dv == "NoSuchKey" || dv == "DeleteMarker" || dv == "MethodNotAllowed") {
			return "C38-head-404-is-no-such-bucket"
		}
		if field == "ct" && cv == "=application/octet-stream" && dv == "~" {
			return "C38-absent-content-type-defaulted"
		}
		if field == "class" && cv == "~" && dv == "=STANDARD" {
			return "C38-explicit-standard-class-lost"
		}
		if field == "objtags" && cv == "\u2205" {
			return "C38-object-tags-not-populated"
		}
	case "L", "LW":
		maxKeys := c38N(f, 5)
		if op == "LW" {
			maxKeys = c38N(f, 4)
		}
		if base == "objects" && c38StripCk(cv) == c38StripCk(dv) {
			return "C38-list-checksum-type-lost"
		}
		if base == "objects" && strings.ReplaceAll(c38StripCk(cv), "class=STANDARD", "class~") == strings.ReplaceAll(c38StripCk(dv), "class=STANDARD", "class~") {
			return "C38-list-unset-class-reported-standard"
		}
		if maxKeys == 0 {
			return "C38-list-maxkeys-zero"
		}
		// with a delimiter and a page size below the bucket size the HTTP layer pages differently from
		// the storage (server.listAndFilterObjects: common prefixes of a page that is cut at max-keys
		// are dropped, and can be lost for the whole walk)
		if c38N(f, 3) != 0 && maxKeys < 1000 {
			return "C38-list-delimiter-paging"
		}
	case "V", "VW":
		if (base == "versions" || base == "versionset") && c38NormVersions(cv) != c38NormVersions(dv) &&
			c38NormVersions(strings.ReplaceAll(cv, "class=STANDARD", "class~")) == c38NormVersions(strings.ReplaceAll(dv, "class=STANDARD", "class~")) {
			return "C38-list-unset-class-reported-standard"
		}
		if base == "versions" && c38NormVersions(cv) == c38NormVersions(dv) {
			return "C38-listversions-translation"
		}
		if base == "versionset" && c38NormVersions(cv) == c38NormVersions(dv) {
			return "C38-listversions-translation"
		}
		if base == "cp" && cv == "[]" && dv != "[]" && dv != "" {
			return "C38-listversions-translation"
		}
	case "ML", "MLW":
		if cm["err"] == "PANIC" {
			return "C38-listmultipartuploads-nil-deref"
		}
	case "C":
		if c38N(f, 1) == c38N(f, 3) && c38N(f, 2) == c38N(f, 4) && c38N(f, 5) == 0 {
			return "C38-self-copy-rejected"
		}
	case "MQ", "MQW":
		if base == "class" && cv == "=STANDARD" && dv == "~" {
			return "C38-list-unset-class-reported-standard"
		}
		if base == "next" && cv == "~" && cm[page+"trunc"] == "false" {
			return "C38-listparts-next-marker-lost"
		}
	case "X":
		for _, e := range f[2:] {
			if kc := strings.Split(e, ":"); len(kc) > 1 && c20Atoi(kc[1]) > 0 {
				return "C38-deleteobjects-ifmatch-dropped"
			}
		}
		if strings.ReplaceAll(cv, "dm=~", "dm=false") == strings.ReplaceAll(dv, "dm=~", "dm=false") {
			return "C38-deleteobjects-marker-flag"
		}
	case "YP":
		if c38N(f, 2) == 2 {
			return "C38-lifecycle-config-rejected"
		}
	}
	return ""
}

// c38UnmappedPair: the client returned the raw API error with code x where the storage reports kind dv —
// the same error, only not translated into the storage error kind (finding C38-error-code-not-mapped).
// A DIFFERENT error (another code than the storage's kind) is not covered.
func c38UnmappedPair(x, dv string) bool {
	if x == dv {
		return true
	}
	switch x {
	case "NotFound", "MethodNotAllowed":
		// body-less 404 / 405 answers of the server for delete markers and missing keys
		return dv == "DeleteMarker" || dv == "NoSuchKey" || dv == "MethodNotAllowed" || dv == "NoSuchBucket"
	case "InternalError":
		// storage errors without an S3 error code
		return strings.HasPrefix(dv, "Err(")
	}
	return false
}

func c38CXSelfRejected(f []string) bool {
	return c38N(f, 1)%2 == c38N(f, 3)%2 && c38N(f, 2)%4 == c38N(f, 4)%4 && c38N(f, 8) == 0 && c38N(f, 13) == 0
}

// c38Taints: operations after which the two stacks legitimately hold different STATES because of a
// known defect; every later difference in the history is attributed to it.
func c38Taints(f []string) string {
	if c38NI(f) {
		return "C38-not-implemented-ops"
	}
	switch f[0] {
	case "P":
		if c38N(f, 6) != 0 {
			return "C38-put-tags-lost"
		}
		if c38N(f, 5) == 4 {
			return "C38-expires-rewritten"
		}
	case "MC":
		if c38N(f, 4) == 4 {
			return "C38-expires-rewritten"
		}
	case "C":
		if c38N(f, 1) == c38N(f, 3) && c38N(f, 2) == c38N(f, 4) && c38N(f, 5) == 0 {
			return "C38-self-copy-rejected"
		}
		if c38N(f, 8) == 1 {
			return "C38-copy-tagging-directive-dropped"
		}
		if c38N(f, 5) == 1 && c38N(f, 6) == 4 {
			return "C38-expires-rewritten"
		}
	case "X":
		for _, e := range f[2:] {
			if kc := strings.Split(e, ":"); len(kc) > 1 && c20Atoi(kc[1]) > 0 {
				return "C38-deleteobjects-ifmatch-dropped"
			}
		}
	case "T":
		if c38N(f, 1) == 1 {
			return "C38-transition-creates-new-version"
		}
	case "YP":
		if c38N(f, 2) == 2 {
			return "C38-lifecycle-config-rejected"
		}
	}
	return ""
}

// c38SetsRedirect: the operation may store a website redirect location (metadata set 3)
func c38SetsRedirect(f []string) bool {
	switch f[0] {
	case "P":
		return c38N(f, 5) == 3
	case "MC":
		return c38N(f, 4) == 3
	case "C":
		return c38N(f, 6) == 3
	}
	return false
}

// c38TaintsCtx = c38Taints + the one context dependent case: a transition (= self copy through the
// client) after a redirect location has been stored loses that redirect location
func c38TaintsCtx(f []string, sawRedirect bool) string {
	if t := c38Taints(f); t != "" {
		return t
	}
	if f[0] == "T" && sawRedirect {
		return "C38-transition-loses-redirect-location"
	}
	return ""
}

// c38Tags: op kinds + the known-finding predicates, computed from the history alone
func c38Tags(ops []string) []string {
	tags := map[string]bool{}
	clean := true
	sawRedirect := false
	for _, o := range ops {
		f := strings.Split(o, ",")
		tags["op:"+f[0]] = true
		t := c38TaintsCtx(f, sawRedirect)
		sawRedirect = sawRedirect || c38SetsRedirect(f)
		if t != "" {
			tags["kf:"+t] = true
			clean = false
		}
		switch f[0] {
		case "CX":
			tags["cross:copy"] = true
			if c38CXSelfRejected(f) {
				tags["kf:C38-self-copy-rejected"] = true
			}
			if c38N(f, 11) == 1 {
				tags["kf:C38-copy-tagging-directive-dropped"] = true
			}
			if c38N(f, 9)&256 != 0 {
				tags["kf:C38-expires-rewritten"] = true
			}
		case "MFX":
			tags["cross:manifest"] = true
			if c38N(f, 5) != 0 {
				tags["kf:C38-complete-conditions-dropped"] = true
			}
		case "P":
			tags["kf:C38-put-version-id-lost"] = true
		case "H", "G":
			tags["kf:C38-head-404-is-no-such-bucket"] = true
			tags["kf:C38-absent-content-type-defaulted"] = true
			tags["kf:C38-explicit-standard-class-lost"] = true
			tags["kf:C38-object-tags-not-populated"] = true
			ci := 4
			if f[0] == "G" {
				ci = 5
				if c38N(f, 3) != 0 {
					tags["kf:C38-get-version-metadata-from-current"] = true
				}
			}
			if c38N(f, ci) != 0 {
				tags["kf:C38-head-get-conditions-dropped"] = true
			}
		case "L":
			tags["kf:C38-list-checksum-type-lost"] = true
			tags["kf:C38-list-unset-class-reported-standard"] = true

			if c38N(f, 5) == 0 {
				tags["kf:C38-list-maxkeys-zero"] = true
			}

		case "LW":
			if c38N(f, 3) != 0 {
				tags["kf:C38-list-delimiter-paging"] = true
			}
			tags["kf:C38-list-checksum-type-lost"] = true
			tags["kf:C38-list-unset-class-reported-standard"] = true
			tags["walk"] = true
			if c38N(f, 4) == 0 {
				tags["kf:C38-list-maxkeys-zero"] = true
			}
		case "V", "VW":
			if f[0] == "VW" {
				tags["walk"] = true
			}
			tags["kf:C38-listversions-translation"] = true
			tags["kf:C38-list-unset-class-reported-standard"] = true
		case "MQ", "MQW":
			if f[0] == "MQW" {
				tags["walk"] = true
			}
			tags["kf:C38-listparts-next-marker-lost"] = true
			tags["kf:C38-list-unset-class-reported-standard"] = true
		case "ML", "MLW":
			tags["kf:C38-listmultipartuploads-nil-deref"] = true
		case "X":
			tags["kf:C38-deleteobjects-marker-flag"] = true
		}
		// every operation can fail with an error code the client does not map
		tags["kf:C38-error-code-not-mapped"] = true
	}
	if clean {
		tags["clean-history"] = true
	}
	if len(ops) == 0 {
		tags["empty"] = true
	}
	var out []string
	for k := range tags {
		out = append(out, k)
	}
	sort.Strings(out)
	return out
}
