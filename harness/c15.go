//go:build verif

package main

import (
	"bytes"
	"context"
	"database/sql"
	"encoding/hex"
	"errors"
	"fmt"
	"io"
	"os"
	"path/filepath"
	"runtime"
	"sort"
	"strconv"
	"strings"
	"sync"
	"sync/atomic"
	"time"

	cachepkg "github.com/jdillenkofer/pithos/internal/cache"
	"github.com/jdillenkofer/pithos/internal/cache/evictionpolicy/evictnothing"
	"github.com/jdillenkofer/pithos/internal/cache/persistor/inmemory"
	"github.com/jdillenkofer/pithos/internal/ioutils"
	"github.com/jdillenkofer/pithos/internal/storage/database"
	repositoryFactory "github.com/jdillenkofer/pithos/internal/storage/database/repository"
	"github.com/jdillenkofer/pithos/internal/storage/database/repository/partcontent"
	"github.com/jdillenkofer/pithos/internal/storage/database/repository/partoutboxentry"
	"github.com/jdillenkofer/pithos/internal/storage/database/sqlite"
	"github.com/jdillenkofer/pithos/internal/storage/metadatapart/partstore"
	pscache "github.com/jdillenkofer/pithos/internal/storage/metadatapart/partstore/cache"
	fsps "github.com/jdillenkofer/pithos/internal/storage/metadatapart/partstore/filesystem"
	"github.com/jdillenkofer/pithos/internal/storage/metadatapart/partstore/middlewares/compression"
	tinkmw "github.com/jdillenkofer/pithos/internal/storage/metadatapart/partstore/middlewares/encryption/tink"
	"github.com/jdillenkofer/pithos/internal/storage/metadatapart/partstore/outbox"
	sqlps "github.com/jdillenkofer/pithos/internal/storage/metadatapart/partstore/sql"
	"github.com/prometheus/client_golang/prometheus"
)

// C15 — every part store returns exactly the bytes it was given.
// Case line: <base> <layers> <ops>  (see coq/Model/PartStack.v).
type c15 struct{}

func init() { register("C15", c15{}) }

func (c15) Parallel() bool { return true }

// ---- shared environment: pooled SQLite databases and pooled tink middlewares (scrypt is slow) ----

type c15DB struct {
	db      database.Database
	content partcontent.Repository
	outbox  partoutboxentry.Repository
}

var (
	c15DBOnce   sync.Once
	c15DBPool   chan *c15DB
	c15TinkOnce sync.Once
	c15TinkPool chan *c15Tink
	c15Uniq     atomic.Int64
)

func c15GetDB(scratch string) *c15DB {
	c15DBOnce.Do(func() { c15DBPool = make(chan *c15DB, 4*runtime.NumCPU()) })
	select {
	case d := <-c15DBPool:
		return d
	default:
	}
	i := c15Uniq.Add(1)
	db, err := sqlite.OpenDatabase(filepath.Join(filepath.Dir(scratch), "c15-dbs", fmt.Sprintf("d%d", i), "pithos.db"))
	if err != nil {
		panic(err)
	}
	pc, err := repositoryFactory.NewPartContentRepository(db)
	if err != nil {
		panic(err)
	}
	ob, err := repositoryFactory.NewPartOutboxEntryRepository(db)
	if err != nil {
		panic(err)
	}
	return &c15DB{db: db, content: pc, outbox: ob}
}

// c15Proxy lets one (expensive to construct) tink middleware be re-used over a different inner
// store per case; it forwards everything, including capabilities and the concrete reader types.
type c15Proxy struct{ target partstore.PartStore }

func (p *c15Proxy) Start(ctx context.Context) error { return p.target.Start(ctx) }
func (p *c15Proxy) Stop(ctx context.Context) error  { return p.target.Stop(ctx) }
func (p *c15Proxy) PutPart(ctx context.Context, tx database.Tx, id partstore.PartId, r io.Reader) error {
	return p.target.PutPart(ctx, tx, id, r)
}
func (p *c15Proxy) GetPart(ctx context.Context, tx database.Tx, id partstore.PartId) (io.ReadCloser, error) {
	return p.target.GetPart(ctx, tx, id)
}
func (p *c15Proxy) GetPartIds(ctx context.Context, tx database.Tx) ([]partstore.PartId, error) {
	return p.target.GetPartIds(ctx, tx)
}
func (p *c15Proxy) DeletePart(ctx context.Context, tx database.Tx, id partstore.PartId) error {
	return p.target.DeletePart(ctx, tx, id)
}
func (p *c15Proxy) Capabilities() partstore.Capabilities { return partstore.CapabilitiesOf(p.target) }

type c15Tink struct {
	mw    partstore.PartStore
	proxy *c15Proxy
}

func c15GetTink() *c15Tink {
	c15TinkOnce.Do(func() { c15TinkPool = make(chan *c15Tink, 8*runtime.NumCPU()) })
	select {
	case t := <-c15TinkPool:
		return t
	default:
	}
	px := &c15Proxy{}
	mw, err := tinkmw.NewWithLocalKMS("verif-password", px, nil)
	if err != nil {
		panic(err)
	}
	return &c15Tink{mw: mw, proxy: px}
}

// ---- contents ----
var c15Magic = []byte{0x4d, 0x2b, 0x0a, 0xdc, 0xee, 0x7c, 0x44, 0xa8, 0xb0, 0x49, 0x98, 0x06, 0x7b, 0x5b, 0x84, 0x50}

// headers of the compression middleware as documented (magic, version 1, algorithm id, 6 zero
// bytes, CRC-64/ECMA of the first 24 bytes big endian) — computed here independently
func c15Header(alg byte) []byte {
	h := make([]byte, 32)
	copy(h, c15Magic)
	h[16] = 1
	h[17] = alg
	crc := ^uint64(0)
	for _, b := range h[:24] {
		crc ^= uint64(b)
		for i := 0; i < 8; i++ {
			if crc&1 == 1 {
				crc = (crc >> 1) ^ 0xC96C5795D7870F42
			} else {
				crc >>= 1
			}
		}
	}
	crc = ^crc
	for i := 0; i < 8; i++ {
		h[24+i] = byte(crc >> (56 - 8*i))
	}
	return h
}

func c15Content(kind, seed, n int) []byte {
	b := make([]byte, n)
	switch kind {
	case 0: // zeros
	case 1:
		r := NewRng(uint64(seed)*7919 + 17)
		for i := 0; i+8 <= n; i += 8 {
			v := r.Next()
			for j := 0; j < 8; j++ {
				b[i+j] = byte(v >> (8 * j))
			}
		}
		for i := n - n%8; i < n; i++ {
			b[i] = byte(r.Next())
		}
	case 2:
		p := seed%11 + 2
		for i := range b {
			b[i] = byte('a' + (i%p+seed)%23)
		}
	case 3: // a valid compression header (algorithm seed%3) followed by random bytes
		rest := c15Content(1, seed+1000, n)
		copy(b, rest)
		copy(b, c15Header(byte(seed%3)))
	}
	return b
}

func c15PartId(id int) partstore.PartId {
	raw := []byte{0x01, 0x8f, 0x2a, 0x00, 0x00, 0x00, 0x00, 0x00, 0x00, 0x00, 0x00, 0x00, 0x00, 0x00, 0xc1, byte(id)}
	p, err := partstore.NewPartIdFromBytes(raw)
	if err != nil {
		panic(err)
	}
	return *p
}

// ---- stack construction ----
type c15Stack struct {
	top       partstore.PartStore
	base      string
	dir       string // filesystem base directory
	storeId   string // sql base part store id
	env       *c15DB
	outboxIds []string
	tinks     []*c15Tink
}

func c15Build(base string, layers []string, scratch string) *c15Stack {
	st := &c15Stack{base: base, env: c15GetDB(scratch)}
	u := c15Uniq.Add(1)
	var cur partstore.PartStore
	var err error
	switch base {
	case "fs":
		st.dir = filepath.Join(scratch, "parts")
		cur, err = fsps.New(st.dir)
	case "sql":
		st.storeId = fmt.Sprintf("ps%d", u)
		cur, err = sqlps.New(st.env.db, st.env.content, sqlps.WithPartStoreId(st.storeId))
	default:
		panic("bad base " + base)
	}
	if err != nil {
		panic(err)
	}
	for i := len(layers) - 1; i >= 0; i-- {
		switch layers[i] {
		case "comp":
			cur, err = compression.NewWithConfig(cur, compression.Config{Algorithm: compression.AlgorithmZstd})
		case "gz":
			cur, err = compression.NewWithConfig(cur, compression.Config{Algorithm: compression.AlgorithmGzip})
		case "tink":
			t := c15GetTink()
			t.proxy.target = cur
			st.tinks = append(st.tinks, t)
			cur = t.mw
		case "cache":
			var ps any
			pers, e1 := inmemory.New()
			pol, e2 := evictnothing.New()
			if e1 != nil || e2 != nil {
				panic("cache parts")
			}
			_ = ps
			gc, e3 := cachepkg.NewGenericCache(pers, pol)
			if e3 != nil {
				panic(e3)
			}
			cur, err = pscache.New(gc, cur, pscache.Options{MaxPartSizeBytes: 100000})
		case "outbox":
			oid := fmt.Sprintf("ob%d-%d", u, i)
			st.outboxIds = append(st.outboxIds, oid)
			cur, err = outbox.New(st.env.db, oid, cur, st.env.outbox, prometheus.NewRegistry(), 30*time.Second)
		default:
			panic("bad layer " + layers[i])
		}
		if err != nil {
			panic(err)
		}
	}
	st.top = cur
	return st
}

func (st *c15Stack) release() {
	for _, t := range st.tinks {
		t.proxy.target = nil
		c15TinkPool <- t
	}
	c15DBPool <- st.env
}

// wait until every outbox of the stack has been flushed by its worker
func (st *c15Stack) drain(ctx context.Context) error {
	deadline := time.Now().Add(20 * time.Second)
	for {
		pending := 0
		err := database.WithTx(ctx, st.env.db, &sql.TxOptions{ReadOnly: true}, func(ctx context.Context, tx database.Tx) error {
			for _, oid := range st.outboxIds {
				n, err := st.env.outbox.Count(ctx, tx.SqlTx(), oid)
				if err != nil {
					return err
				}
				pending += n
			}
			return nil
		})
		if err != nil {
			return err
		}
		if pending == 0 {
			return nil
		}
		if time.Now().After(deadline) {
			return errors.New("outbox not drained")
		}
		time.Sleep(3 * time.Millisecond)
	}
}

// bytes at rest in the base store
func (st *c15Stack) atRest(ctx context.Context, id int) ([]byte, bool) {
	pid := c15PartId(id)
	_ = pid.Bytes()
	if st.base == "fs" {
		b, err := os.ReadFile(filepath.Join(st.dir, hex.EncodeToString(pid.Bytes())))
		if err != nil {
			return nil, false
		}
		return b, true
	}
	var out []byte
	found := false
	err := database.WithTx(ctx, st.env.db, &sql.TxOptions{ReadOnly: true}, func(ctx context.Context, tx database.Tx) error {
		for i := 0; ; i++ {
			e, err := st.env.content.FindPartContentChunkByIndex(ctx, tx.SqlTx(), st.storeId, pid, i)
			if err != nil {
				return err
			}
			if e == nil {
				return nil
			}
			found = true
			out = append(out, e.Content...)
		}
	})
	if err != nil {
		panic(err)
	}
	return out, found
}

func c15HasCodec(layers []string) bool {
	for _, l := range layers {
		if l == "comp" || l == "gz" || l == "tink" {
			return true
		}
	}
	return false
}

// is the at-rest size a function of the input alone (no layer compresses on the way down)?
func c15SizeDeterminate(layers []string, kind, n int) bool {
	size := n
	compressible := kind == 0 || kind == 2
	for _, l := range layers {
		switch l {
		case "comp", "gz":
			if size >= 1024 && compressible {
				return false
			}
			size += 32
		case "tink":
			pss, fp := 131072-16, 131072-56
			nseg := 1
			if size > fp {
				nseg = 1 + (size-fp+pss-1)/pss
			}
			size = 4 + 162 + 40 + size + 16*nseg
			compressible = false
		}
	}
	return true
}

type c15Put struct{ kind, seed, n int }

// c15Watchdog runs one case with a deadline: a reader of the code under test that returns (0, nil)
// for ever makes io.ReadFull inside the middlewares spin; that is reported as a failing case
// instead of hanging the whole run (the spinning goroutine and its pooled resources are abandoned).
var c15HangSeen atomic.Bool

func c15Watchdog(d time.Duration, f func() Result) Result {
	// the deadline must never fire on a slow, loaded machine: the first hang of a run is only declared
	// after 15 minutes; once one has been confirmed the remaining cases get the short deadline d
	if !c15HangSeen.Load() {
		d = 15 * time.Minute
	}
	ch := make(chan Result, 1)
	go func() {
		defer func() {
			if e := recover(); e != nil {
				ch <- Result{Out: "PANIC", Oracle: "FAIL:panic: " + fmt.Sprint(e), Tags: []string{"panic"}}
			}
		}()
		ch <- f()
	}()
	select {
	case r := <-ch:
		return r
	case <-time.After(d):
		c15HangSeen.Store(true)
		return Result{Out: "HANG", Oracle: "FAIL:the operation sequence did not terminate within " + d.String(), Tags: []string{"hang"}}
	}
}

func (c15) Run(in string, scratch string) Result {
	return c15Watchdog(2*time.Minute, func() Result { return c15Run(in, scratch) })
}

func c15Run(in string, scratch string) Result {
	f := strings.Split(in, " ")
	if len(f) != 3 {
		return Result{Out: "PARSE-ERROR", Oracle: "-", Tags: []string{"malformed"}}
	}
	base := f[0]
	var layers []string
	if f[1] != "-" {
		layers = strings.Split(f[1], ",")
	}
	ops := strings.Split(f[2], ";")
	ctx := context.Background()
	st := c15Build(base, layers, scratch)
	defer st.release()
	if err := st.top.Start(ctx); err != nil {
		panic(err)
	}
	defer st.top.Stop(ctx)
	caps := partstore.CapabilitiesOf(st.top)

	// oracle state: id -> expected bytes, written independently of the code under test
	expect := map[int][]byte{}
	lastPut := map[int]c15Put{}
	var allPuts []c15Put
	var outs, fails []string
	tags := map[string]bool{"base:" + base: true, "depth:" + strconv.Itoa(len(layers)): true}
	for _, l := range layers {
		tags["L:"+l] = true
	}
	fail := func(s string) {
		if len(fails) < 3 {
			fails = append(fails, s)
		}
	}
	withTx := func(ro bool, fn func(tx database.Tx) error) error {
		return database.WithTx(ctx, st.env.db, &sql.TxOptions{ReadOnly: ro}, func(ctx context.Context, tx database.Tx) error { return fn(tx) })
	}
	atoi := func(s string) int {
		v, err := strconv.Atoi(s)
		if err != nil {
			panic("bad number " + s)
		}
		return v
	}
	emptyPut := false
	for oi, o := range ops {
		p := strings.Split(o, ".")
		switch p[0] {
		case "P":
			id, kind, seed, n, tx := atoi(p[1]), atoi(p[2]), atoi(p[3]), atoi(p[4]), p[5] == "t"
			if !tx && !caps.Has(partstore.CapabilityTxFreePutPart) {
				outs = append(outs, "badmode")
				continue
			}
			content := c15Content(kind, seed, n)
			var err error
			if tx {
				err = withTx(false, func(tx database.Tx) error { return st.top.PutPart(ctx, tx, c15PartId(id), bytes.NewReader(content)) })
			} else {
				err = st.top.PutPart(ctx, nil, c15PartId(id), bytes.NewReader(content))
			}
			if err != nil {
				outs = append(outs, "err")
				fail(fmt.Sprintf("op%d put failed: %v", oi, err))
				continue
			}
			outs = append(outs, "ok")
			expect[id] = content
			lastPut[id] = c15Put{kind, seed, n}
			allPuts = append(allPuts, c15Put{kind, seed, n})
			tags["kind:"+p[2]] = true
			tags[c15SizeClass(n)] = true
			if n == 0 {
				emptyPut = true
			}
		case "G":
			id, tx, skip := atoi(p[1]), p[2] == "t", atoi(p[3])
			if !tx && !caps.Has(partstore.CapabilityTxFreeGetPart) {
				outs = append(outs, "badmode")
				continue
			}
			want, live := expect[id]
			if live && skip > len(want) {
				outs = append(outs, "badskip")
				continue
			}
			var got []byte
			var gerr error
			read := func(tx database.Tx) error {
				rc, err := st.top.GetPart(ctx, tx, c15PartId(id))
				if err != nil {
					gerr = err
					return nil
				}
				defer rc.Close()
				if skip > 0 {
					if _, err := ioutils.SkipNBytes(rc, int64(skip)); err != nil {
						gerr = err
						return nil
					}
					tags["skip"] = true
				}
				got, gerr = c15ReadAll(rc)
				return nil
			}
			if tx {
				if err := withTx(true, read); err != nil {
					gerr = err
				}
			} else {
				read(nil)
				tags["txfree-get"] = true
			}
			switch {
			case gerr == partstore.ErrPartNotFound:
				outs = append(outs, "nf")
				if live {
					fail(fmt.Sprintf("op%d get id %d: not found, expected %d bytes", oi, id, len(want)))
				}
			case gerr != nil:
				outs = append(outs, "err")
				fail(fmt.Sprintf("op%d get id %d failed: %v", oi, id, gerr))
			default:
				if !live {
					fail(fmt.Sprintf("op%d get id %d: %d bytes, expected not found", oi, id, len(got)))
				} else if !bytes.Equal(got, want[skip:]) {
					fail(fmt.Sprintf("op%d get id %d skip %d: %d bytes differ from the %d expected", oi, id, skip, len(got), len(want)-skip))
				}
				outs = append(outs, c15Identify(got, skip, lastPut[id], live, allPuts))
			}
		case "D":
			id, tx := atoi(p[1]), p[2] == "t"
			if !tx && !caps.Has(partstore.CapabilityTxFreeDeletePart) {
				outs = append(outs, "badmode")
				continue
			}
			var err error
			if tx {
				err = withTx(false, func(tx database.Tx) error { return st.top.DeletePart(ctx, tx, c15PartId(id)) })
			} else {
				err = st.top.DeletePart(ctx, nil, c15PartId(id))
			}
			if err != nil {
				outs = append(outs, "err")
				fail(fmt.Sprintf("op%d delete failed: %v", oi, err))
				continue
			}
			outs = append(outs, "ok")
			delete(expect, id)
			delete(lastPut, id)
			tags["delete"] = true
		case "L":
			if p[1] != "t" {
				outs = append(outs, "badmode")
				continue
			}
			var ids []partstore.PartId
			err := withTx(true, func(tx database.Tx) error {
				var e error
				ids, e = st.top.GetPartIds(ctx, tx)
				return e
			})
			if err != nil {
				outs = append(outs, "err")
				fail(fmt.Sprintf("op%d list failed: %v", oi, err))
				continue
			}
			var got []int
			for _, pid := range ids {
				b := pid.Bytes()
				p0 := c15PartId(0)
				if !bytes.Equal(b[:15], p0.Bytes()[:15]) {
					got = append(got, 1000)
				} else {
					got = append(got, int(b[15]))
				}
			}
			sort.Ints(got)
			var want []int
			for id := range expect {
				want = append(want, id)
			}
			sort.Ints(want)
			gs := make([]string, len(got))
			for i, v := range got {
				gs[i] = strconv.Itoa(v)
			}
			if fmt.Sprint(got) != fmt.Sprint(want) {
				fail(fmt.Sprintf("op%d list: ids %v, expected %v", oi, got, want))
			}
			outs = append(outs, "ids:"+strings.Join(gs, ","))
			tags["list"] = true
		case "S":
			id := atoi(p[1])
			if err := st.drain(ctx); err != nil {
				outs = append(outs, "err")
				fail("drain: " + err.Error())
				continue
			}
			raw, ok := st.atRest(ctx, id)
			if !ok {
				outs = append(outs, "st:0")
				continue
			}
			size := "?"
			if lp, live := lastPut[id]; live && c15SizeDeterminate(layers, lp.kind, lp.n) {
				size = strconv.Itoa(len(raw))
			}
			class := "raw"
			if c15HasCodec(layers) {
				// innermost codec decides what is at rest
				for i := len(layers) - 1; i >= 0; i-- {
					if layers[i] == "comp" || layers[i] == "gz" {
						if len(raw) >= 32 {
							class = "c" + strconv.Itoa(int(raw[17])) + ":" + hex.EncodeToString(raw[:32])
						} else {
							class = "short"
						}
						break
					}
					if layers[i] == "tink" {
						if len(raw) > 20 && bytes.HasPrefix(raw[4:], []byte(`{"version":3,`)) {
							class = "tk"
						} else {
							class = "nottink"
						}
						break
					}
				}
			}
			outs = append(outs, "st:1:"+size+":"+class)
			tags["stat"] = true
			// confidentiality at rest (C16 oracle also used here): no 16-byte window of a random plaintext
			if want, live := expect[id]; live && len(want) >= 64 && lastPut[id].kind == 1 {
				for _, l := range layers {
					if l == "tink" {
						if bytes.Contains(raw, want[16:32]) {
							fail(fmt.Sprintf("op%d plaintext window found at rest under tink", oi))
						}
						break
					}
				}
			}
		case "T":
			outs = append(outs, "ok")
		case "W":
			if err := st.drain(ctx); err != nil {
				outs = append(outs, "err")
				fail("drain: " + err.Error())
				continue
			}
			outs = append(outs, "ok")
		default:
			return Result{Out: "PARSE-ERROR", Oracle: "-", Tags: []string{"malformed"}}
		}
	}
	if emptyPut {
		tags["empty-part"] = true
	}
	oracle := "OK"
	if len(fails) > 0 {
		oracle = "FAIL:" + strings.Join(fails, " | ")
	}
	var tl []string
	for t := range tags {
		tl = append(tl, t)
	}
	sort.Strings(tl)
	return Result{Out: strings.Join(outs, ";"), Oracle: oracle, Tags: tl}
}

func c15SizeClass(n int) string {
	switch {
	case n == 0:
		return "size:0"
	case n < 992:
		return "size:small"
	case n <= 1056:
		return "size:min-compress"
	case n >= 65400 && n <= 65700:
		return "size:sample"
	case n >= 99900 && n <= 100100:
		return "size:cache-max"
	case n >= 130600 && n <= 131200:
		return "size:segment"
	case n > 131200:
		return "size:multi-segment"
	}
	return "size:mid"
}

// canonical name of the bytes a read returned: the generator coordinates of the content they equal
func c15Identify(got []byte, skip int, last c15Put, live bool, all []c15Put) string {
	try := func(p c15Put) bool {
		if skip > p.n || p.n-skip != len(got) {
			return false
		}
		return bytes.Equal(c15Content(p.kind, p.seed, p.n)[skip:], got)
	}
	name := func(p c15Put) string {
		if p.n == 0 {
			return "e"
		}
		return fmt.Sprintf("%d.%d.%d+%d", p.kind, p.seed, p.n, skip)
	}
	if live && try(last) {
		return name(last)
	}
	for _, p := range all {
		if try(p) {
			return name(p)
		}
	}
	return fmt.Sprintf("?%d", len(got))
}

// ---- generator ----
var c15Layers = []string{"comp", "gz", "tink", "cache", "outbox"}

func c15GenLen(r *Rng, tier string) int {
	switch r.Intn(16) {
	case 0:
		return 0
	case 1:
		return 1
	case 2:
		return 31 + r.Intn(3) // around the 32-byte header
	case 3, 4:
		return 1024 - 34 + r.Intn(70) // min-compress boundary, also 1024-32
	case 5:
		return 65536 - 34 + r.Intn(70) // sample size
	case 6:
		return 100000 - 40 + r.Intn(80) // cache threshold
	case 7:
		return 131072 - 56 - 2 + r.Intn(5) // first segment plaintext capacity
	case 8:
		return 131072 - 56 - 32 - 222 - 2 + r.Intn(5) // the same one or two layers further in
	case 9:
		return 131072 - 2 + r.Intn(60)
	case 10:
		return 2*131072 - 72 - 2 + r.Intn(5) // two full segments
	case 11:
		return 131072 + r.Intn(200000)
	}
	return r.Intn(5000)
}

func (c15) Gen(r *Rng, tier string, n int) []string {
	cases := make([]string, 0, n)
	for len(cases) < n {
		base := "fs"
		if r.Chance(45) {
			base = "sql"
		}
		depth := r.Intn(4)
		layers := make([]string, depth)
		for i := range layers {
			layers[i] = r.Pick(c15Layers)
		}
		// OPEN DEFECT excluded from generation (see docs/C15.md "tink over a non-seekable tink"): a tink
		// layer reading from the sequential reader of another tink layer fails every read, because
		// tink-go 1.7.0's noncebased.Reader replays its last segment when Read is called after EOF.
		// Two tink layers are therefore only generated over a plain filesystem base (seekable path).
		ntink, plainFs := 0, base == "fs"
		for _, l := range layers {
			if l == "cache" || l == "outbox" {
				plainFs = false
			}
		}
		for i, l := range layers {
			if l == "tink" {
				ntink++
				if ntink > 1 && !plainFs {
					layers[i] = "comp"
				}
			}
		}
		// determine capabilities the same way the documentation describes them
		txFreeGet, txFreeWrite := base == "fs", base == "fs"
		hasOutbox := false
		for _, l := range layers {
			if l == "outbox" {
				txFreeWrite = false
				hasOutbox = true
			}
		}
		mode := func(free bool) string {
			if free && r.Chance(45) {
				return "n"
			}
			if !free && r.Chance(3) {
				return "n" // refused
			}
			return "t"
		}
		nops := 3 + r.Intn(8)
		var ops []string
		type put struct{ kind, seed, n int }
		live := map[int]put{}
		forceDrain := false
		for len(ops) < nops {
			id := r.Intn(3)
			switch c := r.Intn(20); {
			case c < 7 || len(live) == 0 && c < 12:
				p := put{r.Intn(4), r.Intn(5), c15GenLen(r, tier)}
				if p.kind == 3 && p.n < 32 {
					p.n += 32
				}
				if p.n > 400000 {
					p.kind = 1
				}
				m := mode(txFreeWrite)
				ops = append(ops, fmt.Sprintf("P.%d.%d.%d.%d.%s", id, p.kind, p.seed, p.n, m))
				if m == "t" || txFreeWrite {
					live[id] = p
				}
				if forceDrain {
					ops = append(ops, "W")
				}
			case c < 13:
				skip := 0
				if p, ok := live[id]; ok && p.n > 0 && r.Chance(40) {
					switch r.Intn(4) {
					case 0:
						skip = p.n
					case 1:
						skip = 1 + r.Intn(p.n)
					case 2:
						skip = min(p.n, 131016-1+r.Intn(3))
					default:
						skip = min(p.n, 32)
					}
				}
				ops = append(ops, fmt.Sprintf("G.%d.%s.%d", id, mode(txFreeGet), skip))
			case c < 15:
				m := mode(txFreeWrite)
				ops = append(ops, fmt.Sprintf("D.%d.%s", id, m))
				if m == "t" || txFreeWrite {
					delete(live, id)
				}
				if forceDrain {
					ops = append(ops, "W")
				}
			case c < 17:
				ops = append(ops, "L.t")
			case c < 19:
				ops = append(ops, fmt.Sprintf("S.%d", id))
			default:
				if hasOutbox && !forceDrain {
					ops = append(ops, r.Pick([]string{"W", "T"}))
				} else {
					ops = append(ops, "L.t")
				}
			}
		}
		// always end by reading everything back and listing
		for id := 0; id < 3; id++ {
			ops = append(ops, fmt.Sprintf("G.%d.t.0", id))
		}
		ops = append(ops, "L.t")
		ls := "-"
		if depth > 0 {
			ls = strings.Join(layers, ",")
		}
		cases = append(cases, base+" "+ls+" "+strings.Join(ops, ";"))
	}
	return cases
}

// io.ReadAll that gives up when the reader makes no progress (a Read returning 0, nil for ever
// would otherwise hang the harness)
func c15ReadAll(r io.Reader) ([]byte, error) {
	var out []byte
	buf := make([]byte, 32*1024)
	idle := 0
	for {
		n, err := r.Read(buf)
		out = append(out, buf[:n]...)
		if err == io.EOF {
			return out, nil
		}
		if err != nil {
			return out, err
		}
		if n == 0 {
			idle++
			if idle > 10000 {
				return out, errors.New("reader makes no progress (0, nil)")
			}
		} else {
			idle = 0
		}
	}
}
