//go:build verif

package main

// Interposition harness (shared by C07 and C12): emulation of READ COMMITTED visibility on SQLite.
//
// The storage under test is built with doubles around the metadata store interface (the calls metadatapart makes:
// HeadObject, LookupDedupPart, TryAddPartReferences, AppendObject, PutObject, DeleteObject, ...) and around the object
// and part repositories inside sqlMetadataStore (FindObjectByBucketNameAndKey, UpdateObjectByIdAndOptimisticLockVersion,
// SaveObject, SavePart, ...). Every intercepted call of the VICTIM's transaction is a numbered statement boundary:
// boundary k = just before the k-th intercepted call. At the chosen boundary the double runs a complete RIVAL
// operation through the same storage with the victim's context: database.BeginTx then returns a child of the victim's
// transaction, so the rival's statements execute on the victim's connection and its "commit" is logical — exactly the
// visibility a READ COMMITTED backend gives the victim's NEXT statement (it sees the rival's committed rows; what the
// victim read before stays stale in its Go variables). A rival that fails is undone with a SAVEPOINT; when the victim
// fails (its rollback also discards the nested rival) the rival is re-run alone afterwards, which is the READ
// COMMITTED outcome (only the victim's writes are discarded).
//
// What this cannot show: true parallel statement execution, row-lock waits and deadlocks, Postgres-specific locking
// (SELECT ... FOR UPDATE, serialization failures). Boundaries after the victim's first write to a row the rival also
// touches are NOT emulated (a real rival would block on the row lock there; nested it would see uncommitted data).

import (
	"context"
	"database/sql"
	"os"
	"path/filepath"
	"strings"

	"github.com/jdillenkofer/pithos/internal/storage"
	repositoryFactory "github.com/jdillenkofer/pithos/internal/storage/database/repository"
	"github.com/jdillenkofer/pithos/internal/storage/database/repository/object"
	"github.com/jdillenkofer/pithos/internal/storage/database/repository/part"
	"github.com/jdillenkofer/pithos/internal/storage/database/sqlite"
	"github.com/jdillenkofer/pithos/internal/storage/metadatapart"
	"github.com/jdillenkofer/pithos/internal/storage/metadatapart/metadatastore"
	sqlMetadataStore "github.com/jdillenkofer/pithos/internal/storage/metadatapart/metadatastore/sql"
	"github.com/jdillenkofer/pithos/internal/storage/metadatapart/partstore"
	filesystemPartStore "github.com/jdillenkofer/pithos/internal/storage/metadatapart/partstore/filesystem"
	sqlPartStore "github.com/jdillenkofer/pithos/internal/storage/metadatapart/partstore/sql"
	"github.com/oklog/ulid/v2"
)

type ipCtl struct {
	armed   bool
	inRival bool
	k       int // fire before the k-th intercepted call (0 = never)
	count   int
	fired   bool
	trace   []string
	rival   func(ctx context.Context, tx *sql.Tx)
}

func (c *ipCtl) at(ctx context.Context, tx *sql.Tx, name string) {
	if !c.armed || c.inRival {
		return
	}
	c.count++
	c.trace = append(c.trace, name)
	if c.k > 0 && c.count == c.k && !c.fired && c.rival != nil {
		c.fired = true
		c.inRival = true
		c.rival(ctx, tx)
		c.inRival = false
	}
}

// ---- object repository double
type ipObjRepo struct {
	object.Repository
	c *ipCtl
}

func (r *ipObjRepo) SaveObject(ctx context.Context, tx *sql.Tx, o *object.Entity) error {
	r.c.at(ctx, tx, "R:SaveObject")
	return r.Repository.SaveObject(ctx, tx, o)
}
func (r *ipObjRepo) InsertObjectIfAbsent(ctx context.Context, tx *sql.Tx, o *object.Entity) (*bool, error) {
	r.c.at(ctx, tx, "R:InsertObjectIfAbsent")
	return r.Repository.InsertObjectIfAbsent(ctx, tx, o)
}
func (r *ipObjRepo) UpdateObjectByIdAndOptimisticLockVersion(ctx context.Context, tx *sql.Tx, o *object.Entity, v int64) (*bool, error) {
	r.c.at(ctx, tx, "R:UpdateObjectCAS")
	return r.Repository.UpdateObjectByIdAndOptimisticLockVersion(ctx, tx, o, v)
}
func (r *ipObjRepo) FindObjectByBucketNameAndKeyAndUploadId(ctx context.Context, tx *sql.Tx, b storage.BucketName, k storage.ObjectKey, u storage.UploadId) (*object.Entity, error) {
	r.c.at(ctx, tx, "R:FindUpload")
	return r.Repository.FindObjectByBucketNameAndKeyAndUploadId(ctx, tx, b, k, u)
}
func (r *ipObjRepo) FindObjectByBucketNameAndKey(ctx context.Context, tx *sql.Tx, b storage.BucketName, k storage.ObjectKey) (*object.Entity, error) {
	r.c.at(ctx, tx, "R:FindLatest")
	return r.Repository.FindObjectByBucketNameAndKey(ctx, tx, b, k)
}
func (r *ipObjRepo) FindObjectByBucketNameAndKeyAndVersionID(ctx context.Context, tx *sql.Tx, b storage.BucketName, k storage.ObjectKey, v string) (*object.Entity, error) {
	r.c.at(ctx, tx, "R:FindVersion")
	return r.Repository.FindObjectByBucketNameAndKeyAndVersionID(ctx, tx, b, k, v)
}
func (r *ipObjRepo) FindNullObjectVersionByBucketNameAndKey(ctx context.Context, tx *sql.Tx, b storage.BucketName, k storage.ObjectKey) (*object.Entity, error) {
	r.c.at(ctx, tx, "R:FindNull")
	return r.Repository.FindNullObjectVersionByBucketNameAndKey(ctx, tx, b, k)
}
func (r *ipObjRepo) FindLatestObjectByBucketNameAndKeyExcludingID(ctx context.Context, tx *sql.Tx, b storage.BucketName, k storage.ObjectKey, id ulid.ULID) (*object.Entity, error) {
	r.c.at(ctx, tx, "R:FindNextLatest")
	return r.Repository.FindLatestObjectByBucketNameAndKeyExcludingID(ctx, tx, b, k, id)
}
func (r *ipObjRepo) ClearLatestObjectByBucketNameAndKey(ctx context.Context, tx *sql.Tx, b storage.BucketName, k storage.ObjectKey) error {
	r.c.at(ctx, tx, "R:ClearLatest")
	return r.Repository.ClearLatestObjectByBucketNameAndKey(ctx, tx, b, k)
}
func (r *ipObjRepo) DeleteObjectById(ctx context.Context, tx *sql.Tx, id ulid.ULID) (*bool, error) {
	r.c.at(ctx, tx, "R:DeleteObject")
	return r.Repository.DeleteObjectById(ctx, tx, id)
}
func (r *ipObjRepo) DeleteObjectByIdAndOptimisticLockVersion(ctx context.Context, tx *sql.Tx, id ulid.ULID, v int64) (*bool, error) {
	r.c.at(ctx, tx, "R:DeleteObjectCAS")
	return r.Repository.DeleteObjectByIdAndOptimisticLockVersion(ctx, tx, id, v)
}

// ---- part repository double
type ipPartRepo struct {
	part.Repository
	c *ipCtl
}

func (r *ipPartRepo) FindPartsByObjectIdOrderBySequenceNumberAsc(ctx context.Context, tx *sql.Tx, id ulid.ULID) ([]part.Entity, error) {
	r.c.at(ctx, tx, "R:FindParts")
	return r.Repository.FindPartsByObjectIdOrderBySequenceNumberAsc(ctx, tx, id)
}
func (r *ipPartRepo) SavePart(ctx context.Context, tx *sql.Tx, p *part.Entity) error {
	r.c.at(ctx, tx, "R:SavePart")
	return r.Repository.SavePart(ctx, tx, p)
}
func (r *ipPartRepo) DeletePartsByObjectId(ctx context.Context, tx *sql.Tx, id ulid.ULID) error {
	r.c.at(ctx, tx, "R:DeleteParts")
	return r.Repository.DeletePartsByObjectId(ctx, tx, id)
}
func (r *ipPartRepo) DeletePartsByObjectIdReturning(ctx context.Context, tx *sql.Tx, id ulid.ULID) ([]part.Entity, error) {
	r.c.at(ctx, tx, "R:DeleteParts")
	return r.Repository.DeletePartsByObjectIdReturning(ctx, tx, id)
}
func (r *ipPartRepo) DeletePartsByObjectIdAndSequenceNumberReturning(ctx context.Context, tx *sql.Tx, id ulid.ULID, n int) ([]part.Entity, error) {
	r.c.at(ctx, tx, "R:DeletePartSeq")
	return r.Repository.DeletePartsByObjectIdAndSequenceNumberReturning(ctx, tx, id, n)
}

// ---- metadata store double (the calls of the metadatapart layer)
type ipStore struct {
	metadatastore.MetadataStore
	c *ipCtl
}

func (s *ipStore) GetBucketVersioningConfiguration(ctx context.Context, tx *sql.Tx, b metadatastore.BucketName) (*metadatastore.BucketVersioningConfiguration, error) {
	s.c.at(ctx, tx, "S:GetVersioning")
	return s.MetadataStore.GetBucketVersioningConfiguration(ctx, tx, b)
}
func (s *ipStore) HeadObject(ctx context.Context, tx *sql.Tx, b metadatastore.BucketName, k metadatastore.ObjectKey) (*metadatastore.Object, error) {
	s.c.at(ctx, tx, "S:HeadObject")
	return s.MetadataStore.HeadObject(ctx, tx, b, k)
}
func (s *ipStore) HeadObjectVersion(ctx context.Context, tx *sql.Tx, b metadatastore.BucketName, k metadatastore.ObjectKey, v string) (*metadatastore.Object, error) {
	s.c.at(ctx, tx, "S:HeadObjectVersion")
	return s.MetadataStore.HeadObjectVersion(ctx, tx, b, k, v)
}
func (s *ipStore) LookupDedupPart(ctx context.Context, tx *sql.Tx, store, sha string, size int64) (*metadatastore.PartDedupEntry, error) {
	s.c.at(ctx, tx, "S:LookupDedup")
	return s.MetadataStore.LookupDedupPart(ctx, tx, store, sha, size)
}
func (s *ipStore) TryAddPartReferences(ctx context.Context, tx *sql.Tx, ids []partstore.PartId) (bool, error) {
	s.c.at(ctx, tx, "S:TryAddRefs")
	return s.MetadataStore.TryAddPartReferences(ctx, tx, ids)
}
func (s *ipStore) TryIndexDedupPart(ctx context.Context, tx *sql.Tx, e metadatastore.PartDedupEntry) (bool, error) {
	s.c.at(ctx, tx, "S:TryIndexDedup")
	return s.MetadataStore.TryIndexDedupPart(ctx, tx, e)
}
func (s *ipStore) DeletePartDedupEntries(ctx context.Context, tx *sql.Tx, ids []partstore.PartId) error {
	s.c.at(ctx, tx, "S:DeleteDedup")
	return s.MetadataStore.DeletePartDedupEntries(ctx, tx, ids)
}
func (s *ipStore) PutObject(ctx context.Context, tx *sql.Tx, b metadatastore.BucketName, o *metadatastore.Object, opts *metadatastore.PutObjectOptions) (*metadatastore.PartMutationResult, error) {
	s.c.at(ctx, tx, "S:PutObject")
	return s.MetadataStore.PutObject(ctx, tx, b, o, opts)
}
func (s *ipStore) AppendObject(ctx context.Context, tx *sql.Tx, b metadatastore.BucketName, o *metadatastore.Object, opts *metadatastore.AppendObjectOptions) (*metadatastore.PartMutationResult, error) {
	s.c.at(ctx, tx, "S:AppendObject")
	return s.MetadataStore.AppendObject(ctx, tx, b, o, opts)
}
func (s *ipStore) DeleteObject(ctx context.Context, tx *sql.Tx, b metadatastore.BucketName, k metadatastore.ObjectKey, opts *metadatastore.DeleteObjectOptions) (*metadatastore.DeleteObjectResult, error) {
	s.c.at(ctx, tx, "S:DeleteObject")
	return s.MetadataStore.DeleteObject(ctx, tx, b, k, opts)
}
func (s *ipStore) GetMultipartUpload(ctx context.Context, tx *sql.Tx, b metadatastore.BucketName, k metadatastore.ObjectKey, u metadatastore.UploadId) (*metadatastore.Upload, error) {
	s.c.at(ctx, tx, "S:GetUpload")
	return s.MetadataStore.GetMultipartUpload(ctx, tx, b, k, u)
}
func (s *ipStore) CompleteMultipartUpload(ctx context.Context, tx *sql.Tx, b metadatastore.BucketName, k metadatastore.ObjectKey, u metadatastore.UploadId, ci *metadatastore.ChecksumInput, opts *metadatastore.CompleteMultipartUploadOptions) (*metadatastore.CompleteMultipartUploadResult, error) {
	s.c.at(ctx, tx, "S:CompleteUpload")
	return s.MetadataStore.CompleteMultipartUpload(ctx, tx, b, k, u, ci, opts)
}

// ipOpen builds the storage like metaOpen (harness/meta.go) but with the doubles in place
func ipOpen(dir string, stack string) (*metaEnv, *ipCtl, error) {
	tpl, err := metaTemplateDB(filepath.Dir(dir))
	if err != nil {
		return nil, nil, err
	}
	if err := os.WriteFile(filepath.Join(dir, "pithos.db"), tpl, 0o644); err != nil {
		return nil, nil, err
	}
	db, err := sqlite.OpenDatabase(filepath.Join(dir, "pithos.db"))
	if err != nil {
		return nil, nil, err
	}
	ctl := &ipCtl{}
	var ps partstore.PartStore
	if stack == "sql" {
		pcr, err := repositoryFactory.NewPartContentRepository(db)
		if err != nil {
			return nil, nil, err
		}
		if ps, err = sqlPartStore.New(db, pcr); err != nil {
			return nil, nil, err
		}
	} else {
		if ps, err = filesystemPartStore.New(filepath.Join(dir, "parts")); err != nil {
			return nil, nil, err
		}
	}
	br, err := repositoryFactory.NewBucketRepository(db)
	if err != nil {
		return nil, nil, err
	}
	or, err := repositoryFactory.NewObjectRepository(db)
	if err != nil {
		return nil, nil, err
	}
	pr, err := repositoryFactory.NewPartRepository(db)
	if err != nil {
		return nil, nil, err
	}
	tr, err := repositoryFactory.NewTagRepository(db)
	if err != nil {
		return nil, nil, err
	}
	ur, err := repositoryFactory.NewUserMetadataRepository(db)
	if err != nil {
		return nil, nil, err
	}
	ms, err := sqlMetadataStore.New(db, br, &ipObjRepo{or, ctl}, &ipPartRepo{pr, ctl}, tr, ur)
	if err != nil {
		return nil, nil, err
	}
	st, err := metadatapart.NewStorage(db, &ipStore{ms, ctl}, ps)
	if err != nil {
		return nil, nil, err
	}
	ctx := context.Background()
	if err := st.Start(ctx); err != nil {
		return nil, nil, err
	}
	return &metaEnv{st: st, db: db, close: func() { st.Stop(ctx); db.Close() }}, ctl, nil
}

// calls whose rows a rival may also touch: from the first of them on, boundaries are not emulated
func ipSharedWrite(name string) bool {
	switch name {
	case "R:SaveObject", "R:InsertObjectIfAbsent", "R:UpdateObjectCAS", "R:ClearLatest", "R:DeleteObject", "R:DeleteObjectCAS",
		"R:SavePart", "R:DeleteParts", "R:DeletePartSeq", "S:TryAddRefs", "S:DeleteDedup":
		return true
	}
	return false
}

func ipTraceString(t []string) string { return strings.Join(t, ",") }
