//go:build verif

package main

// C03 / C10 fault machinery: a PartStore double that (a) counts the boundary crossings an operation
// makes (part-store calls, pre-commit hooks, the DB commit, after-commit hooks), (b) injects an error at a
// chosen crossing, (c) (C10) kills the process at a chosen crossing.  The inner store is the REAL
// filesystem / SQL part store; hooks it registers reach the real TxController through a database.Tx proxy
// that wraps each registered closure, so every hook that runs is the real closure of filesystem.go.
//
// The DB-commit fault is produced without touching the code under test: after the last pre-commit hook ran,
// the double calls SqlTx().Rollback(); the real `t.tx.Commit()` inside TxController.Commit then fails with
// sql.ErrTxDone and the controller takes its genuine commit-failure path (Rollback + rollback hooks).

import (
	"context"
	"crypto/md5"
	"database/sql"
	"encoding/hex"
	"errors"
	"fmt"
	"io"
	"os"
	"path/filepath"
	"sort"
	"strconv"
	"strings"
	"sync"

	"github.com/jdillenkofer/pithos/internal/storage"
	"github.com/jdillenkofer/pithos/internal/storage/database"
	repositoryFactory "github.com/jdillenkofer/pithos/internal/storage/database/repository"
	"github.com/jdillenkofer/pithos/internal/storage/database/sqlite"
	"github.com/jdillenkofer/pithos/internal/storage/metadatapart"
	sqlMetadataStore "github.com/jdillenkofer/pithos/internal/storage/metadatapart/metadatastore/sql"
	"github.com/jdillenkofer/pithos/internal/storage/metadatapart/partstore"
	filesystemPartStore "github.com/jdillenkofer/pithos/internal/storage/metadatapart/partstore/filesystem"
	sqlPartStore "github.com/jdillenkofer/pithos/internal/storage/metadatapart/partstore/sql"
)

var errC03Injected = errors.New("c03: injected fault")

type c03Ctl struct {
	mu        sync.Mutex
	armed     bool
	target    int // index of the pre-class crossing (everything up to and including the DB commit) to fail; -1 = none
	postTgt   int // 2*j+variant: after-commit hook j; variant 0 = fail instead of running it, 1 = run it, then fail; -1 = none
	crashAt   int // C10: crossing index (crash numbering) at which the process exits with 137; -1 = none
	n         int // pre-class crossings so far
	post      int // after-commit hooks run so far
	cn        int // crash-point counter
	fired     bool
	firedKind string
	kinds     []string // kinds of the pre-class crossings seen
	ckinds    []string // kinds of the crash points seen
	curTx     database.Tx
	preCount  int
	partsDir  string
	expKind   string // explicit target (M-TX micro programs): "pre"/"pre.tmp" at real pre-commit hook expOrd, or "commit"
	expOrd    int
	crashKind string // C10 explicit crash point (M-TX micro programs): "pre" i / "commit" / "after" j
	crashOrd  int
}

func (c *c03Ctl) arm(target, postTgt int) {
	c.mu.Lock()
	defer c.mu.Unlock()
	c.armed, c.target, c.postTgt, c.crashAt = true, target, postTgt, -1
	c.n, c.post, c.cn, c.fired, c.firedKind, c.kinds, c.ckinds, c.curTx, c.preCount = 0, 0, 0, false, "", nil, nil, nil, 0
	c.expKind, c.expOrd = "", -1
	c.crashKind, c.crashOrd = "", -1
}

// C10: die at an explicitly named point (after pre-commit hook ord / after the DB commit / after after-commit hook ord)
func (c *c03Ctl) crashExplicit(kind string, ord int) {
	c.mu.Lock()
	hit := c.armed && c.crashKind == kind && (kind == "commit" || ord == c.crashOrd)
	c.mu.Unlock()
	if hit {
		os.Exit(137)
	}
}

func (c *c03Ctl) explicit(kind string, ord int) bool {
	c.mu.Lock()
	defer c.mu.Unlock()
	if c.armed && c.expKind == kind && (kind == "commit" || ord == c.expOrd) {
		c.fired, c.firedKind = true, kind
		return true
	}
	return false
}
func (c *c03Ctl) armCrash(at int) {
	c.arm(-1, -1)
	c.crashAt = at
}
func (c *c03Ctl) disarm() {
	c.mu.Lock()
	defer c.mu.Unlock()
	c.armed = false
	c.curTx = nil
}

// a pre-class crossing; true = inject the fault here
func (c *c03Ctl) cross(kind string) bool {
	c.mu.Lock()
	defer c.mu.Unlock()
	if !c.armed {
		return false
	}
	i := c.n
	c.n++
	c.kinds = append(c.kinds, kind)
	if i == c.target {
		c.fired, c.firedKind = true, kind
		return true
	}
	return false
}

// a crash point (C10): the process dies here without running any deferred code
func (c *c03Ctl) crashPoint(kind string) {
	c.mu.Lock()
	if !c.armed {
		c.mu.Unlock()
		return
	}
	i := c.cn
	c.cn++
	c.ckinds = append(c.ckinds, kind)
	at := c.crashAt
	c.mu.Unlock()
	if i == at {
		fmt.Fprintf(os.Stdout, "CRASHED-AT %d %s\n", i, kind)
		os.Stdout.Sync()
		os.Exit(137)
	}
}

type c03Store struct {
	inner partstore.PartStore
	ctl   *c03Ctl
}

var _ partstore.PartStore = (*c03Store)(nil)

func (s *c03Store) Start(ctx context.Context) error { return s.inner.Start(ctx) }
func (s *c03Store) Stop(ctx context.Context) error  { return s.inner.Stop(ctx) }
func (s *c03Store) Capabilities() partstore.Capabilities {
	return partstore.CapabilitiesOf(s.inner)
}

// database.Tx proxy handed to the inner store: hook registrations are wrapped, everything else passes through
type c03Tx struct {
	real  database.Tx
	st    *c03Store
	putId *partstore.PartId // set when the registering call is a PutPart
}

func (t *c03Tx) SqlTx() *sql.Tx { return t.real.SqlTx() }
func (t *c03Tx) DBHandle() any  { return t.real.DBHandle() }
func (t *c03Tx) OnPreCommit(fn func(context.Context) error) {
	t.real.OnPreCommit(t.st.wrapPre(t.real, fn, t.putId))
}
func (t *c03Tx) OnAfterCommit(fn func(context.Context) error) {
	t.real.OnAfterCommit(t.st.wrapAfter(fn))
}
func (t *c03Tx) OnRollback(fn func(context.Context) error) {
	t.real.OnRollback(func(ctx context.Context) error {
		t.st.ctl.crashPoint("rollback-hook.before")
		err := fn(ctx)
		t.st.ctl.crashPoint("rollback-hook.after")
		return err
	})
}

func (s *c03Store) wrapPre(real database.Tx, fn func(context.Context) error, putId *partstore.PartId) func(context.Context) error {
	c := s.ctl
	c.mu.Lock()
	idx := c.preCount
	c.preCount++
	c.mu.Unlock()
	return func(ctx context.Context) error {
		if fn != nil {
			c.crashPoint("pre-hook.before")
			if c.cross("pre") || c.explicit("pre", idx-1) {
				return errC03Injected
			}
			if putId != nil && (c.cross("pre.tmp") || c.explicit("pre.tmp", idx-1)) {
				// make the REAL hook fail by itself at its second rename (temp -> final), after it created the backup
				s.removeTemps(*putId)
			}
			if err := fn(ctx); err != nil {
				return err
			}
			c.crashPoint("pre-hook.after")
			c.crashExplicit("pre", idx-1)
		}
		c.mu.Lock()
		last := idx == c.preCount-1
		c.mu.Unlock()
		if last {
			c.crashPoint("commit.before")
			if c.cross("commit") || c.explicit("commit", -1) {
				_ = real.SqlTx().Rollback() // the real tx.Commit() now fails with sql.ErrTxDone
			}
		}
		return nil
	}
}

func (s *c03Store) wrapAfter(fn func(context.Context) error) func(context.Context) error {
	c := s.ctl
	return func(ctx context.Context) error {
		if fn == nil {
			c.crashPoint("commit.after")
			c.crashExplicit("commit", -1)
			return nil
		}
		c.mu.Lock()
		j := c.post
		c.post++
		armed, tgt := c.armed, c.postTgt
		if armed && tgt >= 0 && tgt/2 == j {
			c.fired, c.firedKind = true, "post"
		}
		c.mu.Unlock()
		c.crashPoint("after-hook.before")
		if armed && tgt >= 0 && tgt/2 == j && tgt%2 == 0 {
			return errC03Injected
		}
		err := fn(ctx)
		c.crashPoint("after-hook.after")
		c.crashExplicit("after", j)
		if armed && tgt >= 0 && tgt/2 == j && err == nil {
			return errC03Injected
		}
		return err
	}
}

func (s *c03Store) removeTemps(id partstore.PartId) {
	if s.ctl.partsDir == "" {
		return
	}
	ms, _ := filepath.Glob(filepath.Join(s.ctl.partsDir, "."+hex.EncodeToString(id.Bytes())+".*.tmp"))
	for _, m := range ms {
		os.Remove(m)
	}
}

// proxy for the transaction of the operation under test (nil stays nil; disarmed = the real tx untouched)
func (s *c03Store) proxy(tx database.Tx, putId *partstore.PartId) database.Tx {
	if tx == nil {
		return nil
	}
	c := s.ctl
	c.mu.Lock()
	armed := c.armed
	isNew := armed && c.curTx != tx
	if isNew {
		c.curTx = tx
		c.preCount = 0
	}
	c.mu.Unlock()
	if !armed {
		return tx
	}
	if isNew {
		// sentinels: first pre-commit hook (it is the "last" one when the store registers none, e.g. the SQL part
		// store) and first after-commit hook (= the point right after the DB commit)
		tx.OnPreCommit(s.wrapPre(tx, nil, nil))
		tx.OnAfterCommit(s.wrapAfter(nil))
	}
	return &c03Tx{real: tx, st: s, putId: putId}
}

type c03FailReader struct {
	r    io.Reader
	done bool
}

func (f *c03FailReader) Read(p []byte) (int, error) {
	if f.done {
		return 0, errC03Injected
	}
	f.done = true
	if len(p) > 7 {
		p = p[:7]
	}
	n, err := f.r.Read(p)
	if err == io.EOF {
		return n, errC03Injected
	}
	return n, err
}

func (s *c03Store) PutPart(ctx context.Context, tx database.Tx, partId partstore.PartId, reader io.Reader) error {
	px := s.proxy(tx, &partId)
	s.ctl.crashPoint("PutPart.before")
	if s.ctl.cross("ps.put") {
		return errC03Injected
	}
	if s.ctl.cross("ps.put.mid") {
		// the real PutPart runs on a stream that breaks after a few bytes
		err := s.inner.PutPart(ctx, px, partId, &c03FailReader{r: reader})
		if err == nil {
			err = errC03Injected
		}
		return err
	}
	if err := s.inner.PutPart(ctx, px, partId, reader); err != nil {
		return err
	}
	s.ctl.crashPoint("PutPart.after")
	if s.ctl.cross("ps.put.after") {
		return errC03Injected
	}
	return nil
}

func (s *c03Store) GetPart(ctx context.Context, tx database.Tx, partId partstore.PartId) (io.ReadCloser, error) {
	if s.ctl.cross("ps.get") {
		return nil, errC03Injected
	}
	return s.inner.GetPart(ctx, s.proxy(tx, nil), partId)
}

func (s *c03Store) GetPartIds(ctx context.Context, tx database.Tx) ([]partstore.PartId, error) {
	return s.inner.GetPartIds(ctx, tx)
}

func (s *c03Store) DeletePart(ctx context.Context, tx database.Tx, partId partstore.PartId) error {
	px := s.proxy(tx, nil)
	s.ctl.crashPoint("DeletePart.before")
	if s.ctl.cross("ps.del") {
		return errC03Injected
	}
	if err := s.inner.DeletePart(ctx, px, partId); err != nil {
		return err
	}
	s.ctl.crashPoint("DeletePart.after")
	if s.ctl.cross("ps.del.after") {
		return errC03Injected
	}
	return nil
}

// ---- environment: real MetadataPartStorage on SQLite with the double around the real part store ----
type c03Env struct {
	meta  *metaEnv
	ctl   *c03Ctl
	dir   string
	stack string
	ro    *sql.DB
}

func c03Open(dir, stack string, fresh bool) (*c03Env, error) {
	dbPath := filepath.Join(dir, "pithos.db")
	if fresh {
		tpl, err := metaTemplateDB(filepath.Dir(dir))
		if err != nil {
			return nil, err
		}
		if err := os.WriteFile(dbPath, tpl, 0o644); err != nil {
			return nil, err
		}
	}
	db, err := sqlite.OpenDatabase(dbPath)
	if err != nil {
		return nil, err
	}
	ctl := &c03Ctl{target: -1, postTgt: -1, crashAt: -1}
	var inner partstore.PartStore
	if stack == "sql" {
		pcr, err := repositoryFactory.NewPartContentRepository(db)
		if err != nil {
			return nil, err
		}
		if inner, err = sqlPartStore.New(db, pcr); err != nil {
			return nil, err
		}
	} else {
		ctl.partsDir = filepath.Join(dir, "parts")
		if inner, err = filesystemPartStore.New(ctl.partsDir); err != nil {
			return nil, err
		}
	}
	ps := &c03Store{inner: inner, ctl: ctl}
	br, err := repositoryFactory.NewBucketRepository(db)
	if err != nil {
		return nil, err
	}
	or, err := repositoryFactory.NewObjectRepository(db)
	if err != nil {
		return nil, err
	}
	pr, err := repositoryFactory.NewPartRepository(db)
	if err != nil {
		return nil, err
	}
	tr, err := repositoryFactory.NewTagRepository(db)
	if err != nil {
		return nil, err
	}
	ur, err := repositoryFactory.NewUserMetadataRepository(db)
	if err != nil {
		return nil, err
	}
	ms, err := sqlMetadataStore.New(db, br, or, pr, tr, ur)
	if err != nil {
		return nil, err
	}
	st, err := metadatapart.NewStorage(db, ms, ps)
	if err != nil {
		return nil, err
	}
	ctx := context.Background()
	if err := st.Start(ctx); err != nil {
		return nil, err
	}
	ro, err := sql.Open("sqlite3", "file:"+dbPath+"?mode=ro&_busy_timeout=5000")
	if err != nil {
		return nil, err
	}
	ro.SetMaxOpenConns(1)
	env := &c03Env{ctl: ctl, dir: dir, stack: stack, ro: ro}
	env.meta = &metaEnv{st: st, db: db, close: func() { ro.Close(); st.Stop(ctx); db.Close() }}
	return env, nil
}

// ---- snapshot: everything observable (API sweep + every table + the part directory) ----
type c03Snap struct {
	api, tables, published, residue string
}

func (a c03Snap) diff(b c03Snap) string {
	var d []string
	if a.api != b.api {
		d = append(d, "api-state")
	}
	if a.tables != b.tables {
		d = append(d, "tables")
	}
	if a.published != b.published {
		d = append(d, "published-part-files")
	}
	if a.residue != b.residue {
		d = append(d, "temp/backup-files")
	}
	return strings.Join(d, "+")
}

func c03FirstDiff(a, b string) string {
	la, lb := strings.Split(a, "\n"), strings.Split(b, "\n")
	in := map[string]bool{}
	for _, l := range la {
		in[l] = true
	}
	for _, l := range lb {
		if !in[l] {
			if len(l) > 160 {
				l = l[:160]
			}
			return "+" + l
		}
	}
	in = map[string]bool{}
	for _, l := range lb {
		in[l] = true
	}
	for _, l := range la {
		if !in[l] {
			if len(l) > 160 {
				l = l[:160]
			}
			return "-" + l
		}
	}
	return ""
}

func c03Snapshot(e *c03Env) c03Snap {
	var s c03Snap
	ctx := context.Background()
	st := e.meta.st
	var api []string
	buckets, err := st.ListBuckets(ctx)
	if err != nil {
		api = append(api, "ListBuckets-error "+err.Error())
	}
	for _, b := range buckets {
		bn := b.Name
		line := "bucket " + bn.String() + " created=" + strconv.FormatInt(b.CreationDate.UnixNano(), 10)
		if vc, err := st.GetBucketVersioningConfiguration(ctx, bn); err == nil && vc != nil && vc.Status != nil {
			line += " versioning=" + string(*vc.Status)
		}
		api = append(api, line)
		if lr, err := st.ListObjects(ctx, bn, storage.ListObjectsOptions{MaxKeys: 1000}); err == nil {
			for _, o := range lr.Objects {
				api = append(api, fmt.Sprintf("ls %s %s %s %d %d", bn, hex.EncodeToString([]byte(o.Key.String())), o.ETag, o.Size, o.LastModified.UnixNano()))
			}
		} else {
			api = append(api, "ls-error "+err.Error())
		}
		vr, err := st.ListObjectVersions(ctx, bn, storage.ListObjectVersionsOptions{MaxKeys: 1000})
		if err != nil {
			api = append(api, "lsv-error "+err.Error())
			continue
		}
		for _, v := range vr.Versions {
			et := ""
			if v.ETag != nil {
				et = *v.ETag
			}
			l := fmt.Sprintf("ver %s %s %s latest=%v dm=%v %s %d %d", bn, hex.EncodeToString([]byte(v.Key.String())), v.VersionID, v.IsLatest, v.IsDeleteMarker, et, v.Size, v.LastModified.UnixNano())
			if !v.IsDeleteMarker {
				vid := v.VersionID
				obj, readers, err := st.GetObject(ctx, bn, v.Key, nil, &storage.GetObjectOptions{VersionID: &vid})
				if err != nil {
					l += " get-error=" + err.Error()
				} else {
					h := md5.New()
					n := int64(0)
					for _, r := range readers {
						k, rerr := io.Copy(h, r)
						r.Close()
						n += k
						if rerr != nil {
							l += " read-error=" + rerr.Error()
						}
					}
					ct := "-"
					if obj.ContentType != nil {
						ct = *obj.ContentType
					}
					l += fmt.Sprintf(" body=%s/%d ct=%s etag=%s", hex.EncodeToString(h.Sum(nil)), n, ct, obj.ETag)
				}
				if tags, err := st.GetObjectTagging(ctx, bn, v.Key, &storage.ObjectTaggingOptions{VersionID: &vid}); err == nil {
					ks := []string{}
					for k, val := range tags {
						ks = append(ks, k+"="+val)
					}
					sort.Strings(ks)
					l += " tags=" + strings.Join(ks, "&")
				}
			}
			api = append(api, l)
		}
		if ur, err := st.ListMultipartUploads(ctx, bn, storage.ListMultipartUploadsOptions{MaxUploads: 1000}); err == nil {
			for _, u := range ur.Uploads {
				l := fmt.Sprintf("upload %s %s %s %d", bn, hex.EncodeToString([]byte(u.Key.String())), u.UploadId.String(), u.Initiated.UnixNano())
				if pr, err := st.ListParts(ctx, bn, u.Key, u.UploadId, storage.ListPartsOptions{MaxParts: 1000}); err == nil {
					for _, p := range pr.Parts {
						l += fmt.Sprintf(" part(%d,%s,%d)", p.PartNumber, p.ETag, p.Size)
					}
				} else {
					l += " parts-error=" + err.Error()
				}
				api = append(api, l)
			}
		} else {
			api = append(api, "uploads-error "+err.Error())
		}
	}
	s.api = strings.Join(api, "\n")
	s.tables = c03DumpTables(e.ro)
	if e.ctl.partsDir != "" {
		var pub, res []string
		ents, _ := os.ReadDir(e.ctl.partsDir)
		for _, en := range ents {
			name := en.Name()
			if len(name) == 32 && !strings.ContainsAny(name, ".") {
				b, _ := os.ReadFile(filepath.Join(e.ctl.partsDir, name))
				sum := md5.Sum(b)
				pub = append(pub, name+" "+hex.EncodeToString(sum[:])+" "+strconv.Itoa(len(b)))
			} else {
				res = append(res, name)
			}
		}
		sort.Strings(pub)
		sort.Strings(res)
		s.published, s.residue = strings.Join(pub, "\n"), strings.Join(res, "\n")
	}
	return s
}

func c03DumpTables(ro *sql.DB) string {
	rows, err := ro.Query("SELECT name FROM sqlite_master WHERE type='table' AND name NOT LIKE 'sqlite_%' AND name NOT LIKE 'schema_migrations' ORDER BY name")
	if err != nil {
		return "tables-error " + err.Error()
	}
	var names []string
	for rows.Next() {
		var n string
		rows.Scan(&n)
		names = append(names, n)
	}
	rows.Close()
	var out []string
	for _, t := range names {
		r, err := ro.Query("SELECT * FROM \"" + t + "\"")
		if err != nil {
			out = append(out, t+" error "+err.Error())
			continue
		}
		cols, _ := r.Columns()
		var lines []string
		for r.Next() {
			vals := make([]any, len(cols))
			ptrs := make([]any, len(cols))
			for i := range vals {
				ptrs[i] = &vals[i]
			}
			r.Scan(ptrs...)
			parts := make([]string, len(cols))
			for i, v := range vals {
				switch x := v.(type) {
				case []byte:
					if len(x) > 40 {
						sum := md5.Sum(x)
						parts[i] = fmt.Sprintf("blob(%d,%s)", len(x), hex.EncodeToString(sum[:]))
					} else {
						parts[i] = hex.EncodeToString(x)
					}
				default:
					parts[i] = fmt.Sprint(x)
				}
			}
			lines = append(lines, t+"|"+strings.Join(parts, "|"))
		}
		r.Close()
		sort.Strings(lines)
		out = append(out, lines...)
	}
	return strings.Join(out, "\n")
}
