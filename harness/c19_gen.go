//go:build verif

package main

import (
	"fmt"
	"strconv"
	"strings"
)

// tags and known-finding predicates, computed from the case line alone
func c19Tags(f []string) []string {
	ikind := ""
	if len(f[0]) == 2 {
		ikind = f[0][1:]
		f = append([]string{f[0][:1]}, f[1:]...)
	}
	ops := strings.Split(f[3], ";")
	has := map[string]bool{}
	maxDeclared := 0
	for _, o := range ops {
		g := strings.Split(o, ",")
		has[g[0]] = true
		num := func(i int) int {
			if i < len(g) && g[i] != "m" {
				v, _ := strconv.Atoi(g[i])
				return v
			}
			return 0
		}
		switch g[0] {
		case "S":
			maxDeclared = max(maxDeclared, num(3), num(4))
		case "E":
			maxDeclared = max(maxDeclared, num(3), num(5))
		case "B":
			maxDeclared = max(maxDeclared, num(4), num(5))
		case "P", "I", "Pf", "Ps":
			maxDeclared = max(maxDeclared, num(3))
		}
	}
	var tags []string
	mode := "mode-cache"
	faulted, storeFault := false, false
	for _, o := range ops {
		g := strings.Split(o, ",")
		switch g[0] {
		case "Tr", "Te", "Tc", "Pf", "Df", "Ps":
			faulted = true
		case "Ts":
			faulted, storeFault = true, true
		case "Q":
			if len(g) > 3 && g[3] != "n" {
				faulted = true
				storeFault = storeFault || g[3][0] == 's'
			}
		}
	}
	partOps := false
	for k := range has {
		switch k {
		case "P", "D", "Q", "T", "I", "Tr", "Ts", "Te", "Tc", "Pf", "Df", "Ps", "TB", "TP", "TD", "TC", "TR", "Tt", "Ttc":
			partOps = true
		}
	}
	if partOps {
		mode = "mode-partstore"
	}
	interleaved := has["B"] || has["O"] || has["Q"]
	tags = append(tags, mode, "persistor-"+f[0], "policy-"+f[1][:1])
	if interleaved {
		tags = append(tags, "interleaved")
	} else {
		tags = append(tags, "sequential")
	}
	limit := 0
	if len(f[1]) > 1 {
		limit, _ = strconv.Atoi(f[1][1:])
	}
	// region of the former LFU empty-heap panic (fixed in /repo 47ce3e3): only a coverage tag now — a panic here is
	// reported as VIOLATION
	if f[1] == "k0" || (f[1][0] == 's' && maxDeclared > limit) {
		tags = append(tags, "entry-exceeds-limit")
	}
	if f[0] == "f" && interleaved {
		tags = append(tags, "kf:C19-fs-inplace-partial")
	}
	if ikind != "" {
		tags = append(tags, "inner-"+ikind, "tx")
		if has["TR"] {
			tags = append(tags, "tx-rollback")
		}
	}
	if ikind == "S" && (has["Tt"] || has["Ttc"]) && has["TP"] {
		tags = append(tags, "kf:C19-intx-read-fills-cache-uncommitted")
	}
	if has["Q"] && (has["D"] || has["P"] || has["Ps"] || has["TD"] || has["TP"]) {
		tags = append(tags, "kf:C19-stale-fill-after-delete")
	}
	if faulted {
		tags = append(tags, "faulted")
	}
	if storeFault {
		tags = append(tags, "kf:C19-fill-store-error-hangs-reader")
	}
	return tags
}

func (c19) Gen(r *Rng, tier string, n int) []string {
	cases := make([]string, 0, n)
	for len(cases) < n {
		if r.Chance(35) {
			cases = append(cases, c19GenTxCase(r))
		} else {
			cases = append(cases, c19GenCase(r))
		}
	}
	return cases
}

// histories over a REAL inner part store (filesystem / SQL) with a write transaction that stays open while other
// callers read: BEGIN, PutPart/DeletePart(tx), readers outside (complete, early close, handles kept open across the
// commit) and inside the transaction, COMMIT / ROLLBACK, reads again; two transactions one after the other; the same
// id several times and put+delete of one id inside one transaction
func c19GenTxCase(r *Rng) string {
	kind := r.Pick([]string{"m", "f"}) + r.Pick([]string{"F", "S"})
	var pol string
	switch k := r.Intn(100); {
	case k < 20:
		pol = "n"
	case k < 65:
		pol = "k" + strconv.Itoa(1+r.Intn(2)) // small: committed parts get evicted, later reads are miss fills
	default:
		pol = "s" + strconv.Itoa([]int{8, 16, 24, 64}[r.Intn(4)])
	}
	maxpart := []int{4, 8, 16, 64, 64}[r.Intn(5)]
	ids := []string{"a", "b", "c"}
	racing := r.Chance(25) // reader handles kept open across transaction steps (the known fill-racing-commit window)
	inTx := r.Chance(18)   // readers inside the write transaction
	vid := 0
	lastLen := map[string]int{}
	var ops []string
	openH := map[int]bool{}
	read := func(open bool) {
		id := r.Pick(ids)
		switch w := r.Intn(100); {
		case racing && w < 22:
			h := r.Intn(3)
			if !openH[h] {
				openH[h] = true
				ops = append(ops, fmt.Sprintf("Q,%d,%s", h, id))
			}
		case racing && w < 40 && len(openH) > 0:
			for h := range openH {
				if r.Bool() {
					ops = append(ops, fmt.Sprintf("R,%d,%d", h, 1+r.Intn(8)))
				} else {
					ops = append(ops, fmt.Sprintf("F,%d", h))
					delete(openH, h)
				}
				break
			}
		case open && inTx && w < 55:
			if r.Chance(25) {
				ops = append(ops, fmt.Sprintf("Ttc,%s,%d", id, 1+r.Intn(lastLen[id]+2)))
			} else {
				ops = append(ops, "Tt,"+id)
			}
		case w < 70 || !open:
			ops = append(ops, "T,"+id)
		case w < 85:
			ops = append(ops, fmt.Sprintf("Tc,%s,%d", id, 1+r.Intn(lastLen[id]+2)))
		default:
			ops = append(ops, "T,"+id)
		}
	}
	for t := 0; t < 1+r.Intn(4); t++ {
		for i := 0; i < r.Intn(3); i++ {
			read(false)
		}
		if r.Chance(3) {
			ops = append(ops, r.Pick([]string{"TC", "TR", "TD,a", "Tt,a"})) // no transaction open
		}
		ops = append(ops, "TB")
		for i := 0; i < 1+r.Intn(4); i++ {
			id := r.Pick(ids)
			if r.Chance(65) {
				vid++
				l := r.Intn(20)
				if r.Chance(15) {
					l = maxpart + r.Intn(3)
				}
				lastLen[id] = l
				ops = append(ops, fmt.Sprintf("TP,%s,%d,%d", id, vid, l))
			} else {
				ops = append(ops, "TD,"+id)
			}
			for j := 0; j < r.Intn(3); j++ {
				read(true)
			}
		}
		if r.Chance(2) {
			ops = append(ops, "TB")
		}
		if r.Chance(70) {
			ops = append(ops, "TC")
		} else {
			ops = append(ops, "TR")
		}
		for i := 0; i < 1+r.Intn(3); i++ {
			read(false)
		}
	}
	for h := range openH {
		ops = append(ops, fmt.Sprintf("F,%d", h))
	}
	for _, id := range ids {
		ops = append(ops, "T,"+id)
	}
	return strings.Join([]string{kind, pol, strconv.Itoa(maxpart), strings.Join(ops, ";")}, " ")
}

func c19GenCase(r *Rng) string {
	pers := r.Pick([]string{"m", "f"})
	var pol string
	limit := 1 << 30
	switch k := r.Intn(100); {
	case k < 12:
		pol = "n"
	case k < 50:
		kl := 1 + r.Intn(3)
		if r.Chance(6) {
			kl = 0
		}
		pol = "k" + strconv.Itoa(kl)
	default:
		limit = []int{4, 8, 12, 16, 24, 32, 64}[r.Intn(7)]
		pol = "s" + strconv.Itoa(limit)
	}
	partMode := r.Chance(45)
	interleaved := r.Chance(60)
	maxpart := []int{4, 8, 16, 64, 64}[r.Intn(5)]
	keys := []string{"a", "b", "c"}
	if r.Chance(30) {
		keys = []string{"a", "b", "c", "d", "e"}
	}
	vid := 0
	lastLen := map[string]int{}
	failPoint := func(k string) int { // 0, mid, all-but-one, (rarely) at/after the end
		l := lastLen[k]
		switch r.Intn(6) {
		case 0:
			return 0
		case 1:
			if l > 0 {
				return l - 1
			}
		case 2:
			return l + r.Intn(2)
		}
		return r.Intn(l + 1)
	}
	length := func() int {
		top := limit
		if top > 40 {
			top = 40
		}
		if r.Chance(12) { // exceed the size limit (region of the former empty-heap panic) now and then
			top = 2*top + 2
			if top > 60 {
				top = 60
			}
		}
		switch r.Intn(6) {
		case 0:
			return r.Intn(3)
		case 1:
			return top
		case 2:
			if top > 0 {
				return top - 1
			}
		}
		return r.Intn(top + 1)
	}
	hint := func(l int) string {
		switch k := r.Intn(10); {
		case k < 5:
			return strconv.Itoa(l)
		case k < 8:
			return "m"
		default: // a wrong size hint
			h := l + r.Intn(5) - 2
			if h < 0 {
				h = 0
			}
			if h > limit && r.Chance(90) {
				h = limit
			}
			return strconv.Itoa(h)
		}
	}
	nops := 3 + r.Intn(14)
	if !interleaved {
		nops = 4 + r.Intn(24)
	}
	var ops []string
	openH := map[int]bool{}
	openS := map[int]bool{}
	pickOpen := func(m map[int]bool) int {
		if len(m) == 0 || r.Chance(2) {
			return r.Intn(3)
		}
		var ks []int
		for k := 0; k < 3; k++ {
			if m[k] {
				ks = append(ks, k)
			}
		}
		return ks[r.Intn(len(ks))]
	}
	pickFree := func(m map[int]bool) int {
		for try := 0; try < 4; try++ {
			k := r.Intn(3)
			if !m[k] {
				return k
			}
		}
		return r.Intn(3)
	}
	lastKey := ""
	for len(ops) < nops {
		k := r.Pick(keys)
		if interleaved && lastKey != "" && r.Chance(55) { // stay on the key a reader / streaming Set is working on
			k = lastKey
		}
		w := r.Intn(100)
		if partMode {
			switch {
			case w < 28:
				vid++
				l := length()
				if r.Chance(12) {
					l = maxpart + r.Intn(3)
				}
				letter := "P"
				switch w2 := r.Intn(100); {
				case w2 < 30:
					letter = "I"
				case w2 < 38:
					letter = "Pf"
				}
				if letter == "P" && r.Chance(10) {
					ops = append(ops, fmt.Sprintf("Ps,%s,%d,%d,%d", k, vid, l, []int{0, 1, l, l + 1}[r.Intn(4)]))
				} else {
					ops = append(ops, fmt.Sprintf("%s,%s,%d,%d", letter, k, vid, l))
				}
				if letter != "Pf" {
					lastLen[k] = l
				}
			case w < 50 || !interleaved && w < 85:
				switch w2 := r.Intn(100); {
				case w2 < 14:
					ops = append(ops, fmt.Sprintf("Tr,%s,%d", k, failPoint(k)))
				case w2 < 19:
					ops = append(ops, "Te,"+k)
				case w2 < 26:
					ops = append(ops, fmt.Sprintf("Tc,%s,%d", k, 1+r.Intn(lastLen[k]+2)))
				case w2 < 28:
					ops = append(ops, fmt.Sprintf("Ts,%s,%d", k, failPoint(k)))
				default:
					ops = append(ops, "T,"+k)
				}
			case w < 60 || !interleaved:
				if r.Chance(15) {
					ops = append(ops, "Df,"+k)
				} else {
					ops = append(ops, "D,"+k)
				}
			case w < 74:
				h := pickFree(openH)
				openH[h] = true
				switch w2 := r.Intn(100); {
				case w2 < 22:
					ops = append(ops, fmt.Sprintf("Q,%d,%s,r%d", h, k, failPoint(k)))
				case w2 < 27:
					ops = append(ops, fmt.Sprintf("Q,%d,%s,e", h, k))
				case w2 < 31:
					ops = append(ops, fmt.Sprintf("Q,%d,%s,s%d", h, k, failPoint(k)))
				default:
					ops = append(ops, fmt.Sprintf("Q,%d,%s", h, k))
				}
				lastKey = k
			case w < 88:
				ops = append(ops, fmt.Sprintf("R,%d,%d", pickOpen(openH), 1+r.Intn(12)))
			case w < 96:
				h := pickOpen(openH)
				delete(openH, h)
				ops = append(ops, fmt.Sprintf("F,%d", h))
			default:
				h := pickOpen(openH)
				delete(openH, h)
				ops = append(ops, fmt.Sprintf("C,%d", h))
			}
			continue
		}
		switch {
		case w < 30 || !interleaved && w < 45:
			vid++
			l := length()
			if prev, ok := lastLen[k]; ok && prev > 1 && r.Chance(35) { // overwrite with a strictly shorter value
				l = r.Intn(prev)
			}
			lastLen[k] = l
			ops = append(ops, fmt.Sprintf("S,%s,%d,%d,%s", k, vid, l, hint(l)))
		case w < 52 || !interleaved && w < 85:
			ops = append(ops, "G,"+k)
		case w < 58 || !interleaved && w < 94:
			ops = append(ops, "X,"+k)
		case w < 62 || !interleaved:
			vid++
			l := length()
			ops = append(ops, fmt.Sprintf("E,%s,%d,%d,%d,%s", k, vid, l, r.Intn(l+1), hint(l)))
		case w < 68:
			h := pickFree(openH)
			openH[h] = true
			ops = append(ops, fmt.Sprintf("O,%d,%s", h, k))
			lastKey = k
		case w < 75:
			ops = append(ops, fmt.Sprintf("R,%d,%d", pickOpen(openH), 1+r.Intn(12)))
		case w < 80:
			h := pickOpen(openH)
			delete(openH, h)
			ops = append(ops, fmt.Sprintf("F,%d", h))
		case w < 82:
			h := pickOpen(openH)
			delete(openH, h)
			ops = append(ops, fmt.Sprintf("C,%d", h))
		case w < 88:
			s := pickFree(openS)
			openS[s] = true
			vid++
			l := length()
			ops = append(ops, fmt.Sprintf("B,%d,%s,%d,%d,%s", s, k, vid, l, hint(l)))
			lastKey = k
		case w < 95:
			ops = append(ops, fmt.Sprintf("W,%d,%d", pickOpen(openS), 1+r.Intn(12)))
		case w < 99:
			s := pickOpen(openS)
			delete(openS, s)
			ops = append(ops, fmt.Sprintf("Z,%d", s))
		default:
			s := pickOpen(openS)
			delete(openS, s)
			ops = append(ops, fmt.Sprintf("Y,%d", s))
		}
	}
	return strings.Join([]string{pers, pol, strconv.Itoa(maxpart), strings.Join(ops, ";")}, " ")
}
