//go:build verif

package main

import (
	"bytes"
	"context"
	"fmt"
	"io"
	"log/slog"
	"net/http"
	"net/http/httptest"
	"net/url"
	"strings"
	"sync"

	"github.com/jdillenkofer/pithos/internal/http/server"
	"github.com/jdillenkofer/pithos/internal/http/server/authorization"
	"github.com/jdillenkofer/pithos/internal/storage"
)

// C33 — virtual-hosted and path-style requests address the same resource. Line: <mode> <method> <host> <path>
// (see coq/Model/VHost.v).  Mode A: the real server (server.SetupServer) with a recording authorizer that denies
// everything and a recording storage double: the (operation, bucket, key) the request would act on is observed at
// the authorization call.  Mode E: the real server on a real storage (SQLite + SQL part store) with an allow-all
// authorizer: a PUT is executed and the key that was actually stored is read back through the storage API.
type c33 struct{}

func init() { register("C33", c33{}) }

func (c33) Parallel() bool { return false }

// the endpoints of the server under test; mode N lines (other endpoint configurations, incl. nested ones) swap
// them for the duration of one case (the property's harness runs sequentially)
var (
	c33API = "s3.localhost"
	c33Web = "s3-website.localhost"
)

// endpoint configurations of mode N: API domain below the website domain, website domain below the API domain,
// both below a common parent that is itself the website domain's parent
var c33Configs = [][2]string{{"s3.example.com", "example.com"}, {"example.com", "web.example.com"}, {"s3.localhost", "localhost"}, {"s3.eu.example.com", "s3-website.eu.example.com"}}
var c33NHandlers = map[string]http.Handler{}

type c33Call struct {
	op          string
	bucket, key *string
}

type c33Authorizer struct {
	mu    sync.Mutex
	allow bool
	calls []c33Call
}

func (a *c33Authorizer) AuthorizeRequest(ctx context.Context, r *authorization.Request) (bool, error) {
	a.mu.Lock()
	defer a.mu.Unlock()
	a.calls = append(a.calls, c33Call{op: r.Operation, bucket: r.Bucket, key: r.Key})
	return a.allow, nil
}

// storage double: every method of the embedded (nil) interface panics; the ones that are legitimately reached
// before authorization are implemented and recorded
type c33Storage struct {
	storage.Storage
	mu    sync.Mutex
	calls []string
}

func (s *c33Storage) GetBucketWebsiteConfiguration(ctx context.Context, b storage.BucketName) (*storage.WebsiteConfiguration, error) {
	s.mu.Lock()
	s.calls = append(s.calls, "GetBucketWebsiteConfiguration "+b.String())
	s.mu.Unlock()
	return nil, storage.ErrNoSuchWebsiteConfiguration
}

var (
	c33Once    sync.Once
	c33Auth    = &c33Authorizer{}
	c33Store   = &c33Storage{}
	c33Handler http.Handler
	// mode E
	c33EOnce    sync.Once
	c33EAuth    = &c33Authorizer{allow: true}
	c33EHandler http.Handler
	c33EStorage storage.Storage
	c33EErr     error
)

var c33Buckets = []string{"bucket", "my.bucket", "a-b", "www.example.com", "abc", "photos"}

func c33SetupE(scratch string) {
	c33EOnce.Do(func() {
		fx := c36Setup(scratch) // real metadatapart storage on SQLite + SQL part store
		if fx.err != nil {
			c33EErr = fx.err
			return
		}
		c33EStorage = fx.st
		for _, b := range c33Buckets {
			if err := fx.st.CreateBucket(context.Background(), storage.MustNewBucketName(b)); err != nil {
				c33EErr = err
				return
			}
		}
		c33EHandler = server.SetupServer(nil, "eu-central-1", c33API, c33Web, c33EAuth, fx.st)
	})
}

type c33Obs struct {
	out    string
	status int
	nAuth  int
	nStore int
}

func c33Request(method, host, path string) *http.Request {
	req := httptest.NewRequest(method, "http://placeholder/", nil)
	req.Host = host
	req.URL = &url.URL{Scheme: "http", Host: host, Path: path} // decoded path, RawPath empty
	req.RequestURI = ""
	if method == "POST" {
		// POST handlers dispatch on the query before they authorize: pick sub-resources that exist
		// (CreateMultipartUpload on objects, DeleteObjects on buckets); the query is irrelevant for addressing
		req.URL.RawQuery = "uploads&delete"
	}
	return req
}

// net/http.ServeMux answers unclean paths with a redirect to the cleaned path (301 up to Go 1.2x, 307 since)
func c33IsMuxRedirect(code int) bool {
	return code == http.StatusMovedPermanently || code == http.StatusTemporaryRedirect || code == http.StatusPermanentRedirect
}

func c33UnescapeLocation(loc string) string {
	u, err := url.Parse(loc)
	if err != nil {
		return "?" + loc
	}
	return u.Path
}

// mode A observation
func c33Observe(method, host, path string) c33Obs {
	c33Auth.calls, c33Store.calls = nil, nil
	rec := httptest.NewRecorder()
	c33Handler.ServeHTTP(rec, c33Request(method, host, path))
	o := c33Obs{status: rec.Code, nAuth: len(c33Auth.calls), nStore: len(c33Store.calls)}
	switch {
	case c33IsMuxRedirect(rec.Code) && len(c33Auth.calls) == 0:
		o.out = "REDIRECT " + tokBytes(c33UnescapeLocation(rec.Header().Get("Location")))
	case rec.Code == http.StatusMethodNotAllowed && len(c33Auth.calls) == 0:
		o.out = "405"
	case rec.Code == http.StatusNotFound && len(c33Auth.calls) == 0 && len(c33Store.calls) == 0:
		o.out = "404"
	case len(c33Store.calls) > 0 && strings.HasPrefix(c33Store.calls[0], "GetBucketWebsiteConfiguration "):
		o.out = "WEB " + tokBytes(strings.TrimPrefix(c33Store.calls[0], "GetBucketWebsiteConfiguration "))
	case len(c33Auth.calls) > 0:
		c := c33Auth.calls[0]
		switch {
		case c.bucket == nil:
			o.out = "API-ROOT"
		case c.key == nil:
			o.out = "API-BUCKET " + tokBytes(*c.bucket)
		default:
			o.out = "API-OBJECT " + tokBytes(*c.bucket) + " " + tokBytes(*c.key)
		}
	case rec.Code >= 400 && rec.Code < 600:
		o.out = "REJECTED"
	default:
		o.out = fmt.Sprintf("STATUS-%d", rec.Code)
	}
	return o
}

// mode E: execute a PUT, then look where the bytes landed
func c33ObserveE(method, host, path string, body string) c33Obs {
	c33EAuth.calls = nil
	rec := httptest.NewRecorder()
	req := c33Request(method, host, path)
	req.Body = io.NopCloser(strings.NewReader(body))
	req.ContentLength = int64(len(body))
	c33EHandler.ServeHTTP(rec, req)
	o := c33Obs{status: rec.Code, nAuth: len(c33EAuth.calls)}
	switch {
	case c33IsMuxRedirect(rec.Code):
		o.out = "REDIRECT " + tokBytes(c33UnescapeLocation(rec.Header().Get("Location")))
		return o
	case rec.Code == http.StatusMethodNotAllowed:
		o.out = "405"
		return o
	case rec.Code >= 400:
		o.out = "REJECTED"
		return o
	}
	// find the object carrying this body
	ctx := context.Background()
	found := ""
	for _, b := range c33Buckets {
		bn := storage.MustNewBucketName(b)
		objs, err := storage.ListAllObjectsOfBucket(ctx, c33EStorage, bn)
		if err != nil {
			continue
		}
		for _, ob := range objs {
			_, readers, err := c33EStorage.GetObject(ctx, bn, ob.Key, nil, nil)
			if err != nil {
				continue
			}
			var buf bytes.Buffer
			for _, r := range readers {
				io.Copy(&buf, r)
				r.Close()
			}
			if buf.String() == body {
				found = "API-OBJECT " + tokBytes(b) + " " + tokBytes(ob.Key.String())
			}
			c33EStorage.DeleteObject(ctx, bn, ob.Key, nil)
		}
	}
	if found == "" {
		found = fmt.Sprintf("STORED-NOWHERE-%d", rec.Code)
	}
	o.out = found
	return o
}

func c33StripPort(host string) string {
	if i := strings.LastIndex(host, ":"); i != -1 && strings.LastIndex(host, "]") < i {
		return host[:i]
	}
	return host
}

func (c33) Run(in string, scratch string) Result {
	c33Once.Do(func() {
		slog.SetDefault(slog.New(slog.NewTextHandler(io.Discard, nil)))
		c33Handler = server.SetupServer(nil, "eu-central-1", c33API, c33Web, c33Auth, c33Store)
	})
	f := strings.Split(in, " ")
	nested := false
	if len(f) == 7 && f[0] == "N" { // mode A under another endpoint configuration
		api, web := untokBytes(f[5]), untokBytes(f[6])
		oldAPI, oldWeb, oldH := c33API, c33Web, c33Handler
		defer func() { c33API, c33Web, c33Handler = oldAPI, oldWeb, oldH }()
		hk := api + "|" + web
		if c33NHandlers[hk] == nil {
			c33NHandlers[hk] = server.SetupServer(nil, "eu-central-1", api, web, c33Auth, c33Store)
		}
		c33API, c33Web, c33Handler = api, web, c33NHandlers[hk]
		f = append([]string{"A"}, f[1:5]...)
		nested = true
	}
	if len(f) != 5 || (f[0] != "A" && f[0] != "E") {
		return Result{Out: "PARSE-ERROR", Tags: []string{"malformed"}}
	}
	mode, method, host, path := f[0], untokBytes(f[1]), untokBytes(f[2]), untokBytes(f[3])
	h := c33StripPort(host)
	isAPI := h == c33API || h == "."+c33API // an empty bucket label is path style on the API endpoint
	isVhost := h != c33API && strings.HasSuffix(h, "."+c33API) && len(h) > len(c33API)+1
	bucket := ""
	if isVhost {
		bucket = strings.TrimSuffix(h, "."+c33API)
	}

	var obs c33Obs
	body := "c33-body-" + in
	if mode == "E" {
		c33SetupE(scratch)
		if c33EErr != nil {
			return Result{Out: "SETUP-FAILED", Oracle: "FAIL:fixture: " + c33EErr.Error(), Tags: []string{"setup-failed"}}
		}
		obs = c33ObserveE(method, host, path, body)
	} else {
		obs = c33Observe(method, host, path)
	}

	oracle := "-"
	tags := []string{"mode-" + mode, "m-" + method}
	if nested {
		tags = append(tags, "other-endpoints")
	}
	switch {
	case isVhost:
		tags = append(tags, "vhost")
		// the path-style twin of this request must be treated identically
		twin := "/" + bucket + path
		if path == "/" || path == "" {
			twin = "/" + bucket
		}
		var t c33Obs
		if mode == "E" {
			t = c33ObserveE(method, c33API, twin, body)
		} else {
			t = c33Observe(method, c33API, twin)
		}
		if t.out == obs.out {
			oracle = "OK"
		} else {
			oracle = "FAIL:virtual-hosted request is treated as [" + obs.out + "], its path-style twin " + twin + " as [" + t.out + "]"
		}
		if path == "/"+bucket || strings.HasPrefix(path, "/"+bucket+"/") {
			tags = append(tags, "key-starts-with-bucket")
		}
		if strings.HasSuffix(path, "/") && path != "/" {
			tags = append(tags, "trailing-slash") // the region of the former defect (fixed by /repo 18a80a7)
		}
	case isAPI:
		tags = append(tags, "path-style")
		oracle = "OK"
	default:
		if strings.HasSuffix(h, "."+c33Web) && len(h) > len(c33Web)+1 {
			tags = append(tags, "website")
		} else {
			tags = append(tags, "custom-domain")
			if strings.HasSuffix(h, c33API) || strings.HasSuffix(h, c33Web) {
				tags = append(tags, "lookalike-domain")
			}
		}
		// website endpoints never change state: only GET/HEAD get past the router, nothing but the
		// website-configuration lookup touches storage before authorization
		oracle = "OK"
		if method != "GET" && method != "HEAD" && (obs.nAuth > 0 || obs.nStore > 0) {
			oracle = "FAIL:" + method + " on a website endpoint reached the handlers"
		}
		if strings.HasPrefix(obs.out, "API-") {
			oracle = "FAIL:website/custom-domain request was served by the API handlers"
		}
	}
	switch {
	case strings.HasPrefix(obs.out, "REDIRECT"):
		tags = append(tags, "redirect")
	case obs.out == "405":
		tags = append(tags, "method-not-allowed")
	case obs.out == "REJECTED":
		tags = append(tags, "rejected")
	case strings.HasPrefix(obs.out, "API-OBJECT"):
		tags = append(tags, "object")
	case strings.HasPrefix(obs.out, "API-BUCKET"):
		tags = append(tags, "bucket-level")
	case obs.out == "API-ROOT":
		tags = append(tags, "root")
	case strings.HasPrefix(obs.out, "WEB"):
		tags = append(tags, "web-routed")
	}
	return Result{Out: obs.out, Oracle: oracle, Tags: tags}
}

// independent reading of the S3 bucket naming rules enforced by storage.NewBucketName
func c33ValidBucket(n string) bool {
	if len(n) < 3 || len(n) > 63 {
		return false
	}
	alnum := func(c byte) bool { return (c >= 'a' && c <= 'z') || (c >= '0' && c <= '9') }
	for i := 0; i < len(n); i++ {
		if !alnum(n[i]) && n[i] != '.' && n[i] != '-' {
			return false
		}
	}
	if !alnum(n[0]) || !alnum(n[len(n)-1]) {
		return false
	}
	if _, _, isIP := c32ParseIP(n); isIP {
		return false
	}
	for _, bad := range []string{"--", ".-", "-.", ".."} {
		if strings.Contains(n, bad) {
			return false
		}
	}
	if strings.HasPrefix(n, "xn--") || strings.HasPrefix(n, "sthree-") || strings.HasSuffix(n, "-s3alias") || strings.HasSuffix(n, "--ol-s3") {
		return false
	}
	return true
}

func c33Line(mode, method, host, path string) string {
	h := c33StripPort(host)
	seen := map[string]bool{}
	var names []string
	add := func(s string) {
		if !seen[s] {
			seen[s] = true
			v := "0"
			if c33ValidBucket(s) {
				v = "1"
			}
			names = append(names, tokBytes(s)+"="+v)
		}
	}
	add(h)
	add(strings.TrimSuffix(h, "."+c33API))
	add(strings.TrimSuffix(h, "."+c33Web))
	for _, seg := range strings.Split(path, "/") {
		add(seg)
	}
	return strings.Join([]string{mode, tokBytes(method), tokBytes(host), tokBytes(path), strings.Join(names, ",")}, " ")
}

// ---- generator ----
// OPTIONS is not generated: without an Origin the OPTIONS handlers answer 405 themselves, before any observable call
var c33Methods = []string{"GET", "HEAD", "PUT", "DELETE", "POST", "PATCH", "TRACE", "GET", "PUT"}
var c33KeySegs = []string{"a", "folder", "k", "x y", "%41", "a%2Fb", "ü", ".", "..", "", "index.html", "b", "...", "a.b", "+", "?", "#", ":", "*"}

// keys that look like addressing artefacts: the bucket's own name as first segment(s), the endpoint or the
// virtual host name inside the key
func c33SelfKey(r *Rng, b string) string {
	tail := r.Pick([]string{"", "/", "/2024/a.jpg", "//x", "/" + b, "/" + b + "/k", "/folder/", "/."})
	switch r.Intn(8) {
	case 0:
		return b
	case 1, 2, 3:
		return b + tail
	case 4:
		return c33API + tail
	case 5:
		return b + "." + c33API + tail
	case 6:
		return "x/" + b + tail
	default:
		return strings.ToUpper(b[:1]) + b[1:] + tail
	}
}

func c33Key(r *Rng) string {
	n := 1 + r.Intn(4)
	segs := make([]string, n)
	for i := range segs {
		segs[i] = r.Pick(c33KeySegs)
		if r.Chance(70) {
			segs[i] = r.Pick(c33KeySegs[:8])
		}
	}
	k := strings.Join(segs, "/")
	if r.Chance(25) {
		k += "/"
	}
	if r.Chance(5) {
		k += "/"
	}
	if r.Chance(5) {
		k = "/" + k
	}
	return k
}

func (c33) Gen(r *Rng, tier string, n int) []string {
	var cases []string
	emit := func(mode, method, host, path string) {
		cases = append(cases, c33Line(mode, method, host, path))
	}
	nE := n / 10
	for len(cases) < n-nE {
		method := r.Pick(c33Methods)
		b := r.Pick(c33Buckets)
		port := ""
		if r.Chance(25) {
			port = r.Pick([]string{":8080", ":80", ":443"})
		}
		var path string
		switch k := r.Intn(12); {
		case k == 0:
			path = "/"
		case k == 1:
			path = ""
		case k < 5:
			path = "/" + c33SelfKey(r, b)
		default:
			path = "/" + c33Key(r)
		}
		switch k := r.Intn(20); {
		case k < 9: // virtual-hosted
			emit("A", method, b+"."+c33API+port, path)
		case k < 14: // path style
			p := "/" + b + path
			if r.Chance(10) {
				p = path
			}
			emit("A", method, c33API+port, p)
		case k < 17: // website endpoint
			emit("A", method, b+"."+c33Web+port, path)
		case k < 19: // custom domain
			// incl. domains that merely END with an endpoint string, without a dot boundary
			emit("A", method, r.Pick([]string{"www.example.com", "static.example.org", "[::1]", "localhost", "example",
				"assets3.localhost", "mys3.localhost", "xs3-website.localhost", "photoss3.localhost", "s3.localhost.example.com"})+port, path)
		default: // odd hosts
			emit("A", method, r.Pick([]string{"." + c33API, c33API + ".", "x" + c33API, "." + c33Web, c33Web, "b." + c33API + ":", "[::1]:80", "b.s3.localhost.evil.com", "S3.LOCALHOST", "a.b.c." + c33API}), path)
		}
	}
	// other endpoint configurations (mode N): the same request shapes with the API and website domains nested
	for i := 0; i < n/12; i++ {
		cfg := c33Configs[r.Intn(len(c33Configs))]
		oldAPI, oldWeb := c33API, c33Web
		c33API, c33Web = cfg[0], cfg[1]
		method := r.Pick(c33Methods)
		b := r.Pick(c33Buckets)
		path := "/" + c33Key(r)
		if r.Chance(15) {
			path = "/"
		}
		var host string
		switch k := r.Intn(10); {
		case k < 4:
			host = b + "." + c33API
		case k < 6:
			host = c33API
			path = "/" + b + path
		case k < 8:
			host = b + "." + c33Web
		case k < 9:
			host = r.Pick([]string{c33Web, "x" + c33API, "www.other.org", b + ".x." + c33API, b + ".s3." + c33Web})
		default:
			host = b + "." + c33API + ":8080"
		}
		line := c33Line("N", method, host, path) + " " + tokBytes(c33API) + " " + tokBytes(c33Web)
		c33API, c33Web = oldAPI, oldWeb
		cases = append(cases, line)
	}
	for len(cases) < n+n/12 { // end to end on real storage: PUT both ways
		b := r.Pick(c33Buckets)
		key := c33Key(r)
		if r.Chance(35) {
			key = c33SelfKey(r, b)
		}
		if key == "" { // "PUT /" virtual-hosted is CreateBucket, not an object write
			continue
		}
		path := "/" + key
		if r.Bool() {
			emit("E", "PUT", b+"."+c33API, path)
		} else {
			emit("E", "PUT", c33API, "/"+b+path)
		}
	}
	return cases
}
