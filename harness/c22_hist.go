//go:build verif

package main

import (
	"bytes"
	"context"
	"database/sql"
	"fmt"
	"io"
	"log/slog"
	"strconv"
	"strings"
	"time"

	"github.com/jdillenkofer/pithos/internal/storage"
	"github.com/jdillenkofer/pithos/internal/storage/database"
	"github.com/jdillenkofer/pithos/internal/storage/notification"
)

// C22 histories: mutations (incl. DeleteObjects batches) through the real notification middleware over a real
// SQLite-backed storage, and the dispatcher driven step by step: three claim owners (= three StorageMiddleware
// instances over the same database, each with its own claimOwner and MaxAttempts), claim and dispatchEntry as
// separate steps (a claim that is never dispatched = a crashed process), dispatcher writes that fail, leases and
// back-offs that run out only when the history says so (the rows' claim_until / next_attempt_at are rewritten; the
// configured lease is 1h and the back-offs >= 60s, far above a case's run time).

type c22Ver struct {
	id     string // version id ("null" for the unversioned one)
	marker bool
}

type c22Owner struct {
	mw   *notification.StorageMiddleware
	num  int // model's owner number
	max  int
	held *notification.OutboxEntry
}

type c22Env struct {
	ctx      context.Context
	mdb      database.Database
	repo     *c22Repo
	pub      *c22Pub
	inner    storage.Storage
	db       database.Database
	cfg      notification.DispatcherConfig
	owners   [3]*c22Owner
	ownerNum map[string]int // claim owner string -> model's owner number
	nextNum  int

	// oracle state, kept by the harness itself
	rules     map[string][]storage.NotificationConfigurationRule
	eb        map[string]bool
	versioned map[string]bool
	vers      map[string][]c22Ver // bucket/key -> versions, newest first
	fail      string
	deadRows  map[string]int // row id -> attempts when dead-lettered
	goneRows  map[string]bool
	effMin    time.Duration
	effMax    time.Duration
	opIndex   int

	nMut, nCommitted, nRolled, nEntries, nPub, nBatchRefused, nBatchDeleted int
	nTakeover, nDead, nWriteFault, nStalePub                                 int
}

func (e *c22Env) setFail(s string) {
	if e.fail == "" {
		e.fail = s
	}
}

func (e *c22Env) newOwner(slot, max int) {
	cfg := e.cfg
	cfg.MaxAttempts = max
	mw, err := notification.NewStorageMiddleware(e.inner, e.db, e.repo, e.pub, "default", time.Hour, cfg, nil)
	if err != nil {
		panic("harness: " + err.Error())
	}
	e.owners[slot] = &c22Owner{mw: mw, num: e.nextNum, max: max}
	e.ownerNum[notification.VerifClaimOwner(mw)] = e.nextNum
	e.nextNum++
}

func (e *c22Env) wantRows(bucket, event, key string) []string {
	var want []string
	for _, r := range e.rules[bucket] {
		if c22SpecMatches(r, event, key) {
			want = append(want, c22DestLetter(r.DestinationARN)+"|"+c22Short(event)+"|"+key)
		}
	}
	if e.eb[bucket] {
		want = append(want, "eventbridge:"+bucket+"|"+c22Short(event)+"|"+key)
	}
	return want
}

func (e *c22Env) showRow(r c22Row, last map[string]c22Call) string {
	s := fmt.Sprintf("%s|%s|%s|%d|", r.dest, c22Short(r.event), r.key, r.attempts)
	if r.dead {
		s += "D"
	} else {
		s += "P"
		if c, ok := last[r.id]; ok && !c.ok && r.claimOwner == "" {
			d := r.next.Sub(c.returned)
			dm := d / (100 * time.Millisecond) * (100 * time.Millisecond)
			s += "|" + strconv.FormatInt(int64(dm/time.Millisecond), 10)
			if d < e.effMin || dm > e.effMax {
				e.setFail(fmt.Sprintf("retry scheduled %v after the failed attempt, outside [%v, %v]", d, e.effMin, e.effMax))
			}
		}
	}
	if r.claimOwner != "" {
		s += "@" + strconv.Itoa(e.ownerNum[r.claimOwner])
		if r.claimExpired {
			s += "x"
		}
	}
	return s
}

func (e *c22Env) addedRows(before, after []c22Row) []string {
	seen := map[string]bool{}
	for _, r := range before {
		seen[r.id] = true
	}
	var added []string
	for _, r := range after {
		if !seen[r.id] {
			added = append(added, r.dest+"|"+c22Short(r.event)+"|"+r.key)
		}
	}
	if len(after)-len(added) != len(before) {
		e.setFail("outbox rows disappeared during a mutation")
	}
	return added
}

func (e *c22Env) vkey(b, k string) string { return b + "/" + k }

// the reference's own bookkeeping of S3 versions (to address versions in DeleteObjects requests)
func (e *c22Env) notePut(b, k string, vid *string) {
	id := "null"
	if vid != nil {
		id = *vid
	}
	if e.versioned[b] {
		e.vers[e.vkey(b, k)] = append([]c22Ver{{id: id}}, e.vers[e.vkey(b, k)]...)
	} else {
		e.vers[e.vkey(b, k)] = []c22Ver{{id: id}}
	}
}
func (e *c22Env) noteDelete(b, k string, markerID *string) {
	if e.versioned[b] {
		id := "null"
		if markerID != nil {
			id = *markerID
		}
		e.vers[e.vkey(b, k)] = append([]c22Ver{{id: id, marker: true}}, e.vers[e.vkey(b, k)]...)
	} else {
		delete(e.vers, e.vkey(b, k))
	}
}
func (e *c22Env) noteDeleteVersion(b, k, vid string) {
	var out []c22Ver
	for _, v := range e.vers[e.vkey(b, k)] {
		if v.id != vid {
			out = append(out, v)
		}
	}
	e.vers[e.vkey(b, k)] = out
}

const c22BogusVersion = "01HZZZZZZZZZZZZZZZZZZZZZZZ"
const c22StaleETag = "\"00000000000000000000000000000000\""

func (e *c22Env) etagOf(b, k string, vid *string) string {
	var opts *storage.HeadObjectOptions
	if vid != nil {
		opts = &storage.HeadObjectOptions{VersionID: vid}
	}
	o, err := e.owners[0].mw.HeadObject(e.ctx, storage.MustNewBucketName(b), storage.MustNewObjectKey(k), opts)
	if err != nil || o == nil {
		return c22StaleETag
	}
	return o.ETag
}

func (e *c22Env) mutation(o string, g []string) string {
	e.nMut++
	mw := e.owners[0].mw
	before := c22Rows(e.mdb)
	j, _ := strconv.Atoi(g[len(g)-1])
	e.repo.failAt, e.repo.saves = j, 0
	b, k := storage.MustNewBucketName(g[1]), storage.MustNewObjectKey(g[2])
	tb, tk := g[1], g[2]
	content := []byte(fmt.Sprintf("data-%s-%d", g[2], e.opIndex))
	var err error
	var event string
	var apply func()
	switch g[0] {
	case "P":
		var res *storage.PutObjectResult
		res, err = mw.PutObject(e.ctx, b, k, nil, bytes.NewReader(content), nil, nil)
		event = notification.EventObjectCreatedPut
		apply = func() { e.notePut(tb, tk, res.VersionID) }
	case "M":
		var up *storage.InitiateMultipartUploadResult
		var res *storage.CompleteMultipartUploadResult
		up, err = mw.CreateMultipartUpload(e.ctx, b, k, nil, nil, nil)
		if err == nil {
			_, err = mw.UploadPart(e.ctx, b, k, up.UploadId, 1, bytes.NewReader(content), nil)
		}
		if err == nil {
			e.repo.saves = 0
			res, err = mw.CompleteMultipartUpload(e.ctx, b, k, up.UploadId, nil, nil)
		}
		event = notification.EventObjectCreatedCompleteMultipartUpload
		apply = func() { e.notePut(tb, tk, res.VersionID) }
	case "D":
		var res *storage.DeleteObjectResult
		res, err = mw.DeleteObject(e.ctx, b, k, nil)
		event = notification.EventObjectRemovedDelete
		if err == nil && res != nil && res.IsDeleteMarker {
			event = notification.EventObjectRemovedDeleteMarkerCreated
		}
		apply = func() { e.noteDelete(tb, tk, res.VersionID) }
	case "T":
		err = mw.PutObjectTagging(e.ctx, b, k, map[string]string{"a": "b"}, nil)
		event = notification.EventObjectTaggingPut
	case "U":
		err = mw.DeleteObjectTagging(e.ctx, b, k, nil)
		event = notification.EventObjectTaggingDelete
	case "C":
		tb, tk = g[3], g[4]
		var res *storage.CopyObjectResult
		res, err = mw.CopyObject(e.ctx, b, k, storage.MustNewBucketName(g[3]), storage.MustNewObjectKey(g[4]), nil)
		event = notification.EventObjectCreatedCopy
		apply = func() { e.notePut(tb, tk, res.VersionID) }
	}
	e.repo.failAt = 0
	added := e.addedRows(before, c22Rows(e.mdb))
	var want []string
	if err == nil {
		e.nCommitted++
		want = e.wantRows(tb, event, tk)
		if apply != nil {
			apply()
		}
	} else {
		e.nRolled++
	}
	e.nEntries += len(added)
	if c22List(want) != c22List(added) {
		e.setFail(fmt.Sprintf("op %s (error=%v): outbox rows added %s, committed mutation x matching rules say %s", o, err != nil, c22List(added), c22List(want)))
	}
	present := "-"
	if _, herr := mw.HeadObject(e.ctx, storage.MustNewBucketName(tb), storage.MustNewObjectKey(tk), nil); herr == nil {
		present = "+"
	}
	res := "ok"
	if err != nil {
		res = "err"
	}
	return res + c22List(added) + present
}

// G:bucket:j:key~vref~cond|...   DeleteObjects
func (e *c22Env) batch(o string, g []string) string {
	e.nMut++
	mw := e.owners[0].mw
	bucket := g[1]
	j, _ := strconv.Atoi(g[2])
	var in []storage.DeleteObjectsInputEntry
	for _, et := range strings.Split(g[3], "|") {
		f := strings.Split(et, "~")
		ent := storage.DeleteObjectsInputEntry{Key: storage.MustNewObjectKey(f[0])}
		stack := e.vers[e.vkey(bucket, f[0])]
		switch {
		case f[1] == "x":
			v := c22BogusVersion
			ent.VersionID = &v
		case f[1][0] == 'v':
			i, _ := strconv.Atoi(f[1][1:])
			v := c22BogusVersion
			if i < len(stack) {
				v = stack[i].id
			}
			ent.VersionID = &v
		}
		switch f[2] {
		case "m":
			t := e.etagOf(bucket, f[0], ent.VersionID)
			ent.IfMatchETag = &t
		case "s":
			t := c22StaleETag
			ent.IfMatchETag = &t
		}
		in = append(in, ent)
	}
	before := c22Rows(e.mdb)
	e.repo.failAt, e.repo.saves = j, 0
	res, err := mw.DeleteObjects(e.ctx, storage.MustNewBucketName(bucket), in)
	e.repo.failAt = 0
	added := e.addedRows(before, c22Rows(e.mdb))
	e.nEntries += len(added)
	var want []string
	flags := ""
	if err == nil && res != nil {
		e.nCommitted++
		if len(res.Entries) != len(in) {
			e.setFail("DeleteObjects returned a different number of result entries than requested")
		}
		for i, r := range res.Entries {
			if !r.Deleted {
				flags += "r"
				e.nBatchRefused++
				continue
			}
			e.nBatchDeleted++
			event := notification.EventObjectRemovedDelete
			if r.DeleteMarker != nil && *r.DeleteMarker {
				event = notification.EventObjectRemovedDeleteMarkerCreated
				flags += "D"
			} else {
				flags += "d"
			}
			// oracle: exactly the entries reported deleted get rows, with the event of that entry
			want = append(want, e.wantRows(bucket, event, r.Key.String())...)
			if i < len(in) {
				if in[i].VersionID != nil {
					e.noteDeleteVersion(bucket, r.Key.String(), *in[i].VersionID)
				} else if r.DeleteMarker != nil {
					e.noteDelete(bucket, r.Key.String(), r.DeleteMarkerVersionID)
				}
			}
		}
	} else {
		e.nRolled++
	}
	if c22List(want) != c22List(added) {
		e.setFail(fmt.Sprintf("op %s (error=%v): outbox rows added %s, entries reported deleted x matching rules say %s", o, err != nil, c22List(added), c22List(want)))
	}
	// oracle: the version bookkeeping of the reference and the store agree on which keys still have an object
	for _, ent := range in {
		k := ent.Key.String()
		stack := e.vers[e.vkey(bucket, k)]
		wantPresent := len(stack) > 0 && !stack[0].marker
		_, herr := mw.HeadObject(e.ctx, storage.MustNewBucketName(bucket), ent.Key, nil)
		if wantPresent != (herr == nil) {
			e.setFail(fmt.Sprintf("op %s: key %s present=%v after the batch, the reported results imply %v", o, k, herr == nil, wantPresent))
		}
	}
	r := "ok"
	if err != nil {
		r = "err"
	}
	return r + "(" + flags + ")" + c22List(added)
}

func (e *c22Env) rowsByID() ([]c22Row, map[string]c22Row) {
	rows := c22Rows(e.mdb)
	m := map[string]c22Row{}
	for _, r := range rows {
		m[r.id] = r
	}
	return rows, m
}

// oracle for one dispatcher step: given the table before and after and the publishes made by the step
func (e *c22Env) judgeDispatch(before map[string]c22Row, after map[string]c22Row, calls []c22Call, ownerOf map[string]*c22Owner, wfail bool) {
	published := map[string]c22Call{}
	for _, c := range calls {
		published[c.id] = c
	}
	for id, b := range before {
		a, still := after[id]
		c, pub := published[id]
		ow := ownerOf[id]
		effective := pub && !wfail && ow != nil && b.claimOwner == notification.VerifClaimOwner(ow.mw)
		switch {
		case b.dead:
			if !still || !a.dead || a.attempts != b.attempts || a.claimOwner != "" {
				e.setFail("a dead-lettered entry was changed or removed")
			}
		case !still:
			if !(effective && c.ok) {
				e.setFail("an entry left the outbox without an acknowledged publish by its claim owner (lost)")
			}
			e.goneRows[id] = true
		case effective && c.ok:
			e.setFail("entry still in the outbox after an acknowledged publish whose delete was not prevented")
		case effective && !c.ok:
			if ow.max > 0 && c.attempt >= ow.max {
				if !a.dead {
					e.setFail(fmt.Sprintf("failed attempt %d handled with MaxAttempts %d but the entry was not dead-lettered", c.attempt, ow.max))
				}
			} else if a.dead {
				e.setFail(fmt.Sprintf("entry dead-lettered at attempt %d although MaxAttempts is %d", c.attempt, ow.max))
			} else if a.claimOwner != "" || a.attempts != b.attempts {
				e.setFail("failed attempt handled but the entry was not released")
			}
		case pub:
			// stale holder or failed write: the table must not change for this entry
			if a.dead != b.dead || a.attempts != b.attempts || a.claimOwner != b.claimOwner {
				e.setFail("a dispatcher without (effective) claim changed an entry")
			}
		}
		if still && a.dead && !b.dead {
			e.deadRows[id] = a.attempts
			e.nDead++
		}
	}
}

func (e *c22Env) step(o string, g []string) string {
	switch g[0] {
	case "K":
		if err := e.owners[0].mw.CreateBucket(e.ctx, storage.MustNewBucketName(g[1])); err != nil {
			return "err"
		}
		return "ok"
	case "V":
		st := storage.BucketVersioningStatusEnabled
		if err := e.owners[0].mw.PutBucketVersioningConfiguration(e.ctx, storage.MustNewBucketName(g[1]), &storage.BucketVersioningConfiguration{Status: &st}); err != nil {
			return "err"
		}
		e.versioned[g[1]] = true
		return "ok"
	case "N":
		rules := c22ParseRules(g[3])
		conf := &storage.BucketNotificationConfiguration{QueueConfigurations: rules, EventBridgeEnabled: g[2] == "1"}
		if err := e.owners[0].mw.PutBucketNotificationConfiguration(e.ctx, storage.MustNewBucketName(g[1]), conf); err != nil {
			return "err"
		}
		e.rules[g[1]], e.eb[g[1]] = rules, g[2] == "1"
		return "ok"
	case "P", "M", "D", "T", "U", "C":
		return e.mutation(o, g)
	case "G":
		return e.batch(o, g)
	case "A":
		e.exec("UPDATE notification_outbox_entries SET next_attempt_at = $1 WHERE dead_lettered_at IS NULL", time.Now().UTC().Add(-2*time.Hour))
		return "ok"
	case "L":
		e.exec("UPDATE notification_outbox_entries SET claim_until = $1 WHERE claim_owner IS NOT NULL", time.Now().UTC().Add(-2*time.Hour))
		return "ok"
	case "Z":
		slot, _ := strconv.Atoi(g[1])
		max, _ := strconv.Atoi(g[2])
		if slot < 0 || slot > 2 {
			return "bad"
		}
		e.newOwner(slot, max)
		return "ok"
	case "Y":
		slot, _ := strconv.Atoi(g[1])
		if slot < 0 || slot > 2 {
			return "bad"
		}
		ow := e.owners[slot]
		_, before := e.rowsByID()
		entry, claimed, err := notification.VerifClaim(e.ctx, ow.mw)
		if err != nil {
			panic("harness: claim: " + err.Error())
		}
		_, after := e.rowsByID()
		if entry == nil || !claimed {
			ow.held = nil
			for id, b := range before {
				if a, ok := after[id]; !ok || a != b {
					e.setFail("a claim that returned nothing changed the table")
				}
			}
			return "none"
		}
		ow.held = entry
		id := entry.ID.String()
		b, a := before[id], after[id]
		// oracle: only due, not dead-lettered, unclaimed-or-expired entries are claimed; the claim persists attempts+1
		switch {
		case b.dead || e.goneRows[id]:
			e.setFail("a dead-lettered / deleted entry was claimed again")
		case b.claimOwner != "" && !b.claimExpired:
			e.setFail("an entry under a live lease of another owner was claimed")
		case a.attempts != b.attempts+1 || entry.Attempts != a.attempts:
			e.setFail("the claim did not persist attempts+1")
		case a.claimOwner != notification.VerifClaimOwner(ow.mw):
			e.setFail("the claimed entry does not carry the claimer's owner")
		}
		if b.claimOwner != "" {
			e.nTakeover++
		}
		return "c" + c22DestLetter(entry.DestinationARN) + "|" + c22Short(entry.EventName) + "|" + c22KeyOf(entry.Payload) + "|" + strconv.Itoa(entry.Attempts)
	case "E", "X":
		var calls []c22Call
		_, before := e.rowsByID()
		e.pub.calls = nil
		ownerOf := map[string]*c22Owner{}
		wfail := false
		if g[0] == "X" {
			ow := e.owners[0]
			notification.VerifDispatchAvailable(e.ctx, ow.mw)
			calls = e.pub.calls
			for _, c := range calls {
				ownerOf[c.id] = ow
			}
			// within one pass every claim is followed by its dispatch: judge against "claimed by this owner"
			for id, b := range before {
				if _, pub := ownerOf[id]; pub {
					b.claimOwner = notification.VerifClaimOwner(ow.mw)
					b.attempts++ // persisted by the claim
					before[id] = b
				}
			}
		} else {
			slot, _ := strconv.Atoi(g[1])
			if slot < 0 || slot > 2 {
				return "bad"
			}
			ow := e.owners[slot]
			wfail = g[2] == "f"
			if ow.held != nil {
				e.repo.failWrite = wfail
				notification.VerifDispatchEntry(e.ctx, ow.mw, ow.held)
				e.repo.failWrite = false
				ownerOf[ow.held.ID.String()] = ow
				if b, ok := before[ow.held.ID.String()]; !ok || b.claimOwner != notification.VerifClaimOwner(ow.mw) {
					e.nStalePub++
				}
				if wfail {
					e.nWriteFault++
				}
				ow.held = nil
			}
			calls = e.pub.calls
		}
		rows, after := e.rowsByID()
		e.judgeDispatch(before, after, calls, ownerOf, wfail)
		var pubs, rs []string
		last := map[string]c22Call{} // publishes whose release this step wrote: the retry delay is measured from them
		for _, c := range calls {
			e.nPub++
			okf := "f"
			if c.ok {
				okf = "s"
			}
			pubs = append(pubs, fmt.Sprintf("%s|%s|%s|%d|%s", c.dest, c22Short(c.event), c.key, c.attempt, okf))
			if b, ok := before[c.id]; ok && !wfail && ownerOf[c.id] != nil && b.claimOwner == notification.VerifClaimOwner(ownerOf[c.id].mw) {
				last[c.id] = c
			}
		}
		for _, r := range rows {
			rs = append(rs, e.showRow(r, last))
		}
		return "pub" + c22List(pubs) + "rows" + c22List(rs)
	}
	panic("harness: bad op " + o)
}

func (e *c22Env) exec(q string, args ...any) {
	err := database.WithTx(e.ctx, e.mdb, &sql.TxOptions{ReadOnly: false}, func(ctx context.Context, tx database.Tx) error {
		_, err := tx.SqlTx().ExecContext(ctx, q, args...)
		return err
	})
	if err != nil {
		panic("harness: " + q + ": " + err.Error())
	}
}

func c22RunHistory(f []string, scratch string) Result {
	maxAtt, _ := strconv.Atoi(f[1])
	minMs, _ := strconv.Atoi(f[2])
	maxMs, _ := strconv.Atoi(f[3])
	pub := &c22Pub{masks: map[byte]uint64{}}
	for _, m := range strings.Split(f[4], ",") {
		v, _ := strconv.ParseUint(m[1:], 10, 64)
		pub.masks[m[0]] = v
	}
	c22Quiet.Do(func() { slog.SetDefault(slog.New(slog.NewTextHandler(io.Discard, nil))) })
	db := c22OpenDB(scratch)
	defer db.Close()
	e := &c22Env{ctx: context.Background(), db: db, inner: c22Storage(db), pub: pub,
		repo:     &c22Repo{Repository: notification.NewSQLRepository()},
		cfg:      notification.DispatcherConfig{MinBackoff: time.Duration(minMs) * time.Millisecond, MaxBackoff: time.Duration(maxMs) * time.Millisecond},
		ownerNum: map[string]int{}, rules: map[string][]storage.NotificationConfigurationRule{}, eb: map[string]bool{},
		versioned: map[string]bool{}, vers: map[string][]c22Ver{}, deadRows: map[string]int{}, goneRows: map[string]bool{}}
	for slot := 0; slot < 3; slot++ {
		e.newOwner(slot, maxAtt)
	}
	e.mdb = notification.VerifDB(e.owners[0].mw)
	e.effMin, e.effMax = e.cfg.MinBackoff, e.cfg.MaxBackoff
	if e.effMin <= 0 {
		e.effMin = time.Second
	}
	if e.effMax <= 0 {
		e.effMax = 300 * time.Second
	}
	if e.effMax < e.effMin {
		e.effMax = e.effMin
	}
	var outs []string
	for i, o := range strings.Split(f[5], ";") {
		e.opIndex = i
		outs = append(outs, e.step(o, strings.Split(o, ":")))
	}
	oracle := "OK"
	if e.fail != "" {
		oracle = "FAIL:" + e.fail
	}
	tags := []string{"history"}
	add := func(c bool, t string) {
		if c {
			tags = append(tags, t)
		}
	}
	add(e.nCommitted > 0 && e.nEntries > 0, "hist-entries")
	add(e.nRolled > 0, "hist-rollback")
	add(e.nPub > 0, "hist-dispatch")
	add(e.nDead > 0, "hist-deadletter")
	add(e.nBatchDeleted > 0, "hist-batch")
	add(e.nBatchRefused > 0 && e.nBatchDeleted > 0, "hist-batch-mixed")
	add(e.nTakeover > 0, "hist-takeover")
	add(e.nWriteFault > 0, "hist-writefault")
	add(e.nStalePub > 0, "hist-stale-publish")
	add(e.nMut == 0 && e.nPub == 0, "hist-nomutation")
	return Result{Out: strings.Join(outs, ";"), Oracle: oracle, Tags: tags}
}
