//go:build verif

package main

import (
	"bytes"
	"context"
	"database/sql"
	"errors"
	"fmt"
	"io"
	"log/slog"
	"strconv"
	"strings"
	"sync"
	"sync/atomic"
	"time"

	cachepkg "github.com/jdillenkofer/pithos/internal/cache"
	"github.com/jdillenkofer/pithos/internal/cache/evictionpolicy"
	"github.com/jdillenkofer/pithos/internal/cache/evictionpolicy/evictionchecker/fixedkeylimit"
	"github.com/jdillenkofer/pithos/internal/cache/evictionpolicy/evictionchecker/fixedsizelimit"
	"github.com/jdillenkofer/pithos/internal/cache/evictionpolicy/evictnothing"
	"github.com/jdillenkofer/pithos/internal/cache/evictionpolicy/lfu"
	"github.com/jdillenkofer/pithos/internal/cache/persistor"
	fspersistor "github.com/jdillenkofer/pithos/internal/cache/persistor/filesystem"
	"github.com/jdillenkofer/pithos/internal/cache/persistor/inmemory"
	"github.com/jdillenkofer/pithos/internal/storage/database"
	repositoryFactory "github.com/jdillenkofer/pithos/internal/storage/database/repository"
	"github.com/jdillenkofer/pithos/internal/storage/metadatapart/partstore"
	partcache "github.com/jdillenkofer/pithos/internal/storage/metadatapart/partstore/cache"
	fspartstore "github.com/jdillenkofer/pithos/internal/storage/metadatapart/partstore/filesystem"
	sqlpartstore "github.com/jdillenkofer/pithos/internal/storage/metadatapart/partstore/sql"
)

// C19 — generic cache + cache part store. Case line (see coq/Model/Cache.v):
//   <persistor m|f> <policy n|k<max>|s<max>> <maxpart> <op>;<op>;...
// A history is ONE interleaving of concurrent operations: streaming Sets are split into begin / feed / eof,
// readers into open / read / finish, and the harness forces exactly that interleaving on the real code
// (the Set runs in its own goroutine and is advanced chunk by chunk through an io.Pipe).
type c19 struct{}

func init() { register("C19", c19{}) }

func (c19) Parallel() bool { return true }

func c19Content(vid, n int) []byte {
	b := make([]byte, n)
	for i := range b {
		b[i] = byte((37*vid + 11*i + 1) % 251)
	}
	return b
}

// ---- test doubles on the Go interfaces (they only observe / synchronise, the code under test is real) ----

// persistor decorator: counts how often Store's reader has been asked for more bytes, so the main goroutine
// can wait until a fed chunk has been consumed AND written (the next Read is entered only afterwards).
type c19SyncReader struct {
	r        io.Reader
	entered  int64
	failAt   int64 // >= 0: Store's reader reports an injected error once >= failAt bytes were consumed (persistor fault)
	consumed int64
	failed   atomic.Bool
}

var c19ErrInjected = errors.New("injected fault")

func (s *c19SyncReader) Read(p []byte) (int, error) {
	if s.failAt >= 0 && s.consumed >= s.failAt {
		s.failed.Store(true)
		atomic.AddInt64(&s.entered, 1)
		return 0, c19ErrInjected
	}
	atomic.AddInt64(&s.entered, 1)
	n, err := s.r.Read(p)
	s.consumed += int64(n)
	return n, err
}

type c19SyncPersistor struct {
	inner   persistor.CachePersistor
	mu      sync.Mutex
	readers []*c19SyncReader
	armFail int64 // >= 0: the next Store fails after that many bytes
}

func (p *c19SyncPersistor) Store(key string, reader io.Reader) (int64, error) {
	sr := &c19SyncReader{r: reader, failAt: -1}
	p.mu.Lock()
	sr.failAt, p.armFail = p.armFail, -1
	p.readers = append(p.readers, sr)
	p.mu.Unlock()
	return p.inner.Store(key, sr)
}
func (p *c19SyncPersistor) Get(key string) (io.ReadCloser, error) { return p.inner.Get(key) }
func (p *c19SyncPersistor) Remove(key string) error                { return p.inner.Remove(key) }
func (p *c19SyncPersistor) RemoveAll() error                       { return p.inner.RemoveAll() }
func (p *c19SyncPersistor) arm(n int64) {
	p.mu.Lock()
	p.armFail = n
	p.mu.Unlock()
}
func (p *c19SyncPersistor) count() int {
	p.mu.Lock()
	defer p.mu.Unlock()
	return len(p.readers)
}
func (p *c19SyncPersistor) at(i int) *c19SyncReader {
	p.mu.Lock()
	defer p.mu.Unlock()
	return p.readers[i]
}

// Cache decorator: a panic inside the cache (possibly in a goroutine of the part store, where it would kill
// the process) is recorded and re-raised on the main goroutine; afterwards the cache is not touched again
// (GenericCache panics while holding its mutex).
type c19GuardCache struct {
	inner    cachepkg.Cache
	panicked atomic.Value // string
	dead     atomic.Bool
}

var c19ErrDead = errors.New("cache dead after panic")

func (g *c19GuardCache) guard(f func() error) (err error) {
	if g.dead.Load() {
		return c19ErrDead
	}
	defer func() {
		if e := recover(); e != nil {
			g.dead.Store(true)
			g.panicked.Store(fmt.Sprint(e))
			err = c19ErrDead
		}
	}()
	return f()
}
func (g *c19GuardCache) Set(key string, reader io.Reader, size int64) error {
	return g.guard(func() error { return g.inner.Set(key, reader, size) })
}
func (g *c19GuardCache) Get(key string) (rc io.ReadCloser, err error) {
	err = g.guard(func() error {
		var e error
		rc, e = g.inner.Get(key)
		return e
	})
	return rc, err
}
func (g *c19GuardCache) Remove(key string) error {
	return g.guard(func() error { return g.inner.Remove(key) })
}
func (g *c19GuardCache) check() {
	if v := g.panicked.Load(); v != nil {
		panic("cache panicked: " + v.(string))
	}
}

// inner part store double: an immutable-snapshot map
type c19Inner struct {
	mu       sync.Mutex
	data     map[string][]byte
	getCalls int
	// one-shot faults for the next call
	getErr     bool
	getFailAt  int // >= 0: the returned reader delivers that many bytes, then a non-EOF error
	putFail    bool
	deleteFail bool
}

// reader that delivers data and then, on the next call, a non-EOF error
type c19FailingReader struct {
	data []byte
	off  int
}

func (r *c19FailingReader) Read(p []byte) (int, error) {
	if r.off >= len(r.data) {
		return 0, c19ErrInjected
	}
	n := copy(p, r.data[r.off:])
	r.off += n
	return n, nil
}

func (s *c19Inner) Start(ctx context.Context) error { return nil }
func (s *c19Inner) Stop(ctx context.Context) error  { return nil }
func (s *c19Inner) PutPart(ctx context.Context, tx database.Tx, id partstore.PartId, r io.Reader) error {
	b, err := io.ReadAll(r)
	if err != nil {
		return err
	}
	if s.putFail {
		s.putFail = false
		return c19ErrInjected
	}
	s.mu.Lock()
	s.data[id.String()] = b
	s.mu.Unlock()
	return nil
}
func (s *c19Inner) GetPart(ctx context.Context, tx database.Tx, id partstore.PartId) (io.ReadCloser, error) {
	s.mu.Lock()
	defer s.mu.Unlock()
	s.getCalls++
	if s.getErr {
		s.getErr = false
		return nil, c19ErrInjected
	}
	b, ok := s.data[id.String()]
	if !ok {
		return nil, partstore.ErrPartNotFound
	}
	if k := s.getFailAt; k >= 0 {
		s.getFailAt = -1
		if k < len(b) {
			return io.NopCloser(&c19FailingReader{data: b[:k]}), nil
		}
	}
	return io.NopCloser(bytes.NewReader(b)), nil
}
func (s *c19Inner) GetPartIds(ctx context.Context, tx database.Tx) ([]partstore.PartId, error) {
	return nil, nil
}
func (s *c19Inner) DeletePart(ctx context.Context, tx database.Tx, id partstore.PartId) error {
	s.mu.Lock()
	defer s.mu.Unlock()
	if s.deleteFail {
		s.deleteFail = false
		return c19ErrInjected
	}
	if _, ok := s.data[id.String()]; !ok {
		return partstore.ErrPartNotFound
	}
	delete(s.data, id.String())
	return nil
}

// ---- the running case ----
type c19Handle struct {
	rc     io.ReadCloser
	key    string
	sr     *c19SyncReader // streaming fill: the Store reader of its Set
	fed    int64
	got    []byte   // everything read so far
	allow  [][]byte // oracle: values this reader may legitimately deliver (nil entry list = must not exist)
	exists bool     // oracle: a value existed at open time
	rtx    *database.TxController // SQL inner store: the reader's own read-only transaction
}
type c19Pending struct {
	key   string
	pw    *io.PipeWriter
	sr    *c19SyncReader
	fed   int64
	src   []byte
	done  chan error
	given []byte
}

type c19Env struct {
	sp      *c19SyncPersistor
	guard   *c19GuardCache
	ps      partstore.PartStore
	inner   *c19Inner
	handles map[int]*c19Handle
	sets    map[int]*c19Pending
	// oracle state, written only from the op list (never from the code under test)
	cur    map[string][]byte // completed value per key / part id; absent = none
	fail   string
	broken bool
	// real inner stores
	ikind      byte // 0 = double, 'F' filesystem part store, 'S' SQL part store
	db         database.Database
	innerCalls func() int
	wtx        *database.TxController // the open write transaction
	wctx       context.Context
	pending    []c19TxOp // oracle: what the open transaction has done
}

type c19TxOp struct {
	id  string
	v   []byte
	del bool
}

// real inner store wrapped only to count GetPart calls (cache hit vs pass-through)
type c19CountInner struct {
	partstore.PartStore
	gets int
}

func (c *c19CountInner) GetPart(ctx context.Context, tx database.Tx, id partstore.PartId) (io.ReadCloser, error) {
	c.gets++
	return c.PartStore.GetPart(ctx, tx, id)
}
func (c *c19CountInner) Capabilities() partstore.Capabilities { return partstore.CapabilitiesOf(c.PartStore) }

func (e *c19Env) closeHandle(h *c19Handle) {
	h.rc.Close()
	if h.rtx != nil {
		h.rtx.Rollback(context.Background())
		h.rtx = nil
	}
}

func c19Spin() {
	t0 := time.Now()
	for !time.Now().After(t0) {
	}
}

func (e *c19Env) waitEntered(sr *c19SyncReader, n int64, done chan error) bool {
	deadline := time.Now().Add(20 * time.Second)
	for atomic.LoadInt64(&sr.entered) < n {
		if e.guard.dead.Load() {
			return false
		}
		if time.Now().After(deadline) {
			panic("harness: timeout waiting for the Store reader")
		}
		time.Sleep(5 * time.Microsecond)
	}
	return true
}

// waits for the Store call number idx to exist and to have entered its first Read (or for done)
func (e *c19Env) waitStore(idx int, done chan error) (*c19SyncReader, error, bool) {
	deadline := time.Now().Add(20 * time.Second)
	for {
		if e.sp.count() > idx {
			sr := e.sp.at(idx)
			if atomic.LoadInt64(&sr.entered) >= 1 {
				return sr, nil, true
			}
		}
		if done != nil {
			select {
			case err := <-done:
				return nil, err, false
			default:
			}
		}
		if time.Now().After(deadline) {
			panic("harness: timeout waiting for Store to start")
		}
		time.Sleep(5 * time.Microsecond)
	}
}

// runs a read on a handle in its own goroutine: a read that never returns is an observable outcome (HANG).
// It is declared hung when the fill's Store has already failed (so nobody will ever drain the pipe) and the read
// has not returned for 300ms; any other read gets 20s before the harness gives up.
func (e *c19Env) readMaybeHang(h *c19Handle, f func() ([]byte, error)) (data []byte, err error, hung bool) {
	type res struct {
		b   []byte
		err error
	}
	ch := make(chan res, 1)
	go func() {
		b, err := f()
		ch <- res{b, err}
	}()
	start := time.Now()
	for {
		select {
		case r := <-ch:
			return r.b, r.err, false
		case <-time.After(20 * time.Millisecond):
		}
		if h.sr != nil && h.sr.failed.Load() && time.Since(start) > 300*time.Millisecond {
			return nil, nil, true
		}
		if time.Since(start) > 20*time.Second {
			panic("harness: a read did not return within 20s")
		}
	}
}

func c19ValTok(b []byte, err error) string {
	s := "V" + tokBytes(string(b))
	if errors.Is(err, c19ErrInjected) {
		s += "!"
	}
	return s
}

func (e *c19Env) setFail(msg string) {
	if e.fail == "" {
		e.fail = msg
	}
}

// oracle for delivered bytes: got must be a prefix of an allowed value; when complete it must equal one
func (e *c19Env) judge(h *c19Handle, complete bool) {
	if !h.exists {
		e.setFail("a reader was returned for key " + h.key + " although no completed value existed (stale after remove/delete or never stored)")
		return
	}
	ok := false
	for _, v := range h.allow {
		if complete && bytes.Equal(h.got, v) || !complete && bytes.HasPrefix(v, h.got) {
			ok = true
		}
	}
	if !ok {
		if complete {
			e.setFail(fmt.Sprintf("key %s: delivered %x which is not a completed value of that key (partial / mixed / stale)", h.key, h.got))
		} else {
			e.setFail(fmt.Sprintf("key %s: delivered %x which is not a prefix of a completed value of that key", h.key, h.got))
		}
	}
}

func c19PartId(tok string) partstore.PartId {
	b := make([]byte, 16)
	copy(b, tok)
	id, err := partstore.NewPartIdFromBytes(b)
	if err != nil {
		panic(err)
	}
	return *id
}

func c19Atoi(s string) int {
	if s == "m" {
		return -1
	}
	v, err := strconv.Atoi(s)
	if err != nil {
		panic("bad number " + s)
	}
	return v
}

type c19ErrReader struct{}

func (c19ErrReader) Read(p []byte) (int, error) { return 0, errors.New("injected reader failure") }

func (e *c19Env) newValue(key string, v []byte) {
	e.cur[key] = v
	// every open reader on that key may legitimately switch to... nothing: a reader keeps the value it was opened on.
	// (a reader that delivers the complete NEW value is also accepted: it is a completed value of that key)
	for _, h := range e.handles {
		if h.key == key {
			h.allow = append(h.allow, v)
		}
	}
}

func (e *c19Env) openHandle(hid int, key string, rc io.ReadCloser) *c19Handle {
	h := &c19Handle{rc: rc, key: key}
	if v, ok := e.cur[key]; ok {
		h.exists = true
		h.allow = [][]byte{v}
	}
	e.handles[hid] = h
	return h
}

func (e *c19Env) op(f []string) string {
	ctx := context.Background()
	switch f[0] {
	case "S", "E":
		key := f[1]
		v := c19Content(c19Atoi(f[2]), c19Atoi(f[3]))
		var r io.Reader = bytes.NewReader(v)
		hint := f[4]
		if f[0] == "E" {
			n := c19Atoi(f[4])
			if n > len(v) {
				n = len(v)
			}
			r = io.MultiReader(bytes.NewReader(v[:n]), c19ErrReader{})
			hint = f[5]
		}
		err := e.guard.Set(key, r, int64(c19Atoi(hint)))
		e.guard.check()
		if f[0] == "S" {
			if err != nil {
				return "err"
			}
			e.newValue(key, v)
		} else {
			delete(e.cur, key)
		}
		return "ok"
	case "G":
		key := f[1]
		rc, err := e.guard.Get(key)
		e.guard.check()
		if err == cachepkg.ErrCacheMiss {
			return "miss"
		}
		if err != nil {
			return "err"
		}
		h := &c19Handle{rc: rc, key: key}
		if v, ok := e.cur[key]; ok {
			h.exists, h.allow = true, [][]byte{v}
		}
		h.got, _ = io.ReadAll(rc)
		rc.Close()
		e.judge(h, true)
		return "V" + tokBytes(string(h.got))
	case "X":
		err := e.guard.Remove(f[1])
		e.guard.check()
		delete(e.cur, f[1])
		if err != nil {
			return "err"
		}
		return "ok"
	case "O":
		hid := c19Atoi(f[1])
		if _, used := e.handles[hid]; used {
			return "bad"
		}
		rc, err := e.guard.Get(f[2])
		e.guard.check()
		if err == cachepkg.ErrCacheMiss {
			return "miss"
		}
		if err != nil {
			return "err"
		}
		e.openHandle(hid, f[2], rc)
		return "oh"
	case "B":
		sid := c19Atoi(f[1])
		if _, used := e.sets[sid]; used {
			return "bad"
		}
		key := f[2]
		v := c19Content(c19Atoi(f[3]), c19Atoi(f[4]))
		hint := int64(c19Atoi(f[5]))
		pr, pw := io.Pipe()
		pd := &c19Pending{key: key, pw: pw, src: v, done: make(chan error, 1)}
		idx := e.sp.count()
		go func() { pd.done <- e.guard.Set(key, pr, hint) }()
		sr, _, started := e.waitStore(idx, pd.done)
		e.guard.check()
		if !started {
			return "err"
		}
		pd.sr = sr
		e.sets[sid] = pd
		return "ok"
	case "W":
		pd, ok := e.sets[c19Atoi(f[1])]
		if !ok {
			return "bad"
		}
		n := c19Atoi(f[2])
		if n > len(pd.src) {
			n = len(pd.src)
		}
		if n > 0 {
			chunk := pd.src[:n]
			pd.src = pd.src[n:]
			pd.pw.Write(chunk)
			pd.given = append(pd.given, chunk...)
			pd.fed++
			e.waitEntered(pd.sr, pd.fed+1, pd.done)
		}
		return "ok"
	case "Z", "Y":
		sid := c19Atoi(f[1])
		pd, ok := e.sets[sid]
		if !ok {
			return "bad"
		}
		if f[0] == "Z" {
			pd.pw.Close()
		} else {
			pd.pw.CloseWithError(errors.New("injected stream failure"))
		}
		err := <-pd.done
		delete(e.sets, sid)
		e.guard.check()
		if f[0] == "Z" {
			if err != nil {
				return "err"
			}
			if pd.given == nil {
				pd.given = []byte{}
			}
			e.newValue(pd.key, pd.given)
		} else {
			delete(e.cur, pd.key)
		}
		return "ok"
	case "R":
		h, ok := e.handles[c19Atoi(f[1])]
		if !ok {
			return "bad"
		}
		n := c19Atoi(f[2])
		b, rerr, hung := e.readMaybeHang(h, func() ([]byte, error) {
			buf := make([]byte, n)
			m, err := io.ReadFull(h.rc, buf)
			return buf[:m], err
		})
		if hung {
			delete(e.handles, c19Atoi(f[1]))
			e.setFail("a read on the part reader never returned (the cache fill had failed in the persistor)")
			return "HANG"
		}
		h.got = append(h.got, b...)
		e.syncStream(h, len(b))
		e.judge(h, false)
		return c19ValTok(b, rerr)
	case "F":
		hid := c19Atoi(f[1])
		h, ok := e.handles[hid]
		if !ok {
			return "bad"
		}
		b, rerr, hung := e.readMaybeHang(h, func() ([]byte, error) { return io.ReadAll(h.rc) })
		if hung {
			delete(e.handles, hid)
			e.setFail("a read on the part reader never returned (the cache fill had failed in the persistor)")
			return "HANG"
		}
		h.got = append(h.got, b...)
		if isStream, active := partcache.VerifStreamState(h.rc); isStream && !active {
			partcache.VerifWaitFill(h.rc)
		}
		e.guard.check()
		e.closeHandle(h)
		delete(e.handles, hid)
		e.guard.check()
		// a read that reported the injected error may be short; one that reported none must be complete
		e.judge(h, !errors.Is(rerr, c19ErrInjected))
		return c19ValTok(b, rerr)
	case "C":
		hid := c19Atoi(f[1])
		h, ok := e.handles[hid]
		if !ok {
			return "bad"
		}
		e.closeHandle(h)
		delete(e.handles, hid)
		e.guard.check()
		return "ok"
	case "P", "Pf", "Ps":
		id := f[1]
		v := c19Content(c19Atoi(f[2]), c19Atoi(f[3]))
		if f[0] == "Pf" {
			e.inner.putFail = true
		}
		if f[0] == "Ps" {
			e.sp.arm(int64(c19Atoi(f[4])))
		}
		err := e.ps.PutPart(ctx, nil, c19PartId(id), bytes.NewReader(v))
		e.inner.putFail = false
		e.sp.arm(-1)
		e.guard.check()
		if err != nil {
			return "err" // the put did not happen: the oracle's value stays
		}
		e.newValue(id, v)
		return "ok"
	case "I":
		id := f[1]
		v := c19Content(c19Atoi(f[2]), c19Atoi(f[3]))
		pid := c19PartId(id)
		if _, exists := e.inner.data[pid.String()]; exists {
			return "bad" // "I" only introduces parts the inner store held before the cache existed
		}
		e.inner.PutPart(ctx, nil, c19PartId(id), bytes.NewReader(v))
		e.newValue(id, v)
		return "ok"
	case "D", "Df":
		id := f[1]
		e.inner.deleteFail = f[0] == "Df"
		err := e.ps.DeletePart(ctx, nil, c19PartId(id))
		e.inner.deleteFail = false
		e.guard.check()
		if err == partstore.ErrPartNotFound {
			if _, ok := e.cur[id]; ok {
				e.setFail("DeletePart of an existing part answered not-found")
			}
			return "nf"
		}
		if err != nil {
			return "err"
		}
		delete(e.cur, id)
		return "ok"
	case "TB":
		if e.wtx != nil {
			return "bad"
		}
		tx, err := e.db.BeginTx(ctx, &sql.TxOptions{})
		if err != nil {
			panic("harness: begin: " + err.Error())
		}
		e.wtx, e.wctx, e.pending = tx, database.ContextWithTx(ctx, tx), nil
		return "ok"
	case "TP", "TD":
		if e.wtx == nil {
			return "bad"
		}
		id := f[1]
		var err error
		if f[0] == "TP" {
			v := c19Content(c19Atoi(f[2]), c19Atoi(f[3]))
			err = e.ps.PutPart(e.wctx, e.wtx, c19PartId(id), bytes.NewReader(v))
			e.pending = append(e.pending, c19TxOp{id: id, v: v})
		} else {
			err = e.ps.DeletePart(e.wctx, e.wtx, c19PartId(id))
			e.pending = append(e.pending, c19TxOp{id: id, del: true})
		}
		e.guard.check()
		if err != nil {
			return "err"
		}
		return "ok"
	case "TC", "TR":
		if e.wtx == nil {
			return "bad"
		}
		var err error
		if f[0] == "TC" {
			err = e.wtx.Commit(e.wctx)
			if err == nil {
				// oracle: only now do the transaction's writes count
				for _, p := range e.pending {
					if p.del {
						delete(e.cur, p.id)
					} else {
						e.newValue(p.id, p.v)
					}
				}
			}
		} else {
			err = e.wtx.Rollback(e.wctx)
		}
		e.wtx, e.wctx, e.pending = nil, nil, nil
		e.guard.check()
		if err != nil {
			return "err"
		}
		return "ok"
	case "Q", "T", "Tr", "Ts", "Te", "Tc", "Tt", "Ttc":
		hid, id, fault := 99, f[1], "n"
		intx := f[0] == "Tt" || f[0] == "Ttc"
		if intx && e.wtx == nil {
			return "bad"
		}
		switch f[0] {
		case "Q":
			hid, id = c19Atoi(f[1]), f[2]
			if _, used := e.handles[hid]; used {
				return "bad"
			}
			if len(f) > 3 {
				fault = f[3]
			}
		case "Tr":
			fault = "r" + f[2]
		case "Ts":
			fault = "s" + f[2]
		case "Te":
			fault = "e"
		}
		switch fault[0] {
		case 'r':
			e.inner.getFailAt = c19Atoi(fault[1:])
		case 'e':
			e.inner.getErr = true
		case 's':
			e.sp.arm(int64(c19Atoi(fault[1:])))
		}
		calls := e.innerCalls()
		idx := e.sp.count()
		var rc io.ReadCloser
		var err error
		var rtx *database.TxController
		switch {
		case intx:
			rc, err = e.ps.GetPart(e.wctx, e.wtx, c19PartId(id))
		case e.ikind == 'S': // the SQL part store reads through a transaction: the reader's own read-only one
			rtx, err = e.db.BeginTx(ctx, &sql.TxOptions{ReadOnly: true})
			if err != nil {
				panic("harness: begin read tx: " + err.Error())
			}
			rc, err = e.ps.GetPart(database.ContextWithTx(ctx, rtx), rtx, c19PartId(id))
			if err != nil {
				rtx.Rollback(ctx)
				rtx = nil
			}
		default:
			rc, err = e.ps.GetPart(ctx, nil, c19PartId(id))
		}
		e.inner.getFailAt, e.inner.getErr = -1, false
		e.guard.check()
		if errors.Is(err, c19ErrInjected) {
			e.sp.arm(-1)
			return "err"
		}
		if err != nil {
			e.sp.arm(-1) // no fill was started
		}
		// oracle: a reader inside the write transaction may also see that transaction's own latest write to the id
		var own *c19TxOp
		if intx {
			for i := range e.pending {
				if e.pending[i].id == id {
					own = &e.pending[i]
				}
			}
		}
		if err == partstore.ErrPartNotFound {
			if _, ok := e.cur[id]; ok && !(own != nil && own.del) {
				e.setFail("GetPart of an existing part answered not-found")
			}
			return "nf"
		}
		if err != nil {
			return "err"
		}
		h := e.openHandle(hid, id, rc)
		h.rtx = rtx
		if own != nil && !own.del {
			h.exists = true
			h.allow = append(h.allow, own.v)
		}
		kind := "oh"
		if isStream, _ := partcache.VerifStreamState(rc); isStream {
			kind = "os"
			h.sr, _, _ = e.waitStore(idx, nil)
			if h.sr.failed.Load() { // the persistor failed on its first Read: the fill goroutine ends by itself
				partcache.VerifWaitFillDone(rc)
			}
		} else if e.innerCalls() > calls {
			kind = "oi"
		}
		e.sp.arm(-1)
		switch f[0] {
		case "Q":
			return kind
		case "Tc", "Ttc":
			out := e.op([]string{"R", "99", f[2]})
			if out != "HANG" {
				e.op([]string{"C", "99"})
			}
			return out
		}
		return e.op([]string{"F", "99"})
	}
	panic("harness: unknown op " + strings.Join(f, ","))
}

// after a Read on a streaming-fill reader: wait until the cache side has consumed (and written) the chunk, or,
// when the pipe was closed by this Read, until the fill goroutine has finished
func (e *c19Env) syncStream(h *c19Handle, m int) {
	isStream, active := partcache.VerifStreamState(h.rc)
	if !isStream {
		return
	}
	if active {
		if m > 0 && h.sr != nil {
			h.fed++
			e.waitEntered(h.sr, h.fed+1, nil)
			if h.sr.failed.Load() { // the persistor failed after this chunk: wait for the fill goroutine to end
				partcache.VerifWaitFillDone(h.rc)
			}
		}
	} else {
		partcache.VerifWaitFill(h.rc)
	}
	e.guard.check()
}

func c19BuildPolicy(t string) evictionpolicy.CacheEvictionPolicy {
	var pol evictionpolicy.CacheEvictionPolicy
	var err error
	switch t[0] {
	case 'n':
		pol, err = evictnothing.New()
	case 'k':
		ck, _ := fixedkeylimit.New(c19Atoi(t[1:]))
		pol, err = lfu.New(ck)
	case 's':
		ck, _ := fixedsizelimit.New(int64(c19Atoi(t[1:])))
		pol, err = lfu.New(ck)
	default:
		panic("bad policy " + t)
	}
	if err != nil {
		panic(err)
	}
	return pol
}

var c19Quiet sync.Once

func (c19) Run(in string, scratch string) (res Result) {
	c19Quiet.Do(func() { slog.SetDefault(slog.New(slog.NewTextHandler(io.Discard, nil))) })
	f := strings.Split(in, " ")
	tags := c19Tags(strings.Split(in, " "))
	var ikind byte
	if len(f[0]) == 2 {
		ikind = f[0][1]
		f[0] = f[0][:1]
	}
	// operations that exist only with the double / only with a real inner store (the model answers PARSE-ERROR)
	for _, o := range strings.Split(f[3], ";") {
		g := strings.Split(o, ",")
		doubleOnly := false
		switch g[0] {
		case "P", "I", "D", "Pf", "Df", "Ps", "Tr", "Ts", "Te":
			doubleOnly = true
		case "Q":
			doubleOnly = len(g) > 3 && g[3] != "n"
		}
		realOnly := false
		switch g[0] {
		case "TB", "TP", "TD", "TC", "TR", "Tt", "Ttc":
			realOnly = true
		}
		if ikind == 0 && realOnly || ikind != 0 && doubleOnly {
			return Result{Out: "PARSE-ERROR", Oracle: "-", Tags: []string{"invalid"}}
		}
	}
	var p persistor.CachePersistor
	var err error
	if f[0] == "f" {
		p, err = fspersistor.New(scratch + "/cache")
	} else {
		p, err = inmemory.New()
	}
	if err != nil {
		panic(err)
	}
	sp := &c19SyncPersistor{inner: p, armFail: -1}
	gc, err := cachepkg.NewGenericCache(sp, c19BuildPolicy(f[1]))
	if err != nil {
		panic(err)
	}
	guard := &c19GuardCache{inner: gc}
	inner := &c19Inner{data: map[string][]byte{}, getFailAt: -1}
	var innerStore partstore.PartStore = inner
	innerCalls := func() int { return inner.getCalls }
	var db database.Database
	if ikind != 0 {
		db = c22OpenDB(scratch) // a migrated SQLite database (template copied per case)
		defer db.Close()
		var real partstore.PartStore
		if ikind == 'F' {
			real, err = fspartstore.New(scratch + "/parts")
			if err == nil {
				err = real.Start(context.Background())
			}
		} else {
			repo, rerr := repositoryFactory.NewPartContentRepository(db)
			if rerr != nil {
				panic("harness: " + rerr.Error())
			}
			real, err = sqlpartstore.New(db, repo)
		}
		if err != nil {
			panic("harness: " + err.Error())
		}
		counting := &c19CountInner{PartStore: real}
		innerStore, innerCalls = counting, func() int { return counting.gets }
	}
	ps, err := partcache.New(guard, innerStore, partcache.Options{MaxPartSizeBytes: int64(c19Atoi(f[2]))})
	if err != nil {
		panic(err)
	}
	e := &c19Env{sp: sp, guard: guard, ps: ps, inner: inner, handles: map[int]*c19Handle{}, sets: map[int]*c19Pending{}, cur: map[string][]byte{},
		ikind: ikind, db: db, innerCalls: innerCalls}
	defer func() {
		// release goroutines and file handles; after a cache panic the mutex is held for ever, leave those
		if !guard.dead.Load() {
			for _, pd := range e.sets {
				pd.pw.CloseWithError(io.ErrClosedPipe)
				<-pd.done
			}
			for _, h := range e.handles {
				e.closeHandle(h)
			}
			if e.wtx != nil {
				e.wtx.Rollback(context.Background())
			}
		}
		if r := recover(); r != nil {
			if strings.HasPrefix(fmt.Sprint(r), "harness:") {
				panic(r)
			}
			res = Result{Out: "PANIC", Oracle: "FAIL:panic in the cache: " + fmt.Sprint(r), Tags: append(tags, "panic")}
		}
	}()
	var outs []string
	for _, o := range strings.Split(f[3], ";") {
		outs = append(outs, e.op(strings.Split(o, ",")))
		c19Spin()
	}
	oracle := "OK"
	if e.fail != "" {
		oracle = "FAIL:" + e.fail
	}
	return Result{Out: strings.Join(outs, ";"), Oracle: oracle, Tags: tags}
}
