//go:build verif

package main

// C40 — Downloads never silently mix or truncate content.
// A case = one multi-part object (multipart upload, >= 3 parts), one GetObject (whole object or a byte range) whose
// reader is consumed slowly: the step list interleaves Read(n) calls with an overwrite (PutObject on the key), a delete
// (DeleteObject) or the removal of one part file (GC / external delete) at the pause points. fs part store = tx-free
// streaming, SQL part store = WithTxReadClosers snapshot. Output = what every Read returned (bytes | EOF | ERR) + total.
// Oracle: delivered bytes are a prefix of the resolved version's range; clean EOF only after all of it; SQL: never an error.

import (
	"bytes"
	"context"
	"fmt"
	"io"
	"os"
	"path/filepath"
	"strconv"
	"strings"
	"time"

	"github.com/jdillenkofer/pithos/internal/storage"
)

type c40Prop struct{}

func init() { register("C40", &c40Prop{}) }

func (p *c40Prop) Parallel() bool { return true }

func (p *c40Prop) Gen(r *Rng, tier string, n int) []string {
	out := make([]string, n)
	for i := range out {
		g := r.Fork()
		if g.Chance(35) {
			out[i] = c40GenMulti(g, i)
			continue
		}
		mode := "fs"
		if g.Chance(40) {
			mode = "sql"
		}
		ver := "0"
		if g.Chance(20) {
			ver = "1"
		}
		np := 3 + g.Intn(3)
		var parts []string
		total := 0
		for j := 0; j < np; j++ {
			sz := 1 + g.Intn(12)
			if g.Chance(10) {
				sz = 40 + g.Intn(80)
			}
			c := g.Bytes(sz)
			c[0] = byte(j + 1) // distinct parts: no dedup between them
			if sz > 1 {
				c[1] = byte(i)
			}
			parts = append(parts, string(c))
			total += sz
		}
		gs, ge := 0, total
		if g.Chance(50) {
			gs = g.Intn(total)
			ge = gs + 1 + g.Intn(total-gs)
		}
		var steps []string
		envDone := 0
		for j, m := 0, 3+g.Intn(10); j < m; j++ {
			x := g.Intn(100)
			switch {
			case x < 62 || envDone >= 3:
				steps = append(steps, "r"+strconv.Itoa([]int{1, 2, 3, 5, 8, 64}[g.Intn(6)]))
			case x < 78:
				steps = append(steps, "o")
				envDone++
			case x < 90:
				steps = append(steps, "d")
				envDone++
			default:
				if mode == "fs" {
					steps = append(steps, "x"+strconv.Itoa(g.Intn(np)))
					envDone++
				} else {
					steps = append(steps, "r4")
				}
			}
		}
		for j := 0; j < np+2; j++ {
			steps = append(steps, "r64")
		}
		parts2 := make([]string, len(parts))
		for j, c := range parts {
			parts2[j] = tokBytes(c)
		}
		out[i] = strings.Join([]string{mode, ver, strings.Join(parts2, ","), strconv.Itoa(gs), strconv.Itoa(ge), strings.Join(steps, ",")}, " ")
	}
	return out
}

func (p *c40Prop) Run(in string, scratch string) Result {
	f := strings.Split(in, " ")
	if len(f) != 6 {
		return Result{Out: "PARSE-ERROR", Oracle: "-", Tags: []string{"invalid"}}
	}
	if f[3] == "M" {
		return c40RunMulti(in, f, scratch)
	}
	mode, versioned := f[0], f[1] == "1"
	var parts [][]byte
	for _, t := range strings.Split(f[2], ",") {
		parts = append(parts, []byte(untokBytes(t)))
	}
	gs, _ := strconv.Atoi(f[3])
	ge, _ := strconv.Atoi(f[4])
	steps := strings.Split(f[5], ",")
	fail := func(msg string) Result { return Result{Out: "SETUP-ERROR " + msg, Oracle: "FAIL:setup " + msg} }
	t0 := time.Now()
	dbg := os.Getenv("VERIF_DEBUG") != ""
	lap := func(what string) {
		if dbg {
			fmt.Fprintf(os.Stderr, "%s +%dms\n", what, time.Since(t0).Milliseconds())
		}
	}
	env, err := metaOpen(scratch, mode)
	if err != nil {
		return fail(err.Error())
	}
	defer func() { lap("before close"); env.close(); lap("closed") }()
	lap("opened")
	st := env.st
	ctx := context.Background()
	b, k := storage.MustNewBucketName("bkt1"), storage.MustNewObjectKey("k1")
	if err := st.CreateBucket(ctx, b); err != nil {
		return fail(err.Error())
	}
	if versioned {
		var cfg storage.BucketVersioningConfiguration
		v := storage.BucketVersioningStatusEnabled
		cfg.Status = &v
		if err := st.PutBucketVersioningConfiguration(ctx, b, &cfg); err != nil {
			return fail(err.Error())
		}
	}
	up, err := st.CreateMultipartUpload(ctx, b, k, nil, nil, nil)
	if err != nil {
		return fail(err.Error())
	}
	var whole []byte
	for i, c := range parts {
		if _, err := st.UploadPart(ctx, b, k, up.UploadId, int32(i+1), bytes.NewReader(c), nil); err != nil {
			return fail(err.Error())
		}
		whole = append(whole, c...)
	}
	if _, err := st.CompleteMultipartUpload(ctx, b, k, up.UploadId, nil, nil); err != nil {
		return fail(err.Error())
	}
	lap("uploaded")
	// part files of the filesystem store, by content
	partFile := map[int]string{}
	if mode == "fs" {
		ents, _ := os.ReadDir(filepath.Join(scratch, "parts"))
		for _, e := range ents {
			if data, err := os.ReadFile(filepath.Join(scratch, "parts", e.Name())); err == nil {
				for i, c := range parts {
					if bytes.Equal(data, c) {
						partFile[i] = filepath.Join(scratch, "parts", e.Name())
					}
				}
			}
		}
	}
	var ranges []storage.ByteRange
	ranged := !(gs == 0 && ge == len(whole))
	if ranged {
		s64, e64 := int64(gs), int64(ge)
		ranges = []storage.ByteRange{{Start: &s64, End: &e64}}
	}
	_, readers, err := st.GetObject(ctx, b, k, ranges, nil)
	if err != nil || len(readers) != 1 {
		return fail(fmt.Sprint("GetObject: ", err, len(readers)))
	}
	rd := readers[0]
	defer rd.Close()
	expected := whole[gs:ge]
	var outs []string
	var total []byte
	failed, eofSeen, envBeforeEnd := false, false, false
	tags := map[string]bool{"mode-" + mode: true}
	if versioned {
		tags["versioned"] = true
	}
	if ranged {
		tags["ranged"] = true
	}
	oracle := "OK"
	fresh := 0
	for _, s := range steps {
		switch s[0] {
		case 'r':
			n, _ := strconv.Atoi(s[1:])
			if failed {
				outs = append(outs, "ERR") // a consumer stops at the first error; the model's Failed state is absorbing
				continue
			}
			buf := make([]byte, n)
			kk, rerr := rd.Read(buf)
			switch {
			case kk > 0:
				outs = append(outs, tokBytes(string(buf[:kk])))
				total = append(total, buf[:kk]...)
				if rerr != nil && rerr != io.EOF {
					failed = true
				}
			case rerr == io.EOF:
				outs = append(outs, "EOF")
				if !eofSeen && !bytes.Equal(total, expected) {
					oracle = fmt.Sprintf("FAIL:clean EOF after %d of %d bytes (short body reported as complete)", len(total), len(expected))
				}
				eofSeen = true
			case rerr != nil:
				outs = append(outs, "ERR")
				failed = true
				tags["read-error"] = true
				if mode == "sql" {
					oracle = "FAIL:download from the SQL part store failed: " + rerr.Error()
				}
			default:
				outs = append(outs, "ZERO")
				oracle = "FAIL:Read returned 0, nil"
			}
		case 'o':
			fresh++
			c := bytes.Repeat([]byte{0xEE, byte(fresh)}, 3+len(whole)/2)
			if _, err := st.PutObject(ctx, b, k, nil, bytes.NewReader(c), nil, nil); err != nil {
				oracle = "FAIL:concurrent overwrite failed: " + err.Error()
			}
			tags["overwrite"] = true
			if !eofSeen && !failed {
				envBeforeEnd = true
			}
		case 'd':
			if _, err := st.DeleteObject(ctx, b, k, nil); err != nil {
				oracle = "FAIL:concurrent delete failed: " + err.Error()
			}
			tags["delete"] = true
			if !eofSeen && !failed {
				envBeforeEnd = true
			}
		case 'x':
			i, _ := strconv.Atoi(s[1:])
			if p, ok := partFile[i]; ok {
				os.Remove(p)
			}
			tags["gc-part"] = true
			if !eofSeen && !failed {
				envBeforeEnd = true
			}
		}
	}
	if !bytes.HasPrefix(expected, total) {
		oracle = fmt.Sprintf("FAIL:delivered bytes are not a prefix of the resolved version (diverge at %d of %d delivered)", c40Diverge(total, expected), len(total))
	}
	if envBeforeEnd {
		tags["changed-mid-download"] = true
	}
	if eofSeen {
		tags["complete"] = true
	}
	var tl []string
	for t := range tags {
		tl = append(tl, t)
	}
	sortStrings(tl)
	outs = append(outs, "total:"+tokBytes(string(total)))
	return Result{Out: strings.Join(outs, " "), Oracle: oracle, Tags: tl}
}

func c40Diverge(a, b []byte) int {
	for i := range a {
		if i >= len(b) || a[i] != b[i] {
			return i
		}
	}
	return len(a)
}
