//go:build verif

package main

import (
	"hash/crc32"
	"os"
	"strconv"
	"strings"
	"time"
)

// Property drivers over the M-META engine: C01 (read back exactly), C02 (versioning), C13 (immutability).
// They share the history generator with different biases and select the oracle classes they own.
type metaProp struct {
	name    string
	profile string
	classes map[string]bool // oracle failure classes this property owns
}

func init() {
	register("C01", &metaProp{name: "C01", profile: "c01",
		classes: map[string]bool{"read": true, "empty-get": true, "rb": true, "ls": true, "copy": true, "etag": true, "append": true, "wire": true}})
	register("C02", &metaProp{name: "C02", profile: "c02",
		classes: map[string]bool{"latest": true, "lsv": true, "read": true, "del": true, "vid": true, "wire": true}})
	register("C13", &metaProp{name: "C13", profile: "c13",
		classes: map[string]bool{"immutable": true, "immutable-lm": true, "wire": true}})
}

func (p *metaProp) Parallel() bool { return true }

var metaBuckets = []string{"bkt1", "bkt2"}
var metaKeys = []string{"k1", "k2", "dir/k3"}

type metaGenState struct {
	r        *Rng
	ops      []string
	contents [][]byte
	putOps   []int // indices of ops that may have produced versions / etags
	uploads  []int // indices of cmu ops
	upParts  map[int][]int
	ver      map[string]string
	big      bool
}

func (g *metaGenState) content() []byte {
	r := g.r
	if len(g.contents) > 0 && r.Chance(25) {
		return g.contents[r.Intn(len(g.contents))] // identical content: drives dedup / shared parts
	}
	if r.Chance(2) || (g.big && r.Chance(60)) { // compressible and >= 1 KiB: the compression middlewares really compress it
		n := 1024 + r.Intn(300)
		c := make([]byte, n)
		p := 3 + r.Intn(9)
		s := r.Intn(200)
		for i := range c {
			c[i] = byte('a' + (i%p+s)%26)
		}
		g.contents = append(g.contents, c)
		return c
	}
	var n int
	switch r.Intn(10) {
	case 0:
		n = 0
	case 1:
		n = 1
	case 2:
		n = 64
	case 3:
		n = 65 + r.Intn(200)
	default:
		n = 2 + r.Intn(30)
	}
	c := r.Bytes(n)
	g.contents = append(g.contents, c)
	return c
}

// a storage-level byte range (End exclusive): explicit, open-ended, suffix; biased to the content sizes in use
// so that part boundaries, whole parts, the object end and unsatisfiable ranges are all hit
func (g *metaGenState) rng() (string, string) {
	r := g.r
	sizes := []int{0, 1, 2, 8, 16, 30, 32, 33, 64, 65, 96, 128}
	for _, c := range g.contents {
		sizes = append(sizes, len(c))
	}
	pick := func() int {
		v := sizes[r.Intn(len(sizes))]
		switch r.Intn(6) {
		case 0:
			v += sizes[r.Intn(len(sizes))]
		case 1:
			v = r.Intn(v + 2)
		case 2:
			v++
		}
		return v
	}
	switch r.Intn(10) {
	case 0, 1, 2: // suffix: last n bytes
		return "-", strconv.Itoa(pick())
	case 3, 4: // open ended
		return strconv.Itoa(pick()), "-"
	case 5:
		return "-", "-"
	default:
		a, b := pick(), pick()
		if a > b && r.Chance(85) {
			a, b = b, a
		}
		return strconv.Itoa(a), strconv.Itoa(b)
	}
}

func (g *metaGenState) ref(list []int) string {
	if len(list) == 0 || g.r.Chance(5) {
		return "#" + strconv.Itoa(g.r.Intn(len(g.ops)+1))
	}
	// bias to recent
	if g.r.Chance(60) {
		k := len(list) - 1 - g.r.Intn(min(3, len(list)))
		return "#" + strconv.Itoa(list[k])
	}
	return "#" + strconv.Itoa(list[g.r.Intn(len(list))])
}

func (g *metaGenState) vref() string {
	switch k := g.r.Intn(20); {
	case k < 8:
		return "-"
	case k < 11:
		return "null"
	case k == 11:
		return "x"
	default:
		return g.ref(g.putOps)
	}
}

func (g *metaGenState) cref(p int) string {
	if !g.r.Chance(p) {
		return "-"
	}
	switch g.r.Intn(6) {
	case 0:
		return "im*"
	case 1:
		return "imx"
	case 2:
		return "inm"
	default:
		return "im" + g.ref(g.putOps)
	}
}

// scenario histories: few distinct contents, objects whose part list repeats one part id (identical multipart
// parts / repeated appends are deduplicated onto one id), several copies sharing those parts, then deletes in
// random order with a full read-back after each — the histories in which reference counting decides whether
// surviving objects stay readable
func metaGenSharing(r *Rng) string { return metaGenSharingX(r, true) }

// ext=false: core operations only (no UploadPartCopy)
func metaGenSharingX(r *Rng, ext bool) string {
	hb := func(s string) string { return tokBytes(s) }
	b := hb(metaBuckets[0])
	pool := [][]byte{r.Bytes(1 + r.Intn(12)), r.Bytes(1 + r.Intn(12)), {}}
	pick := func() string { return tokBytes(string(pool[r.Intn(2+r.Intn(2))])) }
	ops := []string{"mb:" + b}
	if r.Chance(40) {
		ops = append(ops, "ver:"+b+":"+r.Pick([]string{"E", "S"}))
	}
	keys := []string{hb("src"), hb("c1"), hb("c2"), hb("c3")}
	// source object with repeated parts
	switch r.Intn(3) {
	case 0:
		u := len(ops)
		ops = append(ops, "cmu:"+b+":"+keys[0])
		np := 2 + r.Intn(3)
		for i := 1; i <= np; i++ {
			ops = append(ops, "up:"+b+":"+keys[0]+":#"+strconv.Itoa(u)+":"+strconv.Itoa(i)+":"+pick())
		}
		ops = append(ops, "cpl:"+b+":"+keys[0]+":#"+strconv.Itoa(u)+":-:-")
	case 1:
		for i := 0; i < 2+r.Intn(3); i++ {
			ops = append(ops, "app:"+b+":"+keys[0]+":"+pick()+":-")
		}
	default:
		ops = append(ops, "put:"+b+":"+keys[0]+":"+pick()+":-")
		ops = append(ops, "put:"+b+":"+keys[1]+":"+pick()+":-")
	}
	live := []string{keys[0]}
	for i := 1; i <= 1+r.Intn(3); i++ {
		src := live[r.Intn(len(live))]
		if ext && r.Chance(25) {
			u := len(ops)
			ops = append(ops, "cmu:"+b+":"+keys[i])
			ops = append(ops, "upc:"+b+":"+src+":-:"+b+":"+keys[i]+":#"+strconv.Itoa(u)+":1:-:-")
			if r.Bool() {
				ops = append(ops, "upc:"+b+":"+src+":-:"+b+":"+keys[i]+":#"+strconv.Itoa(u)+":2:-:-")
			}
			ops = append(ops, "cpl:"+b+":"+keys[i]+":#"+strconv.Itoa(u)+":-:-")
		} else {
			ops = append(ops, "cp:"+b+":"+src+":-:"+b+":"+keys[i])
		}
		live = append(live, keys[i])
		if r.Chance(20) {
			ops = append(ops, "put:"+b+":"+r.Pick(live)+":"+pick()+":-")
		}
	}
	sweep := func() {
		for _, k := range keys {
			ops = append(ops, "get:"+b+":"+k+":-")
		}
	}
	sweep()
	for len(live) > 1 {
		i := r.Intn(len(live))
		ops = append(ops, "del:"+b+":"+live[i]+":-:-")
		if r.Chance(30) {
			ops = append(ops, "lsv:"+b)
		}
		live = append(live[:i], live[i+1:]...)
		sweep()
	}
	return strings.Join(ops, " ")
}

// histories of the 15 core operations only (used by the properties whose models are built on Model/Meta.v)
func metaGenHistory(r *Rng, profile string) string { return metaGenHistoryX(r, profile, false) }

// ext adds the ranged operations of Model/MetaExt.v (getr, cpr, upc) and the sharing scenarios
func metaGenHistoryX(r *Rng, profile string, ext bool) string {
	if ext && r.Chance(12) {
		return metaGenSharing(r)
	}
	g := &metaGenState{r: r, upParts: map[int][]int{}, ver: map[string]string{}}
	g.big = r.Chance(18) // a history of mostly large compressible bodies (parts that a compressing store really compresses)
	hb := func(s string) string { return tokBytes(s) }
	nb := 1 + r.Intn(2)
	for i := 0; i < nb; i++ {
		g.ops = append(g.ops, "mb:"+hb(metaBuckets[i]))
	}
	bucket := func() string {
		if r.Chance(3) {
			return hb("nobucket")
		}
		return hb(metaBuckets[r.Intn(nb)])
	}
	key := func() string {
		if r.Chance(70) {
			return hb(metaKeys[0])
		}
		return hb(metaKeys[r.Intn(len(metaKeys))])
	}
	n := 12 + r.Intn(45)
	// weights per profile
	w := map[string]int{"put": 22, "get": 14, "head": 6, "del": 10, "delv": 6, "ver": 5, "lsv": 5, "ls": 3, "cmu": 4, "up": 8, "cpl": 4, "abt": 1, "app": 6, "cp": 5, "rb": 1, "mb": 1}
	if ext {
		w["cp"], w["getr"], w["upc"], w["cpr"] = 4, 5, 5, 3
	}
	switch profile {
	case "c02":
		w["ver"], w["delv"], w["del"], w["lsv"], w["get"] = 10, 14, 10, 9, 16
	case "c13":
		w["ver"], w["get"], w["head"], w["app"], w["put"] = 8, 22, 10, 9, 20
	}
	names := []string{}
	total := 0
	for k, v := range w {
		names = append(names, k)
		total += v
	}
	// deterministic order
	metaSortStrings(names)
	for len(g.ops) < n {
		x := r.Intn(total)
		var op string
		for _, k := range names {
			if x < w[k] {
				op = k
				break
			}
			x -= w[k]
		}
		i := len(g.ops)
		switch op {
		case "mb":
			g.ops = append(g.ops, "mb:"+bucket())
		case "rb":
			g.ops = append(g.ops, "rb:"+bucket())
		case "ver":
			b := bucket()
			// never back to unversioned once versioned (S3 has no such transition; the reference model does not define it)
			st := "E"
			if g.ver[b] != "" && r.Chance(50) || r.Chance(25) {
				st = "S"
			}
			g.ver[b] = st
			g.ops = append(g.ops, "ver:"+b+":"+st)
		case "put":
			g.ops = append(g.ops, "put:"+bucket()+":"+key()+":"+tokBytes(string(g.content()))+":"+g.cref(12))
			g.putOps = append(g.putOps, i)
		case "get":
			g.ops = append(g.ops, "get:"+bucket()+":"+key()+":"+g.vref())
			g.putOps = append(g.putOps, i)
		case "head":
			g.ops = append(g.ops, "head:"+bucket()+":"+key()+":"+g.vref())
		case "del":
			g.ops = append(g.ops, "del:"+bucket()+":"+key()+":-:"+g.cref(10))
			g.putOps = append(g.putOps, i)
		case "delv":
			g.ops = append(g.ops, "del:"+bucket()+":"+key()+":"+g.vref()+":"+g.cref(8))
		case "lsv":
			g.ops = append(g.ops, "lsv:"+bucket())
		case "ls":
			g.ops = append(g.ops, "ls:"+bucket())
		case "cmu":
			g.ops = append(g.ops, "cmu:"+bucket()+":"+key())
			g.uploads = append(g.uploads, i)
		case "up":
			if len(g.uploads) == 0 {
				continue
			}
			u := g.uploads[len(g.uploads)-1-r.Intn(min(2, len(g.uploads)))]
			b, k := metaOpBK(g.ops[u])
			pn := 1 + len(g.upParts[u])
			if r.Chance(15) {
				pn = 1 + r.Intn(4) // overwrite or gap
			}
			if r.Chance(3) {
				k = key()
			}
			g.upParts[u] = append(g.upParts[u], pn)
			g.ops = append(g.ops, "up:"+b+":"+k+":#"+strconv.Itoa(u)+":"+strconv.Itoa(pn)+":"+tokBytes(string(g.content())))
		case "cpl":
			if len(g.uploads) == 0 {
				continue
			}
			u := g.uploads[len(g.uploads)-1-r.Intn(min(2, len(g.uploads)))]
			b, k := metaOpBK(g.ops[u])
			man := "-"
			if r.Chance(35) && len(g.upParts[u]) > 0 {
				seen := map[int]bool{}
				var es []string
				for _, pn := range g.upParts[u] {
					if !seen[pn] {
						seen[pn] = true
						es = append(es, strconv.Itoa(pn))
					}
				}
				metaSortStringsNumeric(es)
				if r.Chance(15) && len(es) > 1 {
					es[0], es[1] = es[1], es[0]
				}
				if r.Chance(10) {
					es = es[:len(es)-1]
				}
				if len(es) > 0 {
					man = strings.Join(es, ",")
				}
			}
			g.ops = append(g.ops, "cpl:"+b+":"+k+":#"+strconv.Itoa(u)+":"+man+":"+g.cref(10))
			g.putOps = append(g.putOps, i)
		case "abt":
			if len(g.uploads) == 0 {
				continue
			}
			u := g.uploads[r.Intn(len(g.uploads))]
			b, k := metaOpBK(g.ops[u])
			g.ops = append(g.ops, "abt:"+b+":"+k+":#"+strconv.Itoa(u))
		case "app":
			off := "-"
			if r.Chance(40) {
				switch k := r.Intn(10); {
				case k < 2: // explicit offset 0: "create only if absent"
					off = "0"
				case k < 6 && len(g.contents) > 0: // the size of a body in use: often the current size of the key
					off = strconv.Itoa(len(g.contents[r.Intn(len(g.contents))]))
				default:
					off = strconv.Itoa(r.Intn(40))
				}
			}
			g.ops = append(g.ops, "app:"+bucket()+":"+key()+":"+tokBytes(string(g.content()))+":"+off)
			g.putOps = append(g.putOps, i)
		case "cp":
			g.ops = append(g.ops, "cp:"+bucket()+":"+key()+":"+g.vref()+":"+bucket()+":"+key())
			g.putOps = append(g.putOps, i)
		case "cpr":
			s, e := g.rng()
			g.ops = append(g.ops, "cpr:"+bucket()+":"+key()+":"+g.vref()+":"+bucket()+":"+key()+":"+s+":"+e)
			g.putOps = append(g.putOps, i)
		case "getr":
			s, e := g.rng()
			g.ops = append(g.ops, "getr:"+bucket()+":"+key()+":"+g.vref()+":"+s+":"+e)
		case "upc":
			if len(g.uploads) == 0 {
				continue
			}
			u := g.uploads[len(g.uploads)-1-r.Intn(min(2, len(g.uploads)))]
			b, k := metaOpBK(g.ops[u])
			pn := 1 + len(g.upParts[u])
			if r.Chance(15) {
				pn = 1 + r.Intn(4)
			}
			g.upParts[u] = append(g.upParts[u], pn)
			s, e := "-", "-"
			if r.Chance(65) {
				s, e = g.rng()
			}
			g.ops = append(g.ops, "upc:"+bucket()+":"+key()+":"+g.vref()+":"+b+":"+k+":#"+strconv.Itoa(u)+":"+strconv.Itoa(pn)+":"+s+":"+e)
		}
	}
	// closing sweep: read everything back
	for i := 0; i < nb; i++ {
		g.ops = append(g.ops, "lsv:"+hb(metaBuckets[i]))
		for _, k := range metaKeys[:2] {
			g.ops = append(g.ops, "get:"+hb(metaBuckets[i])+":"+hb(k)+":-")
		}
	}
	return strings.Join(g.ops, " ")
}

func metaOpBK(op string) (string, string) {
	f := strings.Split(op, ":")
	return f[1], f[2]
}

func metaSortStrings(s []string) {
	for i := 1; i < len(s); i++ {
		for j := i; j > 0 && s[j] < s[j-1]; j-- {
			s[j], s[j-1] = s[j-1], s[j]
		}
	}
}
func metaSortStringsNumeric(s []string) {
	for i := 1; i < len(s); i++ {
		for j := i; j > 0; j-- {
			a, _ := strconv.Atoi(s[j])
			b, _ := strconv.Atoi(s[j-1])
			if a < b {
				s[j], s[j-1] = s[j-1], s[j]
			} else {
				break
			}
		}
	}
}

func (p *metaProp) Gen(r *Rng, tier string, n int) []string {
	out := make([]string, n)
	for i := range out {
		out[i] = metaGenHistoryX(r.Fork(), p.profile, true)
	}
	return out
}

// does the case line carry a body of at least 1 KiB (a hex token of >= 2048 characters)?
func metaHasBigBody(in string) bool {
	run := 0
	for i := 0; i < len(in); i++ {
		c := in[i]
		if (c >= '0' && c <= '9') || (c >= 'a' && c <= 'f') {
			run++
			if run >= 2048 {
				return true
			}
		} else {
			run = 0
		}
	}
	return false
}

func (p *metaProp) Run(in string, scratch string) Result {
	stacks := []string{"fs", "sql", "zstd", "gzip", "tink", "ocache", "zstdtink", "zstdsql", "tinkzstd"}
	if metaHasBigBody(in) { // bodies >= 1 KiB only behave differently where a store compresses them
		stacks = []string{"gzip", "zstd", "gzip", "zstdsql", "gzip", "tinkzstd", "zstdtink", "gzip", "ocache"}
	}
	stack := stacks[crc32.ChecksumIEEE([]byte(in))%uint32(len(stacks))]
	// the HTTP leg takes its cases by a second hash instead of a slot of the table above, so that the other
	// cases (corpus included) keep the stack they always had: one case in five runs through the real handlers
	// (histories with large bodies stay on the compressing stacks they are made for)
	if crc32.ChecksumIEEE([]byte(in+"#http"))%5 == 0 && !metaHasBigBody(in) {
		stack = "http"
	}
	m, err := metaNewRun(scratch, stack)
	if err != nil {
		return Result{Out: "SETUP-ERROR " + err.Error(), Oracle: "FAIL:setup " + err.Error()}
	}
	defer m.env.close()
	if stack == "http" {
		// Last-Modified has second granularity on the wire: in one http case out of four a wall-clock second
		// passes once, after a hash-chosen op, so that versions written before and after it differ there
		if h := crc32.ChecksumIEEE([]byte(in + "#sleep")); h%4 == 0 {
			at := int(h/4) % (strings.Count(in, " ") + 1)
			m.afterOp = func(i int) {
				if i == at {
					time.Sleep(1050 * time.Millisecond)
				}
			}
		}
	}
	out := m.exec(in)
	if m.env.http != nil {
		m.curKey = ""
		for _, f := range m.env.http.takeFaults() {
			m.fail("wire", f)
		}
		for t := range m.env.http.notes {
			m.tags[t] = true
		}
	}
	tags := []string{"stack-" + stack}
	for t := range m.tags {
		tags = append(tags, t)
	}
	metaSortStrings(tags)
	// failures owned by this property; attributed to known findings only if every one of them is
	var owned []string
	kfs := map[string]bool{}
	allKf := true
	for _, f := range m.fails {
		if !p.classes[f.class] {
			continue
		}
		owned = append(owned, f.class+": "+f.detail)
		if f.kf != "" {
			kfs[p.name+"-"+f.kf] = true
		} else {
			allKf = false
		}
	}
	oracle := "OK"
	if len(owned) > 0 {
		oracle = "FAIL:" + owned[0]
		if len(owned) > 1 {
			oracle += " (+" + strconv.Itoa(len(owned)-1) + " more)"
		}
		if allKf {
			for id := range kfs {
				tags = append(tags, "kf:"+id)
			}
		}
	}
	if os.Getenv("VERIF_DEBUG") != "" {
		for _, f := range m.fails {
			os.Stderr.WriteString(f.class + ": " + f.detail + " [kf=" + f.kf + "]\n")
		}
	}
	return Result{Out: out, Oracle: oracle, Tags: tags}
}
