//go:build verif

package main

import (
	"bytes"
	"context"
	"database/sql"
	"errors"
	"fmt"
	"io"
	"os"
	"path/filepath"
	"strconv"
	"strings"
	"sync"

	"github.com/jdillenkofer/pithos/internal/storage"
	"github.com/jdillenkofer/pithos/internal/storage/database"
	repositoryFactory "github.com/jdillenkofer/pithos/internal/storage/database/repository"
	"github.com/jdillenkofer/pithos/internal/storage/database/sqlite"
	"github.com/jdillenkofer/pithos/internal/storage/metadatapart"
	sqlMetadataStore "github.com/jdillenkofer/pithos/internal/storage/metadatapart/metadatastore/sql"
	sqlPartStore "github.com/jdillenkofer/pithos/internal/storage/metadatapart/partstore/sql"
)

// C36 — streaming reads hold their transaction exactly as long as needed.
//
// Case line (see coq/Model/TxReaders.v):   <mode> <setup> <n> <ops>
//
//	mode  : db  = database.WithTxReadClosers called directly with n synthetic lazy readers whose Read
//	              queries the transaction (like sqlPartStore's lazyChunkReadCloser)
//	        st  = multi-range GetObject (n ranges) of a real metadatapart storage with the SQL part store
//	        dbfix / stfix = same levels, model of the current code (close hook runs once per reader);
//	        plain db / st select the model of the pre-fix code (hook on every Close)
//	setup : ok | cerr (every inner reader's Close returns an error) | fnerr (fn returns an error) |
//	        beginerr (BeginTx fails)                                             (st: ok only)
//	ops   : ';'-separated  R<i> | C<i>   ("-" = none)
//
// Output: <setup result> <op results ';'-separated: res/rollbackHooks/txDone | "-"> rb=<k> done=<0|1> inner=<close counts|->
// Driver "C36" generates dbfix/stfix lines (the code since /repo 057e4df: sync.Once per reader);
// "C36prefix" generates db/st lines, for which the model computes the pre-fix machine (historical; only
// useful against a tree with 057e4df reverted).
type c36 struct{ fixed bool }

func init() {
	register("C36", c36{fixed: true})
	register("C36prefix", c36{})
}

func (c36) Parallel() bool { return false }

// ---- database.Database double: counts rollbacks (through the rollback hook) and keeps the root tx ----
type c36DB struct {
	inner     database.Database
	failBegin bool
	mu        sync.Mutex
	roots     []*database.TxController
	rollbacks int
}

type c36CtxKey struct{}

func (d *c36DB) BeginTx(ctx context.Context, opts *sql.TxOptions) (*database.TxController, error) {
	if d.failBegin && ctx.Value(c36CtxKey{}) != nil {
		return nil, errors.New("c36: begin failed")
	}
	_, nested := database.TxControllerFromContext(ctx)
	tx, err := d.inner.BeginTx(ctx, opts)
	if err != nil {
		return nil, err
	}
	// only the transaction begun by the case under test is observed (the storage's background GC
	// begins transactions on the same database with its own context)
	if !nested && ctx.Value(c36CtxKey{}) != nil {
		d.mu.Lock()
		d.roots = append(d.roots, tx)
		d.mu.Unlock()
		tx.OnRollback(func(context.Context) error {
			d.mu.Lock()
			d.rollbacks++
			d.mu.Unlock()
			return nil
		})
	}
	return tx, nil
}
func (d *c36DB) PingContext(ctx context.Context) error  { return d.inner.PingContext(ctx) }
func (d *c36DB) Close() error                           { return d.inner.Close() }
func (d *c36DB) GetDatabaseType() database.DatabaseType { return d.inner.GetDatabaseType() }
func (d *c36DB) reset(fail bool) {
	d.mu.Lock()
	d.roots, d.rollbacks, d.failBegin = nil, 0, fail
	d.mu.Unlock()
}
func (d *c36DB) rollbackCount() int { d.mu.Lock(); defer d.mu.Unlock(); return d.rollbacks }
func (d *c36DB) root() *database.TxController {
	d.mu.Lock()
	defer d.mu.Unlock()
	if len(d.roots) == 0 {
		return nil
	}
	return d.roots[len(d.roots)-1]
}

// txDone probes the real *sql.Tx: a finished transaction answers sql.ErrTxDone.
func c36TxDone(tx *database.TxController) bool {
	if tx == nil {
		return false
	}
	var one int
	err := tx.SqlTx().QueryRowContext(context.Background(), "SELECT 1").Scan(&one)
	return errors.Is(err, sql.ErrTxDone)
}

// synthetic lazy reader: every Read fetches from the transaction
type c36Reader struct {
	ctx       context.Context
	tx        database.Tx
	closed    bool
	closes    int
	failClose bool
}

var errC36InnerClose = errors.New("c36: inner close failed")

func (r *c36Reader) Read(p []byte) (int, error) {
	if r.closed {
		return 0, io.EOF
	}
	var one int
	if err := r.tx.SqlTx().QueryRowContext(r.ctx, "SELECT 1").Scan(&one); err != nil {
		return 0, err
	}
	if len(p) > 0 {
		p[0] = 'x'
		return 1, nil
	}
	return 0, nil
}
func (r *c36Reader) Close() error {
	r.closed = true
	r.closes++
	if r.failClose {
		return errC36InnerClose
	}
	return nil
}

// ---- shared fixtures (one SQLite database + one storage per harness process) ----
const (
	c36PartSize  = 2
	c36RangeLen  = 40 // bytes per range = 20 parts, more than any op sequence reads
	c36MaxReader = 6
)

type c36Fixture struct {
	db      *c36DB
	st      storage.Storage
	bucket  storage.BucketName
	key     storage.ObjectKey
	content []byte
	err     error
}

var (
	c36Once sync.Once
	c36Fix  c36Fixture
)

func c36Setup(scratch string) *c36Fixture {
	c36Once.Do(func() {
		f := &c36Fix
		dir := filepath.Join(filepath.Dir(scratch), "c36-shared")
		fail := func(err error) bool {
			if err != nil && f.err == nil {
				f.err = err
			}
			return err != nil
		}
		os.RemoveAll(dir)
		if fail(os.MkdirAll(dir, 0o755)) {
			return
		}
		raw, err := sqlite.OpenDatabase(filepath.Join(dir, "pithos.db"))
		if fail(err) {
			return
		}
		f.db = &c36DB{inner: raw}
		pc, err := repositoryFactory.NewPartContentRepository(f.db)
		if fail(err) {
			return
		}
		ps, err := sqlPartStore.New(f.db, pc)
		if fail(err) {
			return
		}
		br, err := repositoryFactory.NewBucketRepository(f.db)
		if fail(err) {
			return
		}
		or, err := repositoryFactory.NewObjectRepository(f.db)
		if fail(err) {
			return
		}
		pr, err := repositoryFactory.NewPartRepository(f.db)
		if fail(err) {
			return
		}
		tr, err := repositoryFactory.NewTagRepository(f.db)
		if fail(err) {
			return
		}
		ur, err := repositoryFactory.NewUserMetadataRepository(f.db)
		if fail(err) {
			return
		}
		ms, err := sqlMetadataStore.New(f.db, br, or, pr, tr, ur)
		if fail(err) {
			return
		}
		st, err := metadatapart.NewStorage(f.db, ms, ps)
		if fail(err) {
			return
		}
		ctx := context.Background()
		if fail(st.Start(ctx)) {
			return
		}
		f.st = st
		f.bucket = storage.MustNewBucketName("c36bucket")
		f.key = storage.MustNewObjectKey("multi/part/object")
		if fail(st.CreateBucket(ctx, f.bucket)) {
			return
		}
		up, err := st.CreateMultipartUpload(ctx, f.bucket, f.key, nil, nil, nil)
		if fail(err) {
			return
		}
		nParts := c36MaxReader * c36RangeLen / c36PartSize
		for p := 1; p <= nParts; p++ {
			chunk := []byte{byte('a' + p%26), byte('A' + p%26)}
			f.content = append(f.content, chunk...)
			if _, err := st.UploadPart(ctx, f.bucket, f.key, up.UploadId, int32(p), bytes.NewReader(chunk), nil); fail(err) {
				return
			}
		}
		if _, err := st.CompleteMultipartUpload(ctx, f.bucket, f.key, up.UploadId, nil, nil); fail(err) {
			return
		}
	})
	return &c36Fix
}

// ---- case parsing ----
type c36Op struct {
	close bool
	i     int
}

func c36ParseOps(t string) ([]c36Op, bool) {
	if t == "-" {
		return nil, true
	}
	var ops []c36Op
	for _, o := range strings.Split(t, ";") {
		if len(o) < 2 || (o[0] != 'R' && o[0] != 'C') {
			return nil, false
		}
		i, err := strconv.Atoi(o[1:])
		if err != nil || i < 0 || strconv.Itoa(i) != o[1:] {
			return nil, false
		}
		ops = append(ops, c36Op{close: o[0] == 'C', i: i})
	}
	return ops, true
}

func c36Classify(err error) string {
	switch {
	case err == nil:
		return "OK"
	case err == io.EOF:
		return "EOF"
	case errors.Is(err, sql.ErrTxDone):
		return "TXDONE"
	case err == errC36InnerClose:
		return "INNERERR"
	}
	return "ERR:" + strings.ReplaceAll(err.Error(), " ", "_")
}

func (c c36) Run(in string, scratch string) Result {
	f := strings.Split(in, " ")
	if f[0] == "sx" { // round 2: several named part stores / per-part transactions (c36_stream.go)
		return c36sRun(f, scratch)
	}
	if len(f) != 4 {
		return Result{Out: "PARSE-ERROR", Tags: []string{"malformed"}}
	}
	mode, setup := f[0], f[1]
	n, err := strconv.Atoi(f[2])
	ops, okOps := c36ParseOps(f[3])
	if err != nil || n < 0 || !okOps || strconv.Itoa(n) != f[2] {
		return Result{Out: "PARSE-ERROR", Tags: []string{"malformed"}}
	}
	base := strings.TrimSuffix(mode, "fix")
	if (base != "db" && base != "st") || (setup != "ok" && setup != "cerr" && setup != "fnerr" && setup != "beginerr") ||
		(base == "st" && (setup != "ok" || n < 1 || n > c36MaxReader)) {
		return Result{Out: "PARSE-ERROR", Tags: []string{"malformed"}}
	}
	for _, o := range ops {
		if o.i >= n || (setup != "ok" && setup != "cerr") {
			return Result{Out: "BAD", Tags: []string{"malformed"}}
		}
	}
	fx := c36Setup(scratch)
	if fx.err != nil {
		return Result{Out: "SETUP-FAILED", Oracle: "FAIL:fixture: " + fx.err.Error(), Tags: []string{"setup-failed"}}
	}
	db := fx.db
	db.reset(setup == "beginerr")
	ctx := context.WithValue(context.Background(), c36CtxKey{}, true)

	var readers []io.ReadCloser
	var inner []*c36Reader
	var callErr error
	if base == "db" {
		readers, callErr = database.WithTxReadClosers(ctx, db, &sql.TxOptions{ReadOnly: true},
			func(ctx context.Context, tx database.Tx) ([]io.ReadCloser, error) {
				if setup == "fnerr" {
					return nil, errors.New("c36: fn failed")
				}
				rs := make([]io.ReadCloser, n)
				for i := range rs {
					r := &c36Reader{ctx: ctx, tx: tx, failClose: setup == "cerr"}
					inner = append(inner, r)
					rs[i] = r
				}
				return rs, nil
			})
	} else {
		ranges := make([]storage.ByteRange, n)
		for i := range ranges {
			s, e := int64(i*c36RangeLen), int64((i+1)*c36RangeLen)
			ranges[i] = storage.ByteRange{Start: &s, End: &e}
		}
		_, readers, callErr = fx.st.GetObject(ctx, fx.bucket, fx.key, ranges, nil)
	}
	root := db.root()
	defer func() { // never leak the transaction into the next case
		for _, r := range readers {
			r.Close()
		}
		if root != nil {
			root.Rollback(context.Background())
		}
		db.reset(false)
	}()

	setupRes := "OK"
	switch {
	case callErr != nil && setup == "beginerr":
		setupRes = "BEGINERR"
	case callErr != nil && setup == "fnerr":
		setupRes = "FNERR"
	case callErr != nil:
		setupRes = "ERR:" + strings.ReplaceAll(callErr.Error(), " ", "_")
	case len(readers) != n:
		setupRes = fmt.Sprintf("READERS:%d", len(readers))
	}

	// the rollback hook count is observable only in db mode: metadatapart wraps its database in
	// gc.NewProtectedDatabase, which builds a fresh TxController (hooks registered on ours are not carried over)
	hookCount := func() int {
		if base == "db" {
			return db.rollbackCount()
		}
		if c36TxDone(root) {
			return 1
		}
		return 0
	}
	rbTok := func(rb int) string {
		if base == "db" {
			return strconv.Itoa(rb)
		}
		return "-"
	}
	b2i := func(b bool) int {
		if b {
			return 1
		}
		return 0
	}
	// ---- run the ops, direct oracle evaluated on the fly from the implementation's observables ----
	oracle := "OK"
	failf := func(format string, a ...any) {
		if oracle == "OK" {
			oracle = "FAIL:" + fmt.Sprintf(format, a...)
		}
	}
	closedOnce := make([]bool, n)
	nClosed := 0
	readOff := make([]int, n)
	var outs []string
	if callErr == nil && len(readers) == n {
		if n > 0 && (hookCount() != 0 || c36TxDone(root)) {
			failf("transaction released before any reader was closed")
		}
		for k, o := range ops {
			var res string
			if o.close {
				res = c36Classify(readers[o.i].Close())
				if !closedOnce[o.i] {
					closedOnce[o.i] = true
					nClosed++
				}
				if res != "OK" && !(setup == "cerr" && res == "INNERERR") {
					failf("op %d: Close(%d) failed: %s", k, o.i, res)
				}
			} else {
				buf := make([]byte, c36PartSize)
				m, rerr := readers[o.i].Read(buf)
				res = c36Classify(rerr)
				if !closedOnce[o.i] {
					if res != "OK" {
						failf("op %d: Read(%d) of an open reader failed: %s", k, o.i, res)
					} else if base == "st" {
						want := fx.content[o.i*c36RangeLen+readOff[o.i]:]
						if m < 1 || m > len(want) || !bytes.Equal(buf[:m], want[:m]) {
							failf("op %d: Read(%d) returned wrong bytes", k, o.i)
						}
						readOff[o.i] += m
					}
				}
			}
			rb, done := hookCount(), c36TxDone(root)
			outs = append(outs, fmt.Sprintf("%s/%s/%d", res, rbTok(rb), b2i(done)))
			switch {
			case rb > 1:
				failf("op %d: transaction rolled back %d times", k, rb)
			case (done || rb > 0) && nClosed < n:
				failf("op %d: transaction released while %d reader(s) still open", k, n-nClosed)
			case nClosed == n && (!done || rb != 1):
				failf("op %d: every reader closed but transaction not released exactly once (rb=%d done=%v)", k, rb, done)
			}
		}
	}
	rb, done := hookCount(), c36TxDone(root)
	switch {
	case setup == "beginerr":
		if root != nil || rb != 0 {
			failf("begin failure left a transaction behind")
		}
	case setup == "fnerr" || n == 0:
		if rb != 1 || !done {
			failf("no readers handed out but transaction not released exactly once (rb=%d done=%v)", rb, done)
		}
	}
	innerTok := "-"
	if base == "db" && callErr == nil {
		cs := make([]string, len(inner))
		for i, r := range inner {
			cs[i] = strconv.Itoa(r.closes)
		}
		innerTok = strings.Join(cs, ",")
		if innerTok == "" {
			innerTok = "_"
		}
	}
	opsTok := "-"
	if len(outs) > 0 {
		opsTok = strings.Join(outs, ";")
	}
	out := fmt.Sprintf("%s %s rb=%s done=%d inner=%s", setupRes, opsTok, rbTok(rb), b2i(done), innerTok)

	// ---- tags (from the input alone) ----
	tags := []string{base, fmt.Sprintf("n%d", n)}
	if setup != "ok" {
		tags = append(tags, "setup-"+setup)
	}
	if len(ops) == 0 {
		tags = append(tags, "empty-ops")
	}
	cnt := make([]int, n)
	total, dbl, early, readAfterOwnClose, readAfterOther := 0, false, false, false, false
	seen := 0
	for _, o := range ops {
		if o.close {
			cnt[o.i]++
			total++
			if cnt[o.i] == 1 {
				seen++
			} else {
				dbl = true
			}
			if total >= n && seen < n {
				early = true
			}
		} else {
			if cnt[o.i] > 0 {
				readAfterOwnClose = true
			} else if total > 0 {
				readAfterOther = true
			}
		}
	}
	if dbl {
		tags = append(tags, "double-close")
	}
	if early {
		tags = append(tags, "early-release-region") // where the pre-fix code released too early (fixed by 057e4df)
	}
	if seen == n && n > 0 {
		tags = append(tags, "all-closed")
	}
	if readAfterOwnClose {
		tags = append(tags, "read-after-own-close")
	}
	if readAfterOther {
		tags = append(tags, "read-after-other-close")
	}
	return Result{Out: out, Oracle: oracle, Tags: tags}
}

// ---- generator: exhaustive small op orders + random longer ones ----
func c36Line(mode, setup string, n int, ops []c36Op) string {
	t := "-"
	if len(ops) > 0 {
		s := make([]string, len(ops))
		for i, o := range ops {
			c := "R"
			if o.close {
				c = "C"
			}
			s[i] = c + strconv.Itoa(o.i)
		}
		t = strings.Join(s, ";")
	}
	return fmt.Sprintf("%s %s %d %s", mode, setup, n, t)
}

func c36Exhaustive(mode, setup string, n, maxLen int, emit func(string)) {
	var rec func(prefix []c36Op)
	rec = func(prefix []c36Op) {
		emit(c36Line(mode, setup, n, prefix))
		if len(prefix) == maxLen {
			return
		}
		for i := 0; i < n; i++ {
			for _, cl := range []bool{false, true} {
				rec(append(append([]c36Op{}, prefix...), c36Op{close: cl, i: i}))
			}
		}
	}
	rec(nil)
}

func (c c36) Gen(r *Rng, tier string, n int) []string {
	sfx := ""
	if c.fixed {
		sfx = "fix"
	}
	var cases []string
	emit := func(s string) { cases = append(cases, s) }
	for _, setup := range []string{"fnerr", "beginerr"} {
		for k := 0; k <= 3; k++ {
			emit(c36Line("db"+sfx, setup, k, nil))
		}
	}
	emit(c36Line("db"+sfx, "ok", 0, nil))
	// exhaustive: every order of Read/Close/repeated Close
	lens := map[int]int{1: 6, 2: 5, 3: 4, 4: 3}
	stLens := map[int]int{1: 4, 2: 4, 3: 3, 4: 2}
	if tier == "thorough" {
		lens = map[int]int{1: 10, 2: 7, 3: 5, 4: 5}
		stLens = map[int]int{1: 8, 2: 6, 3: 4, 4: 4}
	}
	for k := 1; k <= 4; k++ {
		c36Exhaustive("db"+sfx, "ok", k, lens[k], emit)
		c36Exhaustive("st"+sfx, "ok", k, stLens[k], emit)
	}
	c36Exhaustive("db"+sfx, "cerr", 1, 3, emit)
	c36Exhaustive("db"+sfx, "cerr", 2, 4, emit)
	c36Exhaustive("db"+sfx, "cerr", 3, 3, emit)
	// random longer histories, biased to closes / repeated closes of one reader
	target := len(cases) + n
	for len(cases) < target {
		k := 1 + r.Intn(4)
		if r.Chance(10) {
			k = 5 + r.Intn(2)
		}
		l := 1 + r.Intn(12)
		ops := make([]c36Op, 0, l)
		fav := r.Intn(k)
		pClose := 30 + r.Intn(50)
		for len(ops) < l {
			i := r.Intn(k)
			if r.Chance(35) {
				i = fav
			}
			ops = append(ops, c36Op{close: r.Chance(pClose), i: i})
		}
		mode, setup := "db", "ok"
		if r.Chance(40) {
			mode = "st"
		} else if r.Chance(20) {
			setup = "cerr"
		}
		emit(c36Line(mode+sfx, setup, k, ops))
	}
	if c.fixed {
		nsx := n / 3
		if tier == "thorough" {
			nsx = n / 10
		}
		cases = append(cases, c36sGen(r.Fork(), nsx)...)
	}
	return cases
}
