//go:build verif

package main

import (
	"net/url"
	"sort"
	"strconv"
	"strings"
)

// ---------- generator ----------
var c11UMNames = []string{"x-amz-meta-a", "X-Amz-Meta-A", "x-amz-meta-Bc", "X-AMZ-META-bC", "x-amz-meta-d_e.f", "x-amz-meta-long", "X-Amz-Meta-Zz", "x-amz-meta-", "x-amz-metab", "x-amz-meta"}
var c11UMValues = []string{"1", "v2", "x,y", "", "with space", "MiXed", "q=1;r"}
var c11SysValues = [][]string{
	{"no-cache", "max-age=60, public"},
	{"inline", "attachment; filename=\"a b.txt\""},
	{"gzip", "identity"},
	{"de", "en-US, fr"},
	{"Wed, 21 Oct 2026 07:28:00 GMT", "0"},
	{"/other", "http://example.com/x?y=1"},
}
var c11CTypes = []string{"text/plain", "application/x-c11; charset=utf-8"}
var c11Classes = []string{"STANDARD", "REDUCED_REDUNDANCY", "STANDARD_IA", "ONEZONE_IA", "INTELLIGENT_TIERING", "GLACIER_IR", "GLACIER", "DEEP_ARCHIVE", "EXPRESS_ONEZONE", "OUTPOSTS"}
var c11BadClasses = []string{"BOGUS", "standard", "GLACIER ", "STANDARD_IA2"}
var c11TagKeys = []string{"a", "b", "k 1", "k&=", "é", "A", "x+y", "p%q"}
var c11TagVals = []string{"1", "", "v 2", "ü&=", "x+y", "100%", "a;b"}

func c11CaseMix(r *Rng, s string) string {
	b := []byte(s)
	for i := range b {
		if r.Chance(35) {
			if b[i] >= 'a' && b[i] <= 'z' {
				b[i] -= 32
			} else if b[i] >= 'A' && b[i] <= 'Z' {
				b[i] += 32
			}
		}
	}
	return string(b)
}

// a tagging header value: mostly well-formed, with encoded characters; sometimes malformed / over the limits
func c11GenTagging(r *Rng) string {
	switch r.Intn(22) {
	case 0:
		return "a=1&a=2" // duplicate key
	case 1:
		return "a=%zz"
	case 2:
		return "a=1;b=2"
	case 3:
		return "=v" // empty key
	case 4:
		return "a=1&&b=2&"
	case 5:
		return "novalue"
	case 6: // 10 / 11 tags
		n := 10 + r.Intn(2)
		var p []string
		for i := 0; i < n; i++ {
			p = append(p, "t"+strconv.Itoa(i)+"="+strconv.Itoa(i))
		}
		return strings.Join(p, "&")
	case 7: // key length boundary, ASCII or two-byte characters
		n := 127 + r.Intn(3)
		if r.Bool() {
			return strings.Repeat("k", n) + "=1"
		}
		return strings.Repeat("%C3%A9", n) + "=1"
	case 8: // value length boundary
		n := 255 + r.Intn(3)
		if r.Bool() {
			return "a=" + strings.Repeat("v", n)
		}
		return "a=" + strings.Repeat("%C3%BC", n)
	case 9:
		return "a=%4" // truncated escape
	case 10:
		return "a=1&A=2&%61b=3&a%20=4" // distinct keys after decoding
	case 11:
		return "%61=1&a=2" // duplicate only after decoding
	case 12:
		return "a=b=c&d==&e=%3D"
	}
	n := 1 + r.Intn(4)
	var p []string
	used := map[string]bool{}
	for i := 0; i < n; i++ {
		k := r.Pick(c11TagKeys)
		if used[k] && r.Chance(85) {
			continue
		}
		used[k] = true
		v := r.Pick(c11TagVals)
		enc := func(s string) string {
			switch r.Intn(4) {
			case 0:
				return strings.ReplaceAll(url.QueryEscape(s), "+", "%20")
			case 1:
				if !strings.ContainsAny(s, "&=;%+") {
					return s // raw (space / utf-8 as is)
				}
			}
			return url.QueryEscape(s)
		}
		p = append(p, enc(k)+"="+enc(v))
	}
	return strings.Join(p, "&")
}

func c11GenUserMeta(r *Rng, hs []c11Hdr) []c11Hdr {
	switch r.Intn(14) {
	case 0: // the 2 KiB boundary: key sizes + value sizes around 2048
		total := 2046 + r.Intn(5)
		k1, k2 := "x-amz-meta-big", "X-Amz-Meta-Other"
		rest := total - 3 - 5
		if r.Bool() { // split over a repeated header: the joining comma counts
			a := rest / 3
			hs = append(hs, c11Hdr{k1, strings.Repeat("p", a)}, c11Hdr{k2, strings.Repeat("q", rest-a-1-a)}, c11Hdr{c11CaseMix(r, k1), strings.Repeat("r", a)})
		} else {
			a := r.Intn(rest)
			hs = append(hs, c11Hdr{k1, strings.Repeat("p", a)}, c11Hdr{k2, strings.Repeat("q", rest-a)})
		}
		return hs
	case 1, 2, 3:
		return hs
	}
	n := 1 + r.Intn(4)
	for i := 0; i < n; i++ {
		name := r.Pick(c11UMNames)
		if r.Chance(30) {
			name = c11CaseMix(r, name)
		}
		hs = append(hs, c11Hdr{name, r.Pick(c11UMValues)})
	}
	return hs
}

// headers of a PutObject / CreateMultipartUpload / CopyObject request
func c11GenHeaders(r *Rng, copy bool) []c11Hdr {
	var hs []c11Hdr
	all := r.Chance(12) // all system headers at once
	if r.Chance(55) {
		hs = append(hs, c11Hdr{c11CaseMix(r, "content-type"), r.Pick(c11CTypes)})
	}
	for i, n := range c11SysHeaders {
		if all || r.Chance(25) {
			name := n
			if r.Chance(30) {
				name = c11CaseMix(r, n)
			}
			hs = append(hs, c11Hdr{name, r.Pick(c11SysValues[i])})
			if r.Chance(6) { // repeated system header: the first value counts
				hs = append(hs, c11Hdr{n, c11SysValues[i][0] + "-2"})
			}
			if r.Chance(4) {
				hs[len(hs)-1].value = ""
			}
		}
	}
	hs = c11GenUserMeta(r, hs)
	if r.Chance(55) {
		hs = append(hs, c11Hdr{"x-amz-tagging", c11GenTagging(r)})
	}
	if r.Chance(50) {
		c := r.Pick(c11Classes)
		if r.Chance(10) {
			c = r.Pick(c11BadClasses)
		}
		hs = append(hs, c11Hdr{c11CaseMix(r, "x-amz-storage-class"), c})
	}
	if copy {
		dir := func(name string) {
			switch r.Intn(9) {
			case 0, 1, 2:
			case 3, 4:
				hs = append(hs, c11Hdr{name, "COPY"})
			case 5, 6:
				hs = append(hs, c11Hdr{name, "REPLACE"})
			case 7:
				hs = append(hs, c11Hdr{name, r.Pick([]string{"replace", "Copy", "rEPLACE"})})
			default:
				hs = append(hs, c11Hdr{name, r.Pick([]string{"BOGUS", "REPLACE ", "COPY,REPLACE"})})
			}
		}
		dir("x-amz-metadata-directive")
		dir("x-amz-tagging-directive")
	}
	// shuffle lightly so header order varies
	for i := len(hs) - 1; i > 0; i-- {
		if r.Chance(40) {
			j := r.Intn(i + 1)
			hs[i], hs[j] = hs[j], hs[i]
		}
	}
	return hs
}

func (c11) Gen(rng *Rng, tier string, n int) []string {
	var out []string
	for i := 0; i < n; i++ {
		r := rng.Fork()
		switch {
		case i%10 == 8: // pure: user metadata parsing
			out = append(out, "u "+c11TokHdrs(c11GenHeaders(r, false)))
		case i%10 == 9: // pure: tagging header
			out = append(out, "t "+tokBytes(c11GenTagging(r)))
		default:
			out = append(out, c11GenHistory(r))
		}
	}
	return out
}

func c11GenHistory(r *Rng) string {
	ops := []string{"h"}
	nOps := 4 + r.Intn(9)
	nVers := 0   // an upper bound of allocated version ordinals
	nMC := 0     // MC ops so far
	focusB := -1 // some histories stay in one bucket so that sequences on one key get long
	if r.Chance(40) {
		focusB = r.Intn(2)
	}
	nk := 1 + r.Intn(len(c11Keys))
	pickB := func() int {
		if focusB >= 0 && r.Chance(85) {
			return focusB
		}
		return r.Intn(2)
	}
	pickV := func(b int) string {
		if b == 1 && nVers > 0 && r.Chance(35) {
			return strconv.Itoa(r.Intn(nVers + 1))
		}
		return "L"
	}
	lastB, lastK := 0, 0
	for i := 0; i < nOps; i++ {
		b, k := pickB(), r.Intn(nk)
		if r.Chance(50) && i > 0 {
			b, k = lastB, lastK
		}
		x := r.Intn(100)
		switch {
		case x < 22 || i == 0:
			ops = append(ops, "P:"+strconv.Itoa(b)+":"+strconv.Itoa(k)+":"+c11TokHdrs(c11GenHeaders(r, false)))
			nVers += b
		case x < 30:
			ops = append(ops, "MC:"+strconv.Itoa(b)+":"+strconv.Itoa(k)+":"+c11TokHdrs(c11GenHeaders(r, false)))
			nMC++
		case x < 40:
			if nMC == 0 {
				ops = append(ops, "MC:"+strconv.Itoa(b)+":"+strconv.Itoa(k)+":"+c11TokHdrs(c11GenHeaders(r, false)))
				nMC++
			} else {
				u := r.Intn(nMC)
				if r.Chance(70) {
					u = nMC - 1
				}
				ops = append(ops, "MF:"+strconv.Itoa(u))
				nVers++
			}
		case x < 62:
			sb, sk := lastB, lastK
			if r.Chance(40) {
				sb, sk = pickB(), r.Intn(nk)
			}
			db, dk := pickB(), r.Intn(nk)
			if r.Chance(15) {
				db, dk = sb, sk
			}
			ops = append(ops, "C:"+strconv.Itoa(sb)+":"+strconv.Itoa(sk)+":"+pickV(sb)+":"+strconv.Itoa(db)+":"+strconv.Itoa(dk)+":"+c11TokHdrs(c11GenHeaders(r, true)))
			nVers += db
			b, k = db, dk
		case x < 72:
			ops = append(ops, "A:"+strconv.Itoa(b)+":"+strconv.Itoa(k))
			nVers += b
		case x < 82:
			c := r.Pick(c11Classes)
			if r.Chance(10) {
				c = r.Pick(append(c11BadClasses, ""))
			}
			ops = append(ops, "T:"+strconv.Itoa(b)+":"+strconv.Itoa(k)+":"+pickV(b)+":"+tokBytes(c))
		case x < 90:
			var ts []c11Hdr
			nt := r.Intn(4)
			if r.Chance(8) {
				nt = 10 + r.Intn(2)
			}
			for j := 0; j < nt; j++ {
				key := r.Pick(c11TagKeys)
				if nt >= 10 {
					key = "t" + strconv.Itoa(j)
				}
				ts = append(ts, c11Hdr{key, r.Pick(c11TagVals)})
			}
			if r.Chance(5) {
				ts = append(ts, c11Hdr{strings.Repeat("k", 128+r.Intn(2)), "1"})
			}
			if r.Chance(5) {
				ts = append(ts, c11Hdr{"", "1"})
			}
			ops = append(ops, "TP:"+strconv.Itoa(b)+":"+strconv.Itoa(k)+":"+pickV(b)+":"+c11TokHdrs(ts))
		case x < 94:
			ops = append(ops, "TD:"+strconv.Itoa(b)+":"+strconv.Itoa(k)+":"+pickV(b))
		default:
			ops = append(ops, "H:"+strconv.Itoa(b)+":"+strconv.Itoa(k)+":"+pickV(b))
		}
		lastB, lastK = b, k
		if r.Chance(45) {
			ops = append(ops, "H:"+strconv.Itoa(b)+":"+strconv.Itoa(k)+":L")
		}
	}
	ops = append(ops, "S")
	return strings.Join(ops, " ")
}

// ---------- tags ----------
func c11HistoryTags(ops []string, e *c11Env) []string {
	t := map[string]bool{}
	for k := range e.tags {
		t[k] = true
	}
	obs := false
	okWrite := false
	for _, o := range ops {
		f := strings.Split(o, ":")
		switch f[0] {
		case "H", "S":
			obs = true
		case "A":
			if len(f) == 3 && f[1] == "1" {
				t["append-versioned"] = true
			}
		}
		var hs []c11Hdr
		if (f[0] == "P" || f[0] == "MC") && len(f) == 4 {
			hs, _ = c11ParseHdrs(f[3])
		}
		if f[0] == "C" && len(f) == 7 {
			hs, _ = c11ParseHdrs(f[6])
			m, ok1 := c11Directive(hs, "x-amz-metadata-directive")
			g, ok2 := c11Directive(hs, "x-amz-tagging-directive")
			if ok1 && ok2 {
				t["dir:"+map[bool]string{false: "C", true: "R"}[m]+map[bool]string{false: "C", true: "R"}[g]] = true
			} else {
				t["dir:invalid"] = true
			}
			if f[4] == "1" {
				t["copy:versioned-dst"] = true
			}
			if f[3] != "L" {
				t["copy:src-version"] = true
			}
			if f[1] == f[4] && f[2] == f[5] {
				t["copy:self"] = true
			}
		}
		seen := map[string]int{}
		nsys := 0
		for _, h := range hs {
			ln := strings.ToLower(h.name)
			seen[ln]++
			if strings.HasPrefix(ln, "x-amz-meta-") && len(ln) > 11 {
				t["um:some"] = true
				if h.name != ln {
					t["um:mixed-case"] = true
				}
				if seen[ln] > 1 {
					t["um:repeated"] = true
				}
			}
			for _, s := range c11SysHeaders {
				if strings.EqualFold(s, h.name) {
					nsys++
				}
			}
			if ln == "x-amz-tagging" {
				t["tagging-header"] = true
				if strings.ContainsAny(h.value, "%+") {
					t["tagging-encoded"] = true
				}
			}
			if ln == "x-amz-storage-class" {
				if c11ValidClasses[h.value] {
					t["class:valid"] = true
				} else {
					t["class:invalid"] = true
				}
			}
		}
		if nsys >= 6 {
			t["sys:all"] = true
		}
	}
	for k := range e.tags {
		if strings.HasPrefix(k, "ok:") && k != "ok:H" {
			okWrite = true
		}
	}
	if !obs || !okWrite {
		t["no-observation"] = true
	}
	if t["append-versioned"] {
		t["kf:C11-append-versioned-drops-fields"] = true
	}
	var out []string
	for k := range t {
		out = append(out, k)
	}
	sort.Strings(out)
	return out
}
