//go:build verif

package main

// C38, round 3: self-contained composite operations that cover the CopyObject option cross product
// and the CompleteMultipartUpload manifests cell by cell.
//
//	CX,sb,sk,db,dk,smask,stags,scls,rm,omask,metanil,rt,otags,ocls
//	   seed the source object BEHIND the server (fields of smask with S-values, tags, class), run
//	   CopyObject through the side's API with the options (fields of omask with O-values; bit 256 =
//	   Expires in RFC 850 spelling), observe the destination BEHIND the server: per field where its
//	   value came from (S source, O options, R raw alt Expires, A re-spelled alt Expires, - absent)
//	MFX,b,k,upmask,manifest,cond,pre
//	   reset the key behind the server (pre=1: an old object exists), create an upload and upload the
//	   parts of upmask through the side's API, CompleteMultipartUpload with the manifest
//	   ("p:e/p:e/..", e: 0 correct ETag, 1 wrong ETag, 2 empty ETag; "-" = no manifest) and condition
//	   (0 none, 1 If-None-Match:*, 2 If-Match wrong), observe behind the server: error kind, which
//	   object is visible (new/old/none) and whether the upload is still open.
//
// Seeding and observing behind the server keeps the client's own PUT/HEAD defects out of these cells.

import (
	"bytes"
	"fmt"
	"strings"

	"github.com/jdillenkofer/pithos/internal/storage"
)

var c38FieldNames = []string{"ct", "cc", "cd", "ce", "cl", "exp", "wrl", "um"}

const (
	c38ExpS    = "Tue, 01 Jan 2030 00:00:00 GMT"
	c38ExpO    = "Wed, 02 Jan 2030 03:04:05 GMT"
	c38ExpOAlt = "Wednesday, 02-Jan-30 03:04:05 GMT" // RFC 850 spelling of c38ExpO
)

var c38SVal = []string{"text/x-src", "max-age=1", "inline; filename=\"src.txt\"", "x-src-enc", "de", c38ExpS, "/src"}
var c38OVal = []string{"text/x-opt", "no-store, private", "attachment; filename=\"o p.txt\"", "x-opt-enc", "en-US", c38ExpO, "/opt?x=1"}
var c38SUM = map[string]string{"s": "1"}
var c38OUM = map[string]string{"o": "2", "p-q": "two words"}
var c38STags = map[string]string{"st": "1"}
var c38OTags = map[string]string{"ot": "2", "o u": "x&y"}

func c38MetaFromMask(mask int, vals []string, um map[string]string, altExp bool) (*string, *storage.ObjectMetadata) {
	p := func(i int) *string {
		if mask&(1<<i) == 0 {
			return nil
		}
		v := vals[i]
		if i == 5 && altExp {
			v = c38ExpOAlt
		}
		return &v
	}
	m := &storage.ObjectMetadata{CacheControl: p(1), ContentDisposition: p(2), ContentEncoding: p(3), ContentLanguage: p(4), Expires: p(5), WebsiteRedirectLocation: p(6)}
	if mask&(1<<7) != 0 {
		m.UserMetadata = map[string]string{}
		for k, v := range um {
			m.UserMetadata[k] = v
		}
	}
	return p(0), m
}

func c38Prov(v *string, i int) string {
	if v == nil {
		return "-"
	}
	switch *v {
	case c38SVal[i]:
		return "S"
	case c38OVal[i]:
		if i == 5 {
			return "O" // also what the re-spelled alt form looks like; distinguished by the caller
		}
		return "O"
	case c38ExpOAlt:
		return "R"
	}
	return "?"
}
func c38MapProv(m, s, o map[string]string) string {
	switch {
	case len(m) == 0:
		return "-"
	case c37MapEq(m, s):
		return "S"
	case c37MapEq(m, o):
		return "O"
	}
	return "?"
}

func (s *c38Side) opCX(f []string) (string, error) {
	n := func(i int) int { return c38N(f, i) }
	sb, db := storage.MustNewBucketName(c38Buckets[n(1)%2]), storage.MustNewBucketName(c38Buckets[n(3)%2])
	sk, dk := storage.MustNewObjectKey(c38Keys[n(2)%len(c38Keys)]), storage.MustNewObjectKey(c38Keys[n(4)%len(c38Keys)])
	smask, omask := n(5), n(9)
	// seed behind the server
	sct, smeta := c38MetaFromMask(smask, c38SVal, c38SUM, false)
	var stags map[string]string
	if n(6) == 1 {
		stags = c38STags
	}
	if _, err := s.back.PutObject(c20Ctx, sb, sk, sct, bytes.NewReader(c20Body(3)), nil, &storage.PutObjectOptions{Tags: stags, Metadata: smeta, StorageClass: c20Class(n(7))}); err != nil {
		return c38F("err", "SEED:"+c38ErrKind(err)), err
	}
	altExp := omask&256 != 0
	oct, ometa := c38MetaFromMask(omask, c38OVal, c38OUM, altExp)
	if n(10) == 1 {
		ometa = nil
	}
	o := &storage.CopyObjectOptions{ReplaceMetadata: n(8) == 1, ContentType: oct, Metadata: ometa, ReplaceTags: n(11) == 1, StorageClass: c20Class(n(13))}
	if n(12) == 1 {
		o.Tags = c38OTags
	}
	r, err := s.st.CopyObject(c20Ctx, sb, sk, db, dk, o)
	if err != nil {
		return c38Err(err), err
	}
	out := []string{"ok", c38F("etag", r.ETag)}
	ho, herr := s.back.HeadObject(c20Ctx, db, dk, nil)
	if herr != nil {
		return strings.Join(append(out, c38F("observe", c38ErrKind(herr))), " "), nil
	}
	vals := []*string{ho.ContentType, ho.Metadata.CacheControl, ho.Metadata.ContentDisposition, ho.Metadata.ContentEncoding, ho.Metadata.ContentLanguage, ho.Metadata.Expires, ho.Metadata.WebsiteRedirectLocation}
	for i, v := range vals {
		pv := c38Prov(v, i)
		if i == 5 && pv == "O" && altExp {
			pv = "A" // the options carried the RFC 850 spelling; the stored value is its canonical re-spelling
		}
		out = append(out, c38F("p"+c38FieldNames[i], pv))
	}
	out = append(out, c38F("pum", c38MapProv(ho.Metadata.UserMetadata, c38SUM, c38OUM)))
	tg, terr := s.back.GetObjectTagging(c20Ctx, db, dk, nil)
	if terr != nil {
		out = append(out, c38F("ptags", "E"+c38ErrKind(terr)))
	} else {
		out = append(out, c38F("ptags", c38MapProv(tg, c38STags, c38OTags)))
	}
	out = append(out, c38F("pcls", c20ClassID(ho.StorageClass)), c38F("size", ho.Size))
	return strings.Join(out, " "), nil
}

// the client-side token of a CX operation compared with the model: E on error, else the provenance vector
func c38CXToken(proj string) string {
	m := c38Fields(proj)
	if _, ok := m["err"]; ok {
		return "E"
	}
	t := ""
	for _, n := range c38FieldNames {
		t += m["p"+n]
	}
	return t + m["ptags"] + m["pcls"]
}

func (s *c38Side) opMFX(f []string) (string, error) {
	n := func(i int) int { return c38N(f, i) }
	bn := storage.MustNewBucketName(c38Buckets[n(1)%2])
	kn := storage.MustNewObjectKey(c38Keys[n(2)%len(c38Keys)])
	upmask := n(3)
	// reset the key behind the server
	if _, err := s.back.DeleteObject(c20Ctx, bn, kn, nil); err != nil {
		return c38F("err", "SEED:"+c38ErrKind(err)), err
	}
	oldETag := ""
	if n(6) == 1 {
		r, err := s.back.PutObject(c20Ctx, bn, kn, nil, bytes.NewReader(c20Body(5)), nil, nil)
		if err != nil {
			return c38F("err", "SEED:"+c38ErrKind(err)), err
		}
		oldETag = *r.ETag
	}
	up, err := s.st.CreateMultipartUpload(c20Ctx, bn, kn, nil, nil, nil)
	if err != nil {
		return c38F("err", "create:"+c38ErrKind(err)), err
	}
	etags := map[int]string{}
	for p := 1; p <= 4; p++ {
		if upmask&(1<<(p-1)) == 0 {
			continue
		}
		r, err := s.st.UploadPart(c20Ctx, bn, kn, up.UploadId, int32(p), bytes.NewReader(c20Body(p)), nil)
		if err != nil {
			return c38F("err", "part:"+c38ErrKind(err)), err
		}
		etags[p] = r.ETag
	}
	var opts *storage.CompleteMultipartUploadOptions
	if len(f) > 4 && f[4] != "-" && f[4] != "" {
		opts = &storage.CompleteMultipartUploadOptions{}
		for _, e := range strings.Split(f[4], "/") {
			pe := strings.Split(e, ":")
			p := c20Atoi(pe[0])
			et := etags[p]
			if et == "" {
				et = "\"11111111111111111111111111111111\""
			}
			if len(pe) > 1 {
				switch pe[1] {
				case "1":
					et = c38WrongETag
				case "2":
					et = ""
				}
			}
			opts.Parts = append(opts.Parts, storage.CompleteMultipartUploadPart{PartNumber: int32(p), ETag: et})
		}
	}
	switch n(5) {
	case 1:
		if opts == nil {
			opts = &storage.CompleteMultipartUploadOptions{}
		}
		opts.IfNoneMatchStar = true
	case 2:
		if opts == nil {
			opts = &storage.CompleteMultipartUploadOptions{}
		}
		w := c38WrongETag
		opts.IfMatchETag = &w
	}
	_, cerr := s.st.CompleteMultipartUpload(c20Ctx, bn, kn, up.UploadId, nil, opts)
	kind := "ok"
	if cerr != nil {
		kind = c38ErrKind(cerr)
	}
	vis := "none"
	if ho, herr := s.back.HeadObject(c20Ctx, bn, kn, nil); herr == nil {
		switch {
		case oldETag != "" && ho.ETag == oldETag:
			vis = "old"
		case strings.Contains(ho.ETag, "-"):
			vis = "new"
		default:
			vis = "other"
		}
	}
	open := "closed"
	if _, lerr := s.back.ListParts(c20Ctx, bn, kn, up.UploadId, storage.ListPartsOptions{MaxParts: 10}); lerr == nil {
		open = "open"
		s.back.AbortMultipartUpload(c20Ctx, bn, kn, up.UploadId)
	}
	return strings.Join([]string{"done", c38F("kind", kind), c38F("vis", vis), c38F("open", open)}, " "), cerr
}

func c38MFXToken(proj string) string {
	m := c38Fields(proj)
	if e, ok := m["err"]; ok {
		return "X" + e
	}
	k := m["kind"]
	if strings.HasPrefix(k, "Api(") {
		k = strings.TrimSuffix(strings.TrimPrefix(k, "Api("), ")")
	}
	return fmt.Sprintf("%s:%s:%s", k, m["vis"], m["open"])
}
