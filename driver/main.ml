(* generic model runner: one case line on stdin -> one result line on stdout.
   All parsing/printing is done by the extracted Gallina function Model.run_line; this file only
   converts between OCaml strings and Coq [list byte] using the extracted table [all_bytes]. *)
let tbl = Array.of_list Model.all_bytes
let rev = Hashtbl.create 256
let () = Array.iteri (fun i b -> Hashtbl.replace rev b i) tbl
let to_coq s = List.init (String.length s) (fun i -> tbl.(Char.code s.[i]))
let of_coq l =
  let b = Buffer.create 64 in
  List.iter (fun x -> Buffer.add_char b (Char.chr (Hashtbl.find rev x))) l;
  Buffer.contents b
let () =
  try
    while true do
      let l = input_line stdin in
      print_string (of_coq (Model.run_line (to_coq l)));
      print_char '\n'
    done
  with End_of_file -> ()
